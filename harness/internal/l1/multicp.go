package l1

import (
	"fmt"
	"runtime"
	"sync"

	"github.com/lightninglabs/neutrino/chainsync"

	"verif/internal/chaingen"
	"verif/internal/netsim"
)

// Family "multicp": filter sessions whose network carries SEVERAL hard-coded
// filter-header checkpoints (two or three of the heights 1000/2000/3000, true
// values of the generated chain) and whose liars serve a checkpoint list that
// is false at an OLDER hard-coded height while it equals the newest one the
// list covers. Two styles of liar:
//
//   - list-only: one entry of the cfcheckpt list is made up, the cfheaders are
//     honest (netsim.LieCheckpt at the older hard-coded height);
//   - consistent: a false filter hash at or below the older hard-coded height
//     (wrong-hash / omit-script / unserved / extra-elem), the filter headers
//     chained from it served in cfcheckpt AND cfheaders, with the list
//     re-joining the truth from a later checkpoint height on
//     (netsim.LieRejoin) — so the cfheaders are consistent with the list.
//
// in three peer sets: the liar alone, every responding peer telling the same
// lie (identical bytes), liars next to honest peers (and sometimes a silent
// one). The oracle is CheckC03's: committed filter headers equal every
// hard-coded checkpoint and the ground truth, a peer whose list contradicted a
// hard-coded checkpoint is banned by the call the list was handed to, honest
// peers are not banned, no stall with an honest peer present.

// MultiCPFixed is the number of seed-independent plans at the head of the
// family's plan list.
const MultiCPFixed = 4

// MultiCPPlanFromSeed derives plan idx of the family (pure function; the first
// MultiCPFixed plans do not depend on seed).
func MultiCPPlanFromSeed(seed int64, idx int) FilterPlan {
	p := FilterPlan{}
	p.Name = fmt.Sprintf("mcp-%d-%d", seed, idx)
	p.Preset = chaingen.PresetNoRetarget
	p.WithBlocks = true
	p.SpacingSec = 5
	consistent := func(kind string, h, rejoin int32) []netsim.Lie {
		return []netsim.Lie{{Kind: kind, Height: h}, {Kind: netsim.LieRejoin, Height: rejoin}}
	}
	if idx < MultiCPFixed {
		// Session seeds (they draw the order in which the scripted dispatcher
		// works through a batch of cfheaders requests): with the one of plan
		// 1 the request ending at the older checkpoint is answered first.
		p.Seed = []int64{770001, 770012, 770003, 770004}[idx]
		switch idx {
		case 0:
			// Two hard-coded checkpoints; a lone peer whose list equals the
			// newest one and contradicts the older one (cfheaders honest).
			p.ChainLen, p.FilterCPs = 2100, []int32{1000, 2000}
			p.Behaviours = []PeerBehaviour{{Lies: []netsim.Lie{{Kind: netsim.LieCheckpt, Height: 1000}}}}
			p.Family = "multicp/lone/list-only"
		case 1:
			// The older hard-coded checkpoint ends a two-interval cfheaders
			// query: a lone peer's false filter headers up to it hang together
			// with its own list.
			p.ChainLen, p.FilterCPs = 3080, []int32{2000, 3000}
			p.Behaviours = []PeerBehaviour{{Lies: consistent(netsim.LieWrongHash, 1500, 3000)}}
			p.Family = "multicp/lone/consistent"
		case 2:
			// Two liars the block cannot expose (identical padded filters)
			// outnumber one honest peer: only the hard-coded checkpoint
			// tells them apart.
			p.ChainLen, p.FilterCPs = 2100, []int32{1000, 2000}
			l := PeerBehaviour{Lies: consistent(netsim.LieExtraElem, 700, 2000), LiarSeed: 4343}
			p.Behaviours = []PeerBehaviour{l, {}, l}
			p.Family = "multicp/mixed/consistent"
		case 3:
			// Every responding peer serves the same false list.
			p.ChainLen, p.FilterCPs = 2060, []int32{1000, 2000}
			for i := 0; i < 3; i++ {
				p.Behaviours = append(p.Behaviours, PeerBehaviour{Lies: consistent(netsim.LieWrongHash, 400, 2000), LiarSeed: 4242})
			}
			p.Family = "multicp/all/consistent"
		}
		return p
	}

	r := newRand(seed^0x3c9c0de, int64(idx))
	p.Seed = seed*1000003 + int64(idx) + 900000
	sets := [][]int32{{1000, 2000}, {1000, 2000}, {1000, 2000}, {2000, 3000}, {2000, 3000}, {1000, 3000}, {1000, 2000, 3000}}
	p.FilterCPs = sets[r.Intn(len(sets))]
	newest := p.FilterCPs[len(p.FilterCPs)-1]
	p.ChainLen = int(newest) + 50 + r.Intn(200)
	// The contradicted (older) hard-coded height and the height from which
	// the list is true again.
	older := p.FilterCPs[r.Intn(len(p.FilterCPs)-1)]
	rejoin := older + 1000*int32(1+r.Intn(int((newest-older)/1000)))
	listOnly := r.Intn(3) == 0
	kinds := []string{netsim.LieWrongHash, netsim.LieOmitScript, netsim.LieUnserved, netsim.LieExtraElem}
	liar := func(liarSeed int64) PeerBehaviour {
		if listOnly {
			// Mostly the older height; sometimes any hard-coded height, the
			// newest included.
			at := older
			if r.Intn(4) == 0 {
				at = p.FilterCPs[r.Intn(len(p.FilterCPs))]
			}
			return PeerBehaviour{Lies: []netsim.Lie{{Kind: netsim.LieCheckpt, Height: at}}, LiarSeed: liarSeed}
		}
		h := older - int32(r.Intn(1000))
		if r.Intn(4) == 0 {
			h = 1 + int32(r.Intn(int(older)))
		}
		return PeerBehaviour{Lies: consistent(kinds[r.Intn(len(kinds))], h, rejoin), LiarSeed: liarSeed}
	}
	style := "consistent"
	if listOnly {
		style = "list-only"
	}
	switch r.Intn(3) {
	case 0:
		p.Behaviours = []PeerBehaviour{liar(0)}
		p.Family = "multicp/lone/" + style
	case 1:
		b := liar(p.Seed ^ 0x51ed)
		for i, n := 0, 2+r.Intn(2); i < n; i++ {
			p.Behaviours = append(p.Behaviours, b)
		}
		p.Family = "multicp/all/" + style
	default:
		for i, n := 0, 1+r.Intn(2); i < n; i++ {
			p.Behaviours = append(p.Behaviours, PeerBehaviour{})
		}
		// Liars: independent ones, or a coalition telling one identical lie
		// (which may outnumber the honest peers).
		if r.Intn(2) == 0 {
			b := liar(p.Seed ^ 0x51ed)
			for i, n := 0, 1+r.Intn(3); i < n; i++ {
				p.Behaviours = append(p.Behaviours, b)
			}
		} else {
			for i, n := 0, 1+r.Intn(2); i < n; i++ {
				p.Behaviours = append(p.Behaviours, liar(0))
			}
		}
		if r.Intn(4) == 0 {
			p.Behaviours = append(p.Behaviours, PeerBehaviour{Silent: true})
		}
		r.Shuffle(len(p.Behaviours), func(i, j int) { p.Behaviours[i], p.Behaviours[j] = p.Behaviours[j], p.Behaviours[i] })
		p.Family = "multicp/mixed/" + style
	}
	// Reorganisations between rounds are at most 40 deep and the chain ends
	// at least 50 above the newest checkpoint: checkpointed blocks stay.
	p.Reorgs = []int{0, 0, 1}[r.Intn(3)]
	p.Growth = []int{0, 0, 3}[r.Intn(3)]
	p.Legacy = r.Intn(4) == 0
	return p
}

// RunMultiCPFilter runs the first n plans of the family. The hard-coded
// checkpoint table of the client is one process-global map keyed by network
// magic (each session has its own magic), unsafe to write while any block
// manager reads it; so the sessions run in waves: every session of a wave
// builds its chain and peers, then waits; the last one to arrive installs the
// checkpoints of ALL of them while nobody reads; then the sessions run in
// parallel (reads only); the entries are removed when the wave has finished.
// Nothing else in the process may run block managers meanwhile.
func RunMultiCPFilter(seed int64, n int, cb FilterCallbacks) {
	width := min(runtime.NumCPU(), 16)
	for start := 0; start < n; start += width {
		end := min(start+width, n)
		var (
			mu       sync.Mutex
			pending  = end - start
			installs []func()
			release  = make(chan struct{})
			wg       sync.WaitGroup
			done     []*FilterSession
		)
		arrive := func(install func(), wait bool) {
			mu.Lock()
			if install != nil {
				installs = append(installs, install)
			}
			pending--
			last := pending == 0
			mu.Unlock()
			if last {
				for _, f := range installs {
					f()
				}
				close(release)
			}
			if wait {
				<-release
			}
		}
		for i := start; i < end; i++ {
			wg.Add(1)
			go func(i int) {
				defer wg.Done()
				arrived := false
				plan := MultiCPPlanFromSeed(seed, i)
				fs, err := runFilterSession(plan, cb.OnStep, cb.OnStoreErr, func(install func()) {
					arrived = true
					arrive(install, true)
				})
				if !arrived {
					arrive(nil, false)
				}
				if cb.OnEnd != nil {
					cb.OnEnd(fs, err)
				}
				mu.Lock()
				done = append(done, fs)
				mu.Unlock()
			}(i)
		}
		wg.Wait()
		for _, fs := range done {
			if fs == nil || fs.Session == nil {
				continue
			}
			if len(fs.Installed) > 0 {
				chainsync.VerifSetFilterCheckpoints(fs.G.P.Net, nil)
			}
			fs.Close()
			removeDir(fs.Session)
		}
	}
}
