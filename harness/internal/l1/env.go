// Package l1 is the deterministic block-manager driver (engine L1 of
// DESIGN.md): the REAL neutrino blockManager over REAL headerfs stores on
// disk, with scripted network functions, driven synchronously one message at
// a time so that every store can be read after every handled message.
package l1

import (
	"fmt"
	"io"
	"net"
	"os"
	"path/filepath"
	"sync"
	"time"

	"github.com/btcsuite/btcd/chaincfg/v2"
	"github.com/btcsuite/btcd/chainhash/v2"
	"github.com/btcsuite/btcd/peer"
	"github.com/btcsuite/btcd/wire/v2"
	"github.com/btcsuite/btcwallet/walletdb"
	_ "github.com/btcsuite/btcwallet/walletdb/bdb"
	"github.com/lightninglabs/neutrino"
	"github.com/lightninglabs/neutrino/headerfs"

	"verif/internal/chaingen"
	"verif/internal/netsim"
)

// FixedNow is the L1 clock: every L1 run uses the same instant, so generated
// chains (and the genesis block) are identical across runs with equal seeds.
var FixedNow = time.Unix(1_780_000_000, 0)

// GenesisTime of every L1 chain.
var GenesisTime = FixedNow.Add(-20 * time.Hour)

// Clock is a settable blockchain.MedianTimeSource.
type Clock struct {
	mu sync.Mutex
	t  time.Time
}

func (c *Clock) AdjustedTime() time.Time         { c.mu.Lock(); defer c.mu.Unlock(); return c.t }
func (c *Clock) AddTimeSample(string, time.Time) {}
func (c *Clock) Offset() time.Duration           { return 0 }
func (c *Clock) Set(t time.Time)                 { c.mu.Lock(); c.t = t; c.mu.Unlock() }

// Scratch returns the scratch root for this process.
func Scratch() string {
	if s := os.Getenv("VERIF_SCRATCH"); s != "" {
		return s
	}
	d, err := os.MkdirTemp("", "verif-l1-")
	if err != nil {
		panic(err)
	}
	return d
}

var (
	tmplOnce sync.Once
	tmplDir  string
	tmplErr  error
)

// Stores is an open pair of header stores on one database.
type Stores struct {
	Dir    string
	DB     walletdb.DB
	Block  headerfs.BlockHeaderStore
	Filter headerfs.FilterHeaderStore
	// Ctl / files: set when the stores were opened with the fault layer
	// (fault.go): the controller of the wrappers and the real flat files
	// underneath them (closed by Close).
	Ctl   *FaultCtl
	files []headerfs.File
}

// LegacyIndex moves every hash->height entry of the header index from its
// prefix sub-bucket to the root bucket of the index, which is where releases
// before the sub-buckets stored them (lookups still fall back to it): the
// database of an installation that was upgraded. It returns how many entries
// were moved.
func (s *Stores) LegacyIndex(hashes []chainhash.Hash) (int, error) {
	n := 0
	err := walletdb.Update(s.DB, func(tx walletdb.ReadWriteTx) error {
		root := tx.ReadWriteBucket([]byte("header-index"))
		if root == nil {
			return fmt.Errorf("no header-index bucket")
		}
		for i := range hashes {
			k := hashes[i][:]
			sub := root.NestedReadWriteBucket(k[:2])
			if sub == nil {
				continue
			}
			v := sub.Get(k)
			if v == nil {
				continue
			}
			v = append([]byte(nil), v...)
			if err := sub.Delete(k); err != nil {
				return err
			}
			if err := root.Put(k, v); err != nil {
				return err
			}
			n++
		}
		return nil
	})
	return n, err
}

// Close closes the database (the flat files are closed with the process /
// garbage; headerfs exposes no Close).
func (s *Stores) Close() {
	s.closeFiles()
	if s.DB != nil {
		_ = s.DB.Close()
		s.DB = nil
	}
}

// OpenStores opens (or creates) the stores in dir for params p.
func OpenStores(dir string, p *chaincfg.Params) (*Stores, error) {
	db, err := walletdb.Create("bdb", filepath.Join(dir, "neutrino.db"), true, 10*time.Second, false)
	if err != nil {
		return nil, err
	}
	b, err := headerfs.NewBlockHeaderStore(dir, db, p)
	if err != nil {
		_ = db.Close()
		return nil, fmt.Errorf("NewBlockHeaderStore: %w", err)
	}
	f, err := headerfs.NewFilterHeaderStore(dir, db, headerfs.RegularFilter, p, nil)
	if err != nil {
		_ = db.Close()
		return nil, fmt.Errorf("NewFilterHeaderStore: %w", err)
	}
	return &Stores{Dir: dir, DB: db, Block: b, Filter: f}, nil
}

// template creates (once per process) a directory holding freshly
// initialised stores for the common L1 genesis; creating one costs ≈0.45 s
// (65 536 index sub-buckets), copying it a few ms.
func template(p *chaincfg.Params) (string, error) {
	tmplOnce.Do(func() {
		tmplDir = filepath.Join(Scratch(), "l1-template")
		_ = os.RemoveAll(tmplDir)
		if tmplErr = os.MkdirAll(tmplDir, 0o755); tmplErr != nil {
			return
		}
		var s *Stores
		s, tmplErr = OpenStores(tmplDir, p)
		if tmplErr == nil {
			s.Close()
		}
	})
	return tmplDir, tmplErr
}

// CopyDir copies the regular files of src into dst (created).
func CopyDir(src, dst string) error {
	if err := os.MkdirAll(dst, 0o755); err != nil {
		return err
	}
	ents, err := os.ReadDir(src)
	if err != nil {
		return err
	}
	for _, e := range ents {
		if e.IsDir() {
			continue
		}
		in, err := os.Open(filepath.Join(src, e.Name()))
		if err != nil {
			return err
		}
		out, err := os.Create(filepath.Join(dst, e.Name()))
		if err != nil {
			in.Close()
			return err
		}
		_, err = io.Copy(out, in)
		in.Close()
		out.Close()
		if err != nil {
			return err
		}
	}
	return nil
}

// FreshStores returns stores initialised with g's genesis in a new
// directory (a copy of the process-wide template). All L1 generators share
// one genesis block (same GenesisTime), which the template relies on; this is
// checked.
func FreshStores(g *chaingen.Gen, name string) (*Stores, error) {
	t, err := template(g.P)
	if err != nil {
		return nil, err
	}
	dir := filepath.Join(Scratch(), name)
	_ = os.RemoveAll(dir)
	if err := CopyDir(t, dir); err != nil {
		return nil, err
	}
	s, err := OpenStores(dir, g.P)
	if err != nil {
		return nil, err
	}
	h, _, err := s.Block.ChainTip()
	if err != nil {
		return nil, err
	}
	if h.BlockHash() != g.Genesis.Hash {
		return nil, fmt.Errorf("template genesis differs from generator genesis")
	}
	return s, nil
}

// SimPeer is an L1 peer: a real neutrino ServerPeer whose btcd peer.Peer is
// handshaken over an in-memory connection with a passive recorder, so that
// Disconnect, pushed getheaders, LastBlock and StartingHeight are real.
type SimPeer struct {
	Addr     string
	SP       *neutrino.ServerPeer
	Rec      *netsim.Peer // the remote side: records what the client pushes
	conn     *netsim.Conn
	Services wire.ServiceFlag
	// gone: the peer was connected when the client went down (Session.Restart).
	gone bool
	// done: the peer-done event was delivered for it (iofault.go).
	done bool
	// superseded: after a restart of the client this peer connected again as a
	// new SimPeer; what is asserted about the peer is asserted about that one.
	superseded bool
}

// Disconnected reports whether the client side closed the connection.
func (p *SimPeer) Disconnected() bool { return !p.SP.Connected() }

// GetHeadersSeen returns how many getheaders the client pushed to this peer.
func (p *SimPeer) GetHeadersSeen() int { return p.Rec.RxCount("getheaders") }

// NewSimPeer connects a new peer that advertises startHeight and services.
func NewSimPeer(g *chaingen.Gen, stores *Stores, log *netsim.Log, addr string,
	startHeight int32, services wire.ServiceFlag, view *netsim.View) (*SimPeer, error) {

	rec := netsim.NewPeer(addr, g.P.Net, view, log)
	rec.Services = services
	rec.StartHeightOverride = startHeight
	rec.Silent.Store(true)

	cliAddr := &net.TCPAddr{IP: net.IPv4(127, 0, 0, 1), Port: 50000}
	a, b := netsim.Pipe(cliAddr, netsim.TCPAddr(addr), 0)
	go rec.Serve(b)

	sp := neutrino.VerifNewServerPeer(nil, *g.P, stores.Block)
	cfg := &peer.Config{
		NewestBlock: func() (*chainhash.Hash, int32, error) {
			h, ht, err := stores.Block.ChainTip()
			if err != nil {
				return nil, 0, err
			}
			hash := h.BlockHash()
			return &hash, int32(ht), nil
		},
		UserAgentName:    "verif-l1",
		UserAgentVersion: "0.0.1",
		ChainParams:      g.P,
		Services:         wire.SFNodeWitness | wire.SFNodeCF,
		ProtocolVersion:  wire.AddrV2Version,
		DisableRelayTx:   true,
		AllowSelfConns:   true,
	}
	pp, err := peer.NewOutboundPeer(cfg, addr)
	if err != nil {
		return nil, err
	}
	sp.Peer = pp
	pp.AssociateConnection(a)
	select {
	case <-rec.Ready:
	case <-time.After(20 * time.Second):
		return nil, fmt.Errorf("L1 peer handshake timed out")
	}
	// The client side finishes its negotiation right after sending verack;
	// wait until btcd reports it.
	deadline := time.Now().Add(20 * time.Second)
	for !pp.VerAckReceived() {
		if time.Now().After(deadline) {
			return nil, fmt.Errorf("L1 peer never saw verack")
		}
		time.Sleep(200 * time.Microsecond)
	}
	return &SimPeer{Addr: addr, SP: sp, Rec: rec, conn: a, Services: services}, nil
}

// Close tears the peer down.
func (p *SimPeer) Close() {
	p.SP.Disconnect()
	_ = p.conn.Close()
}

func removeDir(s *Session) {
	if s.Stores != nil {
		_ = os.RemoveAll(s.Stores.Dir)
	}
}
