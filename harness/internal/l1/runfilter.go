package l1

import (
	"runtime"
	"sync"
)

// FilterCallbacks for RunManyFilter.
type FilterCallbacks struct {
	OnStep     func(fs *FilterSession, st *StepObs)
	OnStoreErr func(fs *FilterSession, st *StepObs, err error)
	OnEnd      func(fs *FilterSession, err error)
}

// RunManyFilter runs nTip at-tip sessions and nCp checkpointed sessions in
// parallel, then nHook sessions that need process-global hooks (injected
// filter checkpoints, pause points) one at a time.
func RunManyFilter(seed int64, nTip, nCp, nHook int, cb FilterCallbacks) {
	type job struct{ class, idx int }
	run := func(j job) {
		plan := FilterPlanFromSeed(seed, j.idx, j.class)
		fs, err := RunFilterSession(plan, cb.OnStep, cb.OnStoreErr)
		if cb.OnEnd != nil {
			cb.OnEnd(fs, err)
		}
		if fs != nil && fs.Session != nil {
			fs.Close()
			removeDir(fs.Session)
		}
	}
	workers := min(runtime.NumCPU(), 16)
	jobs := make(chan job)
	var wg sync.WaitGroup
	for w := 0; w < workers; w++ {
		wg.Add(1)
		go func() {
			defer wg.Done()
			for j := range jobs {
				run(j)
			}
		}()
	}
	for i := 0; i < nCp; i++ {
		jobs <- job{1, i}
	}
	for i := 0; i < nTip; i++ {
		jobs <- job{0, i}
	}
	for i := 0; i < NBoundary(nTip); i++ {
		jobs <- job{3, i}
	}
	close(jobs)
	wg.Wait()
	for i := 0; i < nHook; i++ {
		run(job{2, i})
	}
}

// NBoundary is the number of boundary-placement sessions (class 3) that go with
// nTip at-tip sessions.
func NBoundary(nTip int) int { return max(12, nTip*3/4) }
