package l1

import (
	"fmt"
	"math/rand"

	"github.com/btcsuite/btcd/chainhash/v2"
	"github.com/btcsuite/btcd/wire/v2"

	"verif/internal/chaingen"
	"verif/internal/ref"
)

// HeaderPlan parameterises one header session.
type HeaderPlan struct {
	SessionConfig
	Steps      int
	TrunkLen   int     // pre-planned honest trunk (checkpoints are placed on it)
	Checkpoint []int32 // heights on the trunk that become hard-coded checkpoints
	StaleAt    int     // step index at which the clock jumps +30h (0 = never)
	DeepFork   bool    // wrap session: long trunk, fork beyond the in-memory window
	// LegacyAt: step index at which the hash->height index entries written so
	// far are moved to where releases before the prefix sub-buckets kept them
	// (the root bucket of the index), i.e. the database of an upgraded
	// installation (0 = never).
	LegacyAt int
}

// PlanFromSeed derives a plan from a seed (pure function).
func PlanFromSeed(seed int64, idx int) HeaderPlan {
	r := newRand(seed, int64(idx))
	p := HeaderPlan{}
	p.Seed = seed*1000003 + int64(idx)
	p.Name = fmt.Sprintf("hs-%d", idx)
	p.Preset = idx % chaingen.NumPresets
	p.Interval = 4 + r.Intn(13)
	p.SpacingSec = int64(4 + r.Intn(8))
	p.NumPeers = 1 + r.Intn(4)
	p.Steps = 20 + r.Intn(100)
	p.TrunkLen = 20 + r.Intn(120)
	switch r.Intn(5) {
	case 0: // none
	case 1:
		p.Checkpoint = []int32{int32(2 + r.Intn(p.TrunkLen-2))}
	default:
		a := int32(2 + r.Intn(p.TrunkLen/2))
		b := a + 1 + int32(r.Intn(p.TrunkLen/2-1))
		p.Checkpoint = []int32{a, b}
		if r.Intn(3) == 0 && int(b)+5 < p.TrunkLen {
			p.Checkpoint = append(p.Checkpoint, b+1+int32(r.Intn(4)))
		}
	}
	if r.Intn(6) == 0 {
		p.StaleAt = 5 + r.Intn(p.Steps)
	}
	if r.Intn(4) == 0 {
		p.LegacyAt = 3 + r.Intn(p.Steps/2)
	}
	return p
}

// honestNext returns THE honest child of t: the trunk successor when t is on
// the trunk, otherwise a cached fresh extension, so that every peer that
// serves "the next header" serves the same one.
func (hs *headerSession) honestNext(t *chaingen.Node) *chaingen.Node {
	if n, ok := hs.next[t.Hash]; ok {
		return n
	}
	n := hs.s.G.Extend(t, 1, hs.randPace())[0]
	hs.next[t.Hash] = n
	return n
}

func (hs *headerSession) honestRun(t *chaingen.Node, n int) []*chaingen.Node {
	out := make([]*chaingen.Node, 0, n)
	for i := 0; i < n; i++ {
		t = hs.honestNext(t)
		out = append(out, t)
	}
	return out
}

// nextCheckpointAbove returns the height of the first checkpoint above t that
// lies on the planned trunk continuation of t (0 if none or t is off the trunk).
func (hs *headerSession) nextCheckpointAbove(t *chaingen.Node) int32 {
	for _, c := range hs.s.G.P.Checkpoints {
		if c.Height > t.Height {
			// t must be an ancestor of the checkpoint block.
			if n := hs.s.G.Lookup(*c.Hash); n != nil && n.Ancestor(t.Height) == t {
				return c.Height
			}
			return 0
		}
	}
	return 0
}

func (hs *headerSession) randPace() chaingen.Pace {
	return chaingen.Pace(hs.s.Rng.Intn(4))
}

type headerSession struct {
	s    *Session
	plan HeaderPlan
	next map[chainhash.Hash]*chaingen.Node
	// rejected collects tips of branches the client was offered but (by the
	// generator's intent) should not have adopted; "orphan" batches build on them.
	sideTips []*chaingen.Node
	lastBad  []*chaingen.Node // valid prefix of the previous ext-bad batch
	// abandoned: tips of branches the client HAD stored and then left in a
	// reorganisation; "fork-return" batches offer such a branch again, extended.
	abandoned []*chaingen.Node
	onStep   func(s *Session, st *StepObs)
	lastSt   *StepObs
}

// done reports a finished step to the monitors.
func (hs *headerSession) done(st *StepObs, err error) error {
	hs.lastSt = st
	if err == nil && st != nil {
		if n, m := len(st.Pre), len(st.Post); n > 1 && m > 0 {
			pt := st.Pre[n-1].BlockHash()
			if n > m || st.Post[n-1].BlockHash() != pt {
				if nd := hs.s.G.Lookup(pt); nd != nil && nd.ChainValid {
					hs.abandoned = append(hs.abandoned, nd)
				}
			}
		}
		hs.onStep(hs.s, st)
	}
	return err
}

func (hs *headerSession) send(kind string, pi int, batch []*chaingen.Node) error {
	return hs.done(hs.s.SendHeaders(kind, pi, batch, nil))
}

// RunHeaderSession executes one header session, calling onStep after every
// driver step. It returns the session (caller closes it). A StoreErr aborts
// the session after being reported through onStoreErr.
func RunHeaderSession(plan HeaderPlan, onStep func(s *Session, st *StepObs),
	onStoreErr func(s *Session, st *StepObs, err error)) (*Session, error) {

	s, err := NewSession(plan.SessionConfig)
	if err != nil {
		return nil, err
	}
	hs := &headerSession{s: s, plan: plan, next: map[chainhash.Hash]*chaingen.Node{}, onStep: onStep}
	g := s.G

	// Pre-plan the trunk and the checkpoints on it.
	trunk := g.Extend(g.Genesis, plan.TrunkLen, chaingen.PaceMixed)
	prev := g.Genesis
	for _, n := range trunk {
		hs.next[prev.Hash] = n
		prev = n
	}
	if len(plan.Checkpoint) > 0 {
		g.SetCheckpoints(trunk[len(trunk)-1], plan.Checkpoint...)
	}
	if err := s.Open(); err != nil {
		return s, err
	}
	s.View.SetTip(trunk[len(trunk)-1])

	// Peers with assorted claimed heights.
	for i := 0; i < plan.NumPeers; i++ {
		claim := int32(plan.TrunkLen)
		switch s.Rng.Intn(4) {
		case 0:
			claim = int32(s.Rng.Intn(plan.TrunkLen + 1))
		case 1:
			claim = int32(plan.TrunkLen + s.Rng.Intn(50))
		}
		if _, err := s.AddPeer(claim, wire.SFNodeNetwork|wire.SFNodeWitness|wire.SFNodeCF); err != nil {
			return s, err
		}
	}

	for step := 0; step < plan.Steps; step++ {
		if plan.StaleAt != 0 && step == plan.StaleAt {
			now := FixedNow.Add(30 * 3600 * 1e9)
			s.Clock.Set(now)
			g.Now = now
			s.note("clock +30h")
		}
		if plan.LegacyAt != 0 && step == plan.LegacyAt {
			chain, err := s.ReadBlockChain()
			if err != nil {
				return s, err
			}
			n, err := s.Stores.LegacyIndex(hashesOf(chain))
			if err != nil {
				return s, err
			}
			s.note("index entries moved to the legacy location: %d", n)
		}
		t := s.TipNode()
		if t == nil {
			return s, fmt.Errorf("stored tip is not a generator node")
		}
		if err := hs.step(t); err != nil {
			if se, ok := err.(*StoreErr); ok {
				onStoreErr(s, hs.lastSt, se.Err)
				return s, nil
			}
			return s, err
		}
	}
	return s, nil
}

func (hs *headerSession) livePeer() int {
	s := hs.s
	var live []int
	for i, p := range s.Peers {
		if !p.Disconnected() {
			live = append(live, i)
		}
	}
	if len(live) == 0 {
		p, err := s.AddPeer(int32(hs.plan.TrunkLen), wire.SFNodeNetwork|wire.SFNodeWitness|wire.SFNodeCF)
		if err != nil {
			panic(err)
		}
		_ = p
		return len(s.Peers) - 1
	}
	return live[s.Rng.Intn(len(live))]
}

// syncPeerIndex returns the index of the current sync peer or -1.
func (hs *headerSession) syncPeerIndex() int {
	sp := hs.s.BM.SyncPeer()
	for i, p := range hs.s.Peers {
		if p.SP == sp && sp != nil {
			return i
		}
	}
	return -1
}

// step picks and executes one message.
func (hs *headerSession) step(t *chaingen.Node) error {
	s := hs.s
	r := s.Rng
	g := s.G
	pi := hs.livePeer()
	// Bias: half of the time the sender is the sync peer.
	if si := hs.syncPeerIndex(); si >= 0 && !s.Peers[si].Disconnected() && r.Intn(2) == 0 {
		pi = si
	}

	// Follow-up to a partially invalid batch: another peer serves the same
	// (valid) headers and goes on.
	if hs.lastBad != nil && r.Intn(2) == 0 {
		pre := hs.lastBad
		hs.lastBad = nil
		if len(pre) > 0 && pre[0].Parent == t {
			if r.Intn(2) == 0 {
				// First only the already-offered valid prefix, then more.
				if err := hs.send("ext-after-bad", pi, pre); err != nil {
					return err
				}
				t2 := s.TipNode()
				if t2 == nil {
					return fmt.Errorf("tip unknown")
				}
				return hs.send("ext-after-bad2", pi, hs.honestRun(t2, 1+r.Intn(3)))
			}
			batch := append(append([]*chaingen.Node{}, pre...), hs.honestRun(pre[len(pre)-1], 1+r.Intn(3))...)
			return hs.send("ext-after-bad", pi, batch)
		}
	}
	hs.lastBad = nil

	// A failed store write on a batch that ends on (or crosses) the next
	// checkpoint, followed by a peer whose chain misses that checkpoint: the
	// checkpoint must still be enforced.
	if cp := hs.nextCheckpointAbove(t); cp > 0 && r.Intn(12) == 0 {
		run := hs.honestRun(t, int(cp-t.Height)+[]int{0, 0, 1, 3}[r.Intn(4)])
		s.FailNextWrite()
		if err := hs.send("ext-writefail", pi, run); err != nil {
			return err
		}
		t2 := s.TipNode()
		if t2 == nil {
			return fmt.Errorf("tip unknown")
		}
		if cp2 := hs.nextCheckpointAbove(t2); cp2 > 0 && r.Intn(3) != 0 {
			// off the trunk from the stored tip, across the checkpoint height
			miss := g.Extend(t2, int(cp2-t2.Height)+1+r.Intn(3), hs.randPace())
			hs.sideTips = append(hs.sideTips, miss[len(miss)-1])
			return hs.send("ext-bad-checkpoint", hs.livePeer(), miss)
		}
		return nil
	}

	k := r.Intn(100)
	switch {
	case k < 30: // valid extension
		n := 1 + r.Intn(8)
		if r.Intn(10) == 0 {
			n = 20 + r.Intn(40)
		}
		return hs.send("ext", pi, hs.honestRun(t, n))

	case k < 45: // valid up to index kk, then invalid in exactly one rule
		kk := []int{0, 1, 3}[r.Intn(3)]
		pre := hs.honestRun(t, kk)
		base := t
		if kk > 0 {
			base = pre[kk-1]
		}
		rule := chaingen.AllRules[r.Intn(len(chaingen.AllRules))]
		bad := g.Invalid(base, rule)
		if bad == nil {
			return hs.send("ext", pi, hs.honestRun(t, 1))
		}
		batch := append(append([]*chaingen.Node{}, pre...), bad)
		if r.Intn(3) == 0 {
			batch = append(batch, g.Extend(bad, 1+r.Intn(2), chaingen.PaceNormal)...)
		}
		hs.sideTips = append(hs.sideTips, batch[len(batch)-1])
		hs.lastBad = pre
		return hs.send("ext-bad-"+rule, pi, batch)

	case k < 50: // duplicate of known headers
		if t.Height < 2 {
			return hs.send("ext", pi, hs.honestRun(t, 1))
		}
		path := t.Path()
		a := 1 + r.Intn(int(t.Height))
		b := a + r.Intn(int(t.Height)-a+1)
		if b-a > 30 {
			b = a + 30
		}
		return hs.send("dup", pi, path[a:b+1])

	case k < 53: // shuffled
		run := hs.honestRun(t, 3)
		run[1], run[2] = run[2], run[1]
		return hs.send("shuffled", pi, run)

	case k >= 72 && k < 80 && len(hs.abandoned) > 0:
		// Back to a branch the client stored once and then left: the peer
		// serves everything after the fork point, i.e. the old blocks of that
		// branch again, followed by new ones that make it the better chain.
		a := hs.abandoned[r.Intn(len(hs.abandoned))]
		if r.Intn(2) == 0 {
			a = hs.abandoned[len(hs.abandoned)-1]
		}
		f := a
		for f != nil && t.Ancestor(f.Height) != f {
			f = f.Parent
		}
		if f == nil || f == a {
			return hs.send("ext", pi, hs.honestRun(t, 1))
		}
		L := int(t.Height-a.Height) + 1 + r.Intn(3)
		if L < 1 {
			L = 1 + r.Intn(2)
		}
		ext := g.Extend(a, L, hs.randPace())
		old := a.Path()[f.Height+1:]
		if r.Intn(4) == 0 && len(old) > 1 { // the message starts in the middle of the old part
			old = old[r.Intn(len(old)):]
		}
		batch := append(append([]*chaingen.Node{}, old...), ext...)
		hs.sideTips = append(hs.sideTips, ext[len(ext)-1])
		return hs.send("fork-return", pi, batch)

	case k >= 66 && k < 72 && t.Height >= 4:
		// A message that is not one chain: one or two headers of a fork,
		// followed by headers that do not build on them (the client's own
		// headers above the fork, possibly one more on top), so that the work
		// summed over the whole message exceeds what the fork would displace
		// while the linked part alone does not.
		d := 2 + r.Intn(int(min(int32(6), t.Height-1)))
		f := t.Ancestor(t.Height - int32(d))
		nb := 1
		if d > 2 && r.Intn(2) == 0 {
			nb = 2
		}
		br := g.Extend(f, nb, hs.randPace())
		pad := append([]*chaingen.Node{}, t.Path()[int(f.Height)+nb+1:]...)
		pad = append(pad, hs.honestRun(t, 1+r.Intn(2))...)
		hs.sideTips = append(hs.sideTips, br[len(br)-1])
		return hs.send("fork-unlinked", pi, append(br, pad...))

	case k < 80: // fork
		if t.Height < 1 {
			return hs.send("ext", pi, hs.honestRun(t, 1))
		}
		maxD := int(t.Height)
		if maxD > 50 {
			maxD = 50
		}
		d := 1 + r.Intn(maxD)
		if r.Intn(2) == 0 && maxD > 3 {
			d = 1 + r.Intn(3)
		}
		// Sometimes aim exactly at a checkpoint neighbourhood.
		if cps := g.P.Checkpoints; len(cps) > 0 && r.Intn(3) == 0 {
			cp := cps[r.Intn(len(cps))].Height
			f := cp - 1 + int32(r.Intn(3)) // below / at / above
			if f >= 0 && f < t.Height {
				d = int(t.Height - f)
			}
		}
		f := t.Ancestor(t.Height - int32(d))
		L := d + []int{-1, 0, 0, 1, 1, 3}[r.Intn(6)]
		if L < 1 {
			L = 1
		}
		branch := g.Extend(f, L, hs.randPace())
		kind := "fork"
		if r.Intn(5) == 0 && L >= 2 { // an invalid header inside the branch
			idx := r.Intn(L)
			base := f
			if idx > 0 {
				base = branch[idx-1]
			}
			rule := chaingen.AllRules[1+r.Intn(len(chaingen.AllRules)-1)] // not "link"
			if bad := g.Invalid(base, rule); bad != nil {
				tail := g.Extend(bad, L-idx, chaingen.PaceFast)
				branch = append(append([]*chaingen.Node{}, branch[:idx]...), bad)
				branch = append(branch, tail...)
				kind = "fork-bad-" + rule
			}
		}
		hs.sideTips = append(hs.sideTips, branch[len(branch)-1])
		batch := branch
		if r.Intn(4) == 0 { // known prefix before the fork
			kp := 1 + r.Intn(2)
			if int(f.Height) >= kp {
				path := f.Path()
				batch = append(append([]*chaingen.Node{}, path[int(f.Height)-kp+1:]...), branch...)
				kind += "+known"
			}
		}
		if r.Intn(5) == 0 && len(branch) >= 2 { // revealed in two messages
			cut := 1 + r.Intn(len(branch)-1)
			if err := hs.send(kind+"-part1", pi, branch[:cut]); err != nil {
				return err
			}
			if r.Intn(2) == 0 {
				return hs.send(kind+"-rest", pi, branch[cut:])
			}
			return hs.send(kind+"-full", hs.livePeer(), batch)
		}
		return hs.send(kind, pi, batch)

	case k < 84: // inv
		var hashes []chainhash.Hash
		switch r.Intn(3) {
		case 0:
			hashes = append(hashes, t.Hash)
		case 1:
			hashes = append(hashes, hs.honestNext(t).Hash)
		default:
			var h chainhash.Hash
			r.Read(h[:])
			hashes = append(hashes, h)
		}
		return hs.done(s.SendInv(pi, hashes))

	case k < 88: // orphan batch on a branch the client does not have
		if len(hs.sideTips) == 0 {
			return hs.send("ext", pi, hs.honestRun(t, 1))
		}
		base := hs.sideTips[r.Intn(len(hs.sideTips))]
		return hs.send("orphan", pi, g.Extend(base, 1+r.Intn(3), chaingen.PaceNormal))

	case k < 94: // peer leaves (and maybe another joins)
		if err := hs.done(s.DonePeer(pi)); err != nil {
			return err
		}
		if r.Intn(2) == 0 || len(s.Peers) < 2 {
			if _, err := s.AddPeer(t.Height+int32(r.Intn(20)), wire.SFNodeNetwork|wire.SFNodeWitness|wire.SFNodeCF); err != nil {
				return err
			}
		}
		return nil

	default: // new peer
		if len(s.Peers) >= 8 {
			return hs.send("ext", pi, hs.honestRun(t, 1))
		}
		claim := t.Height + int32(r.Intn(30)) - 5
		if claim < 0 {
			claim = 0
		}
		s.nstep++
		if _, err := s.AddPeer(claim, wire.SFNodeNetwork|wire.SFNodeWitness|wire.SFNodeCF); err != nil {
			return err
		}
		return nil
	}
}

var _ = ref.RuleLink

func newRand(seed, idx int64) *rand.Rand {
	return rand.New(rand.NewSource(seed*7919 + idx*104729 + 17))
}
