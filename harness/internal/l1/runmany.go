package l1

import (
	"fmt"
	"runtime"
	"sync"
)

// Callbacks for RunMany.
type Callbacks struct {
	OnStep     func(s *Session, st *StepObs)
	OnStoreErr func(s *Session, st *StepObs, err error)
	OnEnd      func(s *Session, err error)
}

// RunMany executes n header sessions (plans derived from seed and index) on a
// worker pool.
func RunMany(seed int64, n int, cb Callbacks) {
	workers := runtime.NumCPU()
	if workers > 16 {
		workers = 16
	}
	idx := make(chan int)
	var wg sync.WaitGroup
	for w := 0; w < workers; w++ {
		wg.Add(1)
		go func() {
			defer wg.Done()
			for i := range idx {
				plan := PlanFromSeed(seed, i)
				plan.Name = fmt.Sprintf("hs-%d-%d", seed, i)
				s, err := RunHeaderSession(plan, cb.OnStep, cb.OnStoreErr)
				if cb.OnEnd != nil {
					cb.OnEnd(s, err)
				}
				if s != nil {
					s.Close()
					removeDir(s)
				}
			}
		}()
	}
	for i := 0; i < n; i++ {
		idx <- i
	}
	close(idx)
	wg.Wait()
}

// RunWraps runs n wrap sessions (see RunWrapSession) on a small worker pool.
func RunWraps(seed int64, n int, heavy bool, cb Callbacks) {
	var wg sync.WaitGroup
	sem := make(chan struct{}, 6)
	for i := 0; i < n; i++ {
		wg.Add(1)
		go func(i int) {
			defer wg.Done()
			sem <- struct{}{}
			defer func() { <-sem }()
			s, err := RunWrapSession(seed, i, heavy, cb.OnStep, cb.OnStoreErr)
			if cb.OnEnd != nil {
				cb.OnEnd(s, err)
			}
			if s != nil {
				s.Close()
				removeDir(s)
			}
		}(i)
	}
	wg.Wait()
}
