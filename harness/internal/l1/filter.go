package l1

import (
	"fmt"

	"github.com/btcsuite/btcd/chainhash/v2"
	"github.com/btcsuite/btcd/wire/v2"
	"github.com/lightninglabs/neutrino/chainsync"

	"verif/internal/chaingen"
	"verif/internal/netsim"
)

// FilterPlan parameterises one filter-header session.
type FilterPlan struct {
	SessionConfig
	ChainLen   int // honest trunk length (blocks with filters)
	Behaviours []PeerBehaviour
	Reorgs     int    // reorganisations injected between filter rounds
	ReorgAt    string // pause point at which one reorg is injected INSIDE a round ("" = none)
	// BoundaryFromGenesis: a boundary placement is armed also in the round
	// that starts from the genesis filter header.
	BoundaryFromGenesis bool `json:",omitempty"`
	FilterCPs           []int32
	FalseCP             bool // the injected filter checkpoint contradicts every peer
	Growth              int  // blocks the honest chain grows by between rounds
	// Legacy: after the initial header sync the hash->height index entries
	// are moved to the pre-sub-bucket location (an upgraded installation's
	// database; see Stores.LegacyIndex).
	Legacy bool
	// Family names the workload family of a plan that does not come from
	// FilterPlanFromSeed ("" = the original families); see multicp.go.
	Family string `json:",omitempty"`
	// BlockFault scripts failures of the block download (GetBlock) during the
	// session; the zero value = every download succeeds. See blockfail.go.
	BlockFault BlockFault `json:",omitzero"`
	// SnapOmit: every omit-script lie is moved, once the chain exists, to the
	// nearest height at or above the configured one (wrapping round) whose
	// block has an output script a filter can provably omit; the liars that
	// shared a height still share one.
	SnapOmit bool `json:",omitempty"`
	// PreLen > 0 (and < ChainLen) makes the session TWO-STAGED (see
	// catchup.go). Stage 1: the honest chain is PreLen blocks long; block
	// headers and then filter headers are synced to it by the usual rounds, so
	// the committed filter tip comes to rest at PreLen (any height, not just a
	// multiple of the checkpoint interval). Stage 2: the honest chain is
	// ChainLen blocks long (peers, lies, growth and reorganisations as in a
	// one-stage session); its block headers are synced and the filter rounds
	// continue from the stored filter tip. PreFork > 0: the stage-2 chain
	// forks that many blocks BELOW the stage-1 tip (the top PreFork committed
	// filter headers are rolled back first). Zero values = one-stage session.
	PreLen  int `json:",omitempty"`
	PreFork int `json:",omitempty"`
	// Family iofault (iofault.go): IOStart = length of the honest chain the
	// session begins with (synced before the first event); BlockCPs = hard-coded
	// BLOCK-header checkpoints (heights of the planned trunk); IOEvents = the
	// stages of the session; IOLazy = the filter headers are not synced before
	// the first event.
	IOStart  int       `json:",omitempty"`
	BlockCPs []int32   `json:",omitempty"`
	IOEvents []IOEvent `json:",omitempty"`
	IOLazy   bool      `json:",omitempty"`
}

// PeerBehaviour describes one scripted peer of a filter session.
type PeerBehaviour struct {
	Lies   []netsim.Lie
	Silent bool
	// LiarSeed, when non-zero, seeds this peer's falsified material instead
	// of plan seed + peer index: liars with the same lies and the same
	// LiarSeed serve byte-identical false values (a coalition).
	LiarSeed int64 `json:",omitempty"`
}

func (b PeerBehaviour) Honest() bool { return len(b.Lies) == 0 && !b.Silent }

// FilterSession drives the block manager's filter-header machinery the way
// cfHandler does, one call at a time.
type FilterSession struct {
	*Session
	Plan   FilterPlan
	Trunk  []*chaingen.Node
	Liars  map[string]*netsim.Liar // by peer address
	Behav  map[string]PeerBehaviour
	OnStep func(fs *FilterSession, st *StepObs)

	injDone chan struct{} // closed when an injected concurrent reorg finished
	// AtBoundary, when set, runs once per at-tip round at the boundary call
	// Plan.ReorgAt names ("store.read#k", "net.query#k").
	AtBoundary func()

	// Installed holds the hard-coded filter-header checkpoints installed for
	// this session (height -> value), nil if none.
	Installed map[uint32]chainhash.Hash
	// ResolveOffenders: the peers whose checkpoint list, as handed to the
	// most recent resolveConflict call, contradicted an installed hard-coded
	// checkpoint.
	ResolveOffenders map[string]CPOffence
	// Measured: lists handed to resolveConflict that contradicted a
	// hard-coded checkpoint / that did so while agreeing with the NEWEST
	// hard-coded checkpoint they cover.
	CPListsContradicting, CPListsOlderOnly int
	// Measured (see runFilterSession): per round, the number of scripted
	// failures of the block download (see blockfail.go).
	RoundBlockFails []int
	// gate, when set, replaces the immediate installation of the hard-coded
	// checkpoints (see RunMultiCPFilter).
	gate func(install func())

	// PanicKind / PanicText: step kind and text of the most recent panic of a
	// block-manager call made by step(). StepObs.Panic carries the same to the
	// OnStep callback, but a step after which the stores cannot be read back
	// never reaches OnStep (it ends the session through OnStoreErr): the
	// OnStoreErr callback reads the panic here.
	PanicKind, PanicText string
	// Measured: checkpointed rounds (cf.checkpointed steps) that committed
	// filter headers starting from a stored filter tip that is not a multiple
	// of the checkpoint interval (a partially stored first interval), and the
	// connected events seen in those steps.
	PartialCheckpointed, PartialCheckpointedEvents int
	// Stage1Tip: (two-stage sessions) the filter tip height stage 1 ended at;
	// Stage2Lag: how far the filter tip was behind the block tip when the
	// stage-2 filter rounds began.
	Stage1Tip, Stage2Lag int
	// Family iofault: what became of every armed fault; the most recent step.
	FaultLog []IOFaultRecord
	lastStep *StepObs
}

// TruncatedServed sums, over the session's liars, the cfheaders answers cut
// short (netsim.LieTruncate) and those cut to whole checkpoint intervals.
func (fs *FilterSession) TruncatedServed() (all, whole int) {
	for _, l := range fs.Liars {
		a, w := l.TruncatedBatches()
		all, whole = all+a, whole+w
	}
	return all, whole
}

// CPOffence describes how a served checkpoint list contradicted the installed
// hard-coded filter-header checkpoints.
type CPOffence struct {
	Lowest       uint32 // lowest contradicted hard-coded height
	NewestAgrees bool   // the list equals the newest hard-coded checkpoint it covers
	Lists        int    // number of lists handed to that resolveConflict call
}

// noteResolveInput compares the lists about to be handed to resolveConflict
// with the installed hard-coded checkpoints.
func (fs *FilterSession) noteResolveInput(lists map[string][]*chainhash.Hash) {
	fs.ResolveOffenders = nil
	if len(fs.Installed) == 0 {
		return
	}
	for addr, l := range lists {
		lowest, newest, newestOK := uint32(0), uint32(0), true
		for i, cp := range l {
			h := uint32(i+1) * wire.CFCheckptInterval
			want, ok := fs.Installed[h]
			if !ok {
				continue
			}
			bad := cp == nil || *cp != want
			if bad && lowest == 0 {
				lowest = h
			}
			if h > newest {
				newest, newestOK = h, !bad
			}
		}
		if lowest == 0 {
			continue
		}
		if fs.ResolveOffenders == nil {
			fs.ResolveOffenders = map[string]CPOffence{}
		}
		fs.ResolveOffenders[addr] = CPOffence{lowest, newestOK, len(lists)}
		fs.CPListsContradicting++
		if newestOK {
			fs.CPListsOlderOnly++
		}
	}
}

// syncHeaders feeds the path to tip to the client from peer 0 (the sync
// peer) in protocol-sized batches, re-organising if necessary.
func (fs *FilterSession) syncHeaders(tip *chaingen.Node, kind string) error {
	for {
		cur := fs.TipNode()
		if cur == nil {
			return fmt.Errorf("stored tip unknown to generator")
		}
		if cur == tip {
			return nil
		}
		fp := chaingen.ForkPoint(cur, tip)
		path := tip.Path()
		from := int(fp.Height) + 1
		to := from + wire.MaxBlockHeadersPerMsg
		if to > len(path) {
			to = len(path)
		}
		if from >= to {
			return nil // tip is an ancestor of the stored tip
		}
		pi := fs.senderIndex()
		st, err := fs.SendHeaders(kind, pi, path[from:to], nil)
		if err != nil {
			return err
		}
		if fs.OnStep != nil {
			fs.OnStep(fs, st)
		}
		if st.Crash != "" {
			// The client went down and was restarted (fault.go): its peers
			// connect again and the loop offers the chain again.
			if err := fs.Reconnect(); err != nil {
				return err
			}
		}
		if len(st.Post) == len(st.Pre) && commonPrefix(st.Pre, st.Post) == len(st.Pre) {
			return nil // refused (e.g. not heavier): stop trying
		}
	}
}

func (fs *FilterSession) senderIndex() int {
	sp := fs.BM.SyncPeer()
	for i, p := range fs.Peers {
		if p.SP == sp && !p.Disconnected() {
			return i
		}
	}
	for i, p := range fs.Peers {
		if !p.Disconnected() {
			return i
		}
	}
	return 0
}

// Reconnect connects, after a restart of the client (Session.Restart), a new
// peer for every peer that was connected when it went down; the new peer
// behaves as the old one did.
func (fs *FilterSession) Reconnect() error {
	for _, old := range append([]*SimPeer(nil), fs.Peers...) {
		if !old.gone {
			continue
		}
		old.gone = false
		old.superseded = true
		if fs.Net.IsBanned(old.Addr) {
			continue
		}
		p, err := fs.AddPeer(fs.View.Tip().Height, old.Services)
		if err != nil {
			return err
		}
		fs.Behav[p.Addr] = fs.Behav[old.Addr]
		if l := fs.Liars[old.Addr]; l != nil {
			fs.Liars[p.Addr] = l
			p.Rec.Mutate = l.Mutate
		}
		if fs.Behav[old.Addr].Silent {
			fs.Net.SetSilent(p.Addr, true)
		}
	}
	return nil
}

// step wraps one block-manager call as an observed step.
func (fs *FilterSession) step(kind, desc string, f func()) (*StepObs, error) {
	st, err := fs.beginStep(kind, desc, -1, nil, nil)
	if err != nil {
		return nil, &StoreErr{err}
	}
	fs.note("%s %s", kind, desc)
	st.Events, st.Panic = fs.runWithEvents(func() {
		f()
		// Join an injected concurrent header handler before the step ends.
		if fs.injDone != nil {
			<-fs.injDone
			fs.injDone = nil
		}
	})
	fs.Net.Wait()
	if err := fs.afterHandler(st); err != nil {
		return st, err
	}
	if st.Crash != "" {
		if err := fs.Reconnect(); err != nil {
			return st, err
		}
	}
	if st.Panic != "" {
		fs.PanicKind, fs.PanicText = kind, st.Panic
		fs.note("PANIC in %s: %s", kind, st.Panic)
	}
	if err := fs.endStep(st); err != nil {
		return st, &StoreErr{err}
	}
	if kind == "cf.checkpointed" && len(st.PostF) > len(st.PreF) && (len(st.PreF)-1)%wire.CFCheckptInterval != 0 {
		fs.PartialCheckpointed++
		fs.PartialCheckpointedEvents += len(st.Events)
	}
	if fs.OnStep != nil {
		fs.OnStep(fs, st)
	}
	return st, nil
}

// Round performs what one iteration of cfHandler does for the current store
// state: the checkpointed path when the filter headers lag the block headers
// by at least one checkpoint interval, otherwise the at-tip path.
func (fs *FilterSession) Round() (progress bool, err error) {
	bh, bt, e := fs.Stores.Block.ChainTip()
	if e != nil {
		return false, &StoreErr{e}
	}
	_, ft, e := fs.Stores.Filter.ChainTip()
	if e != nil {
		return false, &StoreErr{e}
	}
	if ft >= bt {
		return false, nil
	}
	if ft+wire.CFCheckptInterval <= bt {
		tipHash := bh.BlockHash()
		var cps map[string][]*chainhash.Hash
		if _, err := fs.step("cf.getcheckpts", fmt.Sprintf("tip=%d", bt), func() {
			cps = fs.BM.GetCheckpts(&tipHash)
		}); err != nil {
			return false, err
		}
		if len(cps) == 0 {
			return false, nil
		}
		// cfHandler caps the lists at the current block height.
		capped := map[string][]*chainhash.Hash{}
		for p, l := range cps {
			for i, cp := range l {
				if uint32(i+1)*wire.CFCheckptInterval > bt {
					break
				}
				capped[p] = append(capped[p], cp)
			}
		}
		fs.noteResolveInput(capped)
		var good []*chainhash.Hash
		if _, err := fs.step("cf.resolve", fmt.Sprintf("peers=%d", len(capped)), func() {
			good, _ = fs.BM.ResolveConflict(capped)
		}); err != nil {
			return false, err
		}
		if len(good) == 0 {
			return false, nil
		}
		st, err := fs.step("cf.checkpointed", fmt.Sprintf("checkpoints=%d from=%d", len(good), ft), func() {
			fs.BM.GetCheckpointedCFHeaders(good)
		})
		if err != nil {
			return false, err
		}
		return len(st.PostF) != len(st.PreF), nil
	}
	st, err := fs.step("cf.tip", fmt.Sprintf("filter=%d block=%d", ft, bt), func() {
		// Boundary placements (no hook in the client): a chain change lands
		// right after the k-th block-store read / the k-th all-peer query of
		// this at-tip round returned.
		// (In a round that starts from genesis only where the plan says so: a
		// chain change can only reach the filter tip once there is one, but a
		// change after the answers arrived can replace a disputed block.)
		if fs.AtBoundary != nil && (ft > 0 || fs.Plan.BoundaryFromGenesis) {
			var k int
			if _, err := fmt.Sscanf(fs.Plan.ReorgAt, "store.read#%d", &k); err == nil {
				fs.hooked.armAfterRead(k, fs.AtBoundary)
				defer fs.hooked.armAfterRead(0, nil)
			} else if _, err := fmt.Sscanf(fs.Plan.ReorgAt, "net.query#%d", &k); err == nil {
				fs.Net.ArmAfterQuery(k, fs.AtBoundary)
				defer fs.Net.ArmAfterQuery(0, nil)
			}
		}
		_ = fs.BM.GetUncheckpointedCFHeaders()
	})
	if err != nil {
		return false, err
	}
	return len(st.PostF) != len(st.PreF), nil
}

// InstallFilterCheckpoints installs hard-coded filter-header checkpoints for
// this session's private network magic. Must not run concurrently with other
// sessions' block managers validating checkpoints (process-global table):
// callers serialise filter sessions that use it.
func (fs *FilterSession) InstallFilterCheckpoints(tip *chaingen.Node) {
	if len(fs.Plan.FilterCPs) == 0 {
		if fs.gate != nil {
			fs.gate(func() {})
		}
		return
	}
	m := map[uint32]*chainhash.Hash{}
	for _, h := range fs.Plan.FilterCPs {
		n := tip.Ancestor(h)
		if n == nil {
			continue
		}
		fh := n.FilterHeader
		if fs.Plan.FalseCP {
			fh[0] ^= 0xff
		}
		m[uint32(h)] = &fh
	}
	fs.Installed = map[uint32]chainhash.Hash{}
	for h, v := range m {
		fs.Installed[h] = *v
	}
	if fs.gate != nil {
		fs.gate(func() { chainsync.VerifSetFilterCheckpoints(fs.G.P.Net, m) })
		return
	}
	chainsync.VerifSetFilterCheckpoints(fs.G.P.Net, m)
}

// UninstallFilterCheckpoints removes them again.
func (fs *FilterSession) UninstallFilterCheckpoints() {
	if len(fs.Plan.FilterCPs) > 0 && fs.gate == nil {
		chainsync.VerifSetFilterCheckpoints(fs.G.P.Net, nil)
	}
}
