package c15

// L2 family "co-subscribers": the broadcaster is not the only client of the
// ChainService's block-subscription manager. Other subscribers register
// through the public entry point (RescanChainSource.Subscribe) or are real
// rescans (neutrino.NewRescan); they read none / some / all of what they are
// sent and cancel at seeded moments. Afterwards new blocks arrive and the
// property's rebroadcast rules are judged as in the rebroadcast family.

import (
	"fmt"
	"math/rand"
	"os"
	"sort"
	"strings"
	"sync"
	"sync/atomic"
	"time"

	"github.com/btcsuite/btcd/address/v2"
	"github.com/btcsuite/btcd/btcutil/v2"
	"github.com/btcsuite/btcd/rpcclient"
	"github.com/btcsuite/btcd/wire/v2"
	"github.com/lightninglabs/neutrino"
	"github.com/lightninglabs/neutrino/blockntfns"
	"github.com/lightninglabs/neutrino/headerfs"

	"verif/internal/c17"
	"verif/internal/chaingen"
	"verif/internal/evid"
	"verif/internal/l2"
	"verif/internal/netsim"
)

// L2CoSubRule is the text the main program adds to the evidence.
const L2CoSubRule = "CO-SUBSCRIBER FAMILY of the L2 part (scenario 12 fixed, 13-15 and every k%4==3 from 16 on seeded): chain of 150-210 blocks, 2-4 peers; 1-3 " +
	"transactions are broadcast (accepted / already-in-mempool / rejected by everybody); then 1-3 OTHER clients of the same block-subscription " +
	"manager as the broadcaster register: RescanChainSource{svc}.Subscribe(tip-B) with B in {0,1,19..23,30,64,100+} whose consumer reads R of its " +
	"notifications and then stops reading (R = 0, a few, all, or keeps reading), or a real neutrino.NewRescan watching an address that starts " +
	"30-140 blocks behind the tip and whose filter fetches are held by the peers while a burst of blocks arrives. Each cancels (Subscription.Cancel / " +
	"the rescan's quit channel) at a seeded moment: idle before the chain moves, while the client commits a burst of 3-45 blocks (announced in " +
	"chunks), while it adopts a re-organisation of depth 1-4, idle after the chain moved, or never. Scenario 12: one subscriber 30 blocks behind " +
	"that never reads, cancels while idle, one accepted transaction pending, then 3 blocks. Scenario 13 (and k%16==7) is led by a held rescan. " +
	"ORACLE (the rules of the rebroadcast family): after the history the network is at rest for longer than BroadcastTimeout, then K (1-3, seeded) " +
	"blocks not containing the transactions are announced one after the other; once the client has reported j >= 1 of them as its best block and " +
	"reports no further one, every connected peer must have received a new inv for every transaction whose SendTransaction returned nil (progress is " +
	"counted in committed blocks; the wall clock only decides when to stop waiting: round start 10 s, completion 5 s + pending x BroadcastTimeout, " +
	"then the event log must stand still for 5 s, else inconclusive; j = 0 is inconclusive); a transaction whose SendTransaction returned an error " +
	"must not be announced after any later block. A violation carries, as supporting witness only, two goroutine dumps 2 s apart showing where the " +
	"subscription manager's handler goroutine is parked. The scenario never relies on Stop returning once a violation was found (the child exits)."

// coSubPlan is one other client of the block-subscription manager.
type coSubPlan struct {
	Kind   string `json:"kind"`              // "direct" = RescanChainSource.Subscribe; "rescan" = neutrino.NewRescan
	Behind int    `json:"blocks_behind_tip"` // direct: bestHeight = tip-Behind (0: bestHeight = tip, no backlog); rescan: StartBlock = tip-Behind
	Read   int    `json:"reads"`             // direct: notifications the consumer reads before it stops reading, -1 = keeps reading; rescan: 0 = its filter fetches are held from the burst on, -1 = never held
	Cancel string `json:"cancels"`           // "idle" | "burst" | "reorg" | "late" | "never"
}

// coPlan is the seeded history of one scenario of the family.
type coPlan struct {
	Fixed       bool        `json:"fixed"`
	ChainLen    int         `json:"chain_len"`
	Peers       int         `json:"peers"`
	SilentPeer  bool        `json:"one_peer_silent_for_tx"`
	TxBefore    []string    `json:"tx_before"` // "accepted" | "mempool" | "rejected"
	TxAfter     bool        `json:"tx_after_cancels"`
	Subs        []coSubPlan `json:"subscribers"`
	Burst       []int       `json:"burst_chunks"`       // sizes of the chunks the burst is announced in
	BurstCancel int         `json:"burst_cancel_chunk"` // "burst" cancels are issued right after this chunk was announced
	ReorgDepth  int         `json:"reorg_depth"`
	ReorgExtra  int         `json:"reorg_extra"`
	K           int         `json:"blocks_after_history"`
}

func (p coPlan) burstLen() int {
	n := 0
	for _, c := range p.Burst {
		n += c
	}
	return n
}

func coIsFamily(fam string) bool { return strings.HasPrefix(fam, "cosub") }

// coPlanFor derives the plan of scenario k (a pure function of seed and k).
func coPlanFor(seed int64, k int) coPlan {
	if k == 12 {
		// FIXED: a second subscriber with bestHeight = tip-30 never reads,
		// cancels while everything is idle; one accepted transaction is
		// pending; then three blocks.
		return coPlan{Fixed: true, ChainLen: 120, Peers: 3, TxBefore: []string{"accepted"},
			Subs: []coSubPlan{{Kind: "direct", Behind: 30, Read: 0, Cancel: "idle"}}, K: 3}
	}
	rng := rand.New(rand.NewSource(seed*7_000_003 + int64(k)*104_729 + 1515))
	p := coPlan{ChainLen: 150 + rng.Intn(61), Peers: 2 + rng.Intn(3), SilentPeer: rng.Intn(4) == 0, K: 1 + rng.Intn(3)}
	p.TxBefore = []string{"accepted"}
	for len(p.TxBefore) < 1+rng.Intn(3) {
		p.TxBefore = append(p.TxBefore, []string{"accepted", "mempool", "rejected"}[rng.Intn(3)])
	}
	rng.Shuffle(len(p.TxBefore), func(i, j int) { p.TxBefore[i], p.TxBefore[j] = p.TxBefore[j], p.TxBefore[i] })
	p.TxAfter = rng.Intn(3) == 0
	rescanLed := k == 13 || k%16 == 7
	high := []int{21, 21, 22, 23, 30, 64, 100 + rng.Intn(40)}
	anyU := []int{0, 1, 19, 20, 20, 21, 22, 40, 100 + rng.Intn(40)}
	reads := []int{0, 0, 0, 1, 5, 20, 25}
	n := 1 + rng.Intn(3)
	needBurst, needReorg, live := false, false, false
	for i := 0; i < n; i++ {
		var s coSubPlan
		switch {
		case i == 0 && rescanLed:
			s = coSubPlan{Kind: "rescan", Behind: 30 + rng.Intn(111), Read: 0, Cancel: "burst"}
		case i > 0 && rng.Intn(5) == 0:
			s = coSubPlan{Kind: "rescan", Behind: 30 + rng.Intn(111), Read: -rng.Intn(2),
				Cancel: []string{"idle", "burst", "late", "never"}[rng.Intn(4)]}
		default:
			s.Kind = "direct"
			u := anyU[rng.Intn(len(anyU))]
			moments := []string{"idle", "burst", "reorg", "late", "never"}
			if i == 0 {
				// The first subscriber always ends with more unread
				// notifications than its channel buffers, and always cancels.
				u = high[rng.Intn(len(high))]
				moments = []string{"idle", "idle", "burst", "reorg", "late"}
			}
			s.Cancel = moments[rng.Intn(len(moments))]
			switch rng.Intn(6) {
			case 0:
				// keeps reading: nothing stays unread
				s.Behind, s.Read = u, -1
				if i == 0 {
					s.Behind, s.Read = u, 0
				}
			case 1:
				// no backlog at registration: what stays unread are the
				// blocks that arrive later.
				if s.Cancel != "idle" {
					s.Behind, s.Read = 0, 0
					live = true
					break
				}
				fallthrough
			default:
				r := reads[rng.Intn(len(reads))]
				s.Behind, s.Read = u+r, r
			}
		}
		if s.Kind == "rescan" && s.Read == 0 && s.Cancel != "idle" {
			live = true
		}
		switch s.Cancel {
		case "burst":
			needBurst = true
		case "reorg":
			needReorg = true
		}
		p.Subs = append(p.Subs, s)
	}
	total := 0
	switch {
	case live:
		total = 24 + rng.Intn(22)
	case needBurst || rng.Intn(2) == 0:
		total = []int{3, 10, 25, 40}[rng.Intn(4)]
	}
	for total > 0 {
		c := 1 + rng.Intn(8)
		if c > total {
			c = total
		}
		p.Burst = append(p.Burst, c)
		total -= c
	}
	if len(p.Burst) > 0 {
		p.BurstCancel = rng.Intn(len(p.Burst))
		if rescanLed {
			p.BurstCancel = len(p.Burst) - 1
		}
	}
	if needReorg || rng.Intn(4) == 0 {
		p.ReorgDepth, p.ReorgExtra = 1+rng.Intn(4), 1+rng.Intn(2)
	}
	return p
}

// ---------------------------------------------------------------------------
// run-time state

type coSub struct {
	idx  int
	plan coSubPlan

	// direct
	sub      *blockntfns.Subscription
	got      atomic.Int64
	closed   atomic.Bool
	readDone chan struct{}

	// rescan
	quit    chan struct{}
	errc    <-chan error
	handled atomic.Int64
	base    int64 // blocks it handled while catching up to the tip

	sent      int // notifications the manager owes this subscriber for sure (registration backlog + chain events committed since, while idle)
	cancelled bool
	moment    string
	unread    int // lower bound of unread notifications when Cancel was called
}

// coHold lets the peers withhold their answers to getcfilters (a rescan's
// filter fetch) until released.
type coHold struct {
	mu    sync.Mutex
	on    bool
	held  int
	stash []coHeld
}

type coHeld struct {
	p    *netsim.Peer
	msgs []wire.Message
}

func (h *coHold) mutate(p *netsim.Peer, req wire.Message, honest []wire.Message) []wire.Message {
	if _, ok := req.(*wire.MsgGetCFilters); !ok {
		return honest
	}
	h.mu.Lock()
	defer h.mu.Unlock()
	if !h.on {
		return honest
	}
	h.held++
	h.stash = append(h.stash, coHeld{p, honest})
	return nil
}

func (h *coHold) set(on bool) {
	h.mu.Lock()
	h.on = on
	st := h.stash
	if !on {
		h.stash = nil
	}
	h.mu.Unlock()
	if !on {
		for _, x := range st {
			for _, m := range x.msgs {
				_ = x.p.Send(m)
			}
		}
	}
}

func coBucket(u int) string {
	switch {
	case u <= 0:
		return "0"
	case u <= 20:
		return "1-20"
	case u == 21:
		return "21"
	case u < 100:
		return "22-99"
	}
	return "100+"
}

// ---------------------------------------------------------------------------
// the scenario body

func (e *l2Env) coSubscribers(p coPlan) {
	res := e.res
	src := &neutrino.RescanChainSource{ChainService: e.w.Svc}
	res.Count("l2_cosub_scenarios", 1)
	// Whatever goes wrong here may leave Stop unable to return (C17's
	// subject): the scenario then ends without it, the child simply exits.
	defer func() {
		if len(res.Inconclusive) > 0 || len(res.Violations) > 0 {
			e.skipStop = true
		}
	}()

	// A. the transactions whose fate is judged.
	for _, kd := range p.TxBefore {
		if !e.coSend(p, kd) {
			return
		}
	}

	// B. the other clients of the subscription manager register.
	var subs []*coSub
	for i, sp := range p.Subs {
		s := &coSub{idx: i, plan: sp, readDone: make(chan struct{})}
		from := e.tip.Height - int32(sp.Behind)
		if from < 1 {
			from = 1
		}
		switch sp.Kind {
		case "direct":
			sub, err := src.Subscribe(uint32(from))
			if err != nil {
				res.Inconcl("Subscribe failed: " + err.Error())
				return
			}
			s.sub = sub
			s.sent = int(e.tip.Height - from)
			go func() {
				defer close(s.readDone)
				for n := 0; s.plan.Read < 0 || n < s.plan.Read; n++ {
					if _, ok := <-sub.Notifications; !ok {
						s.closed.Store(true)
						return
					}
					s.got.Add(1)
				}
			}()
			res.Count("l2_cosub_direct_subscribers", 1)
			res.Count("l2_cosub_backlog_at_registration", int64(s.sent))
		case "rescan":
			a, err := address.NewAddressWitnessPubKeyHash(address.Hash160(e.w.G.Keys()[0].Pub), e.w.G.P)
			if err != nil {
				res.Inconcl("address: " + err.Error())
				return
			}
			s.quit = make(chan struct{})
			start := e.tip.Ancestor(from)
			rs := neutrino.NewRescan(src, neutrino.QuitChan(s.quit),
				neutrino.StartBlock(&headerfs.BlockStamp{Height: start.Height, Hash: start.Hash}),
				neutrino.WatchAddrs(a),
				neutrino.NotificationHandlers(rpcclient.NotificationHandlers{
					OnFilteredBlockConnected:    func(int32, *wire.BlockHeader, []*btcutil.Tx) { s.handled.Add(1) },
					OnFilteredBlockDisconnected: func(int32, *wire.BlockHeader) {},
				}))
			s.errc = rs.Start()
			close(s.readDone)
			// It walks up to the tip (fetching the filters it needs) and only
			// then subscribes.
			want := int64(e.tip.Height - start.Height)
			if !l2.WaitFor(45*time.Second, func() bool { return s.handled.Load() >= want }) {
				res.Inconcl("rescan did not reach the tip within 45 s (C09's subject)")
				return
			}
			s.base = want
			res.Count("l2_cosub_rescans_started_behind_tip", 1)
			res.Count("l2_cosub_rescan_blocks_caught_up", want)
		}
		subs = append(subs, s)
	}
	e.rc.note("", "co-subscribers-registered", nil, "", fmt.Sprintf("%d", len(subs)))

	// C. consumers read what the plan lets them read.
	for _, s := range subs {
		if s.plan.Kind == "direct" && s.plan.Read >= 0 {
			if !l2WaitChan(s.readDone, 20*time.Second) {
				res.Inconcl("a subscriber did not receive its registration backlog within 20 s (C11's subject)")
				return
			}
		}
	}
	for _, s := range subs {
		if s.plan.Cancel == "idle" {
			e.coCancel(s, "idle", true)
		}
	}

	// D. a burst of blocks, announced in chunks.
	hold := e.hold
	for _, s := range subs {
		if s.plan.Kind == "rescan" && s.plan.Read == 0 && !s.cancelled {
			hold.set(true)
		}
	}
	for ci, c := range p.Burst {
		ext := e.w.G.Extend(e.tip, c, chaingen.PaceNormal)
		nt := ext[len(ext)-1]
		e.coAnnounce(nt, true)
		if ci == p.BurstCancel {
			time.Sleep(time.Duration(e.rng.Intn(30)) * time.Millisecond)
			for _, s := range subs {
				if s.plan.Cancel == "burst" && s.plan.Kind == "direct" {
					e.coCancel(s, "burst", false)
				}
			}
		}
		if !l2.WaitFor(45*time.Second, func() bool { return e.w.SyncedTo(nt) }) {
			res.Inconcl("the client did not follow a burst of blocks within 45 s (C04's subject)")
			hold.set(false)
			return
		}
		e.tip = nt
		for _, s := range subs {
			if !s.cancelled {
				s.sent += c
			}
		}
		res.Count("l2_cosub_burst_blocks", int64(c))
		if ci == p.BurstCancel {
			// A rescan is cancelled once the chunk is committed: its
			// notifications pile up behind the filter fetch the peers hold.
			for _, s := range subs {
				if s.plan.Cancel == "burst" && s.plan.Kind == "rescan" {
					e.coCancel(s, "burst", false)
				}
			}
		}
	}

	// E. a re-organisation.
	if p.ReorgDepth > 0 {
		d := p.ReorgDepth
		f := e.tip.Ancestor(e.tip.Height - int32(d))
		br := e.w.G.Extend(f, d+p.ReorgExtra, chaingen.PaceNormal)
		nt := br[len(br)-1]
		e.coAnnounce(nt, true)
		time.Sleep(time.Duration(e.rng.Intn(50)) * time.Millisecond)
		for _, s := range subs {
			if s.plan.Cancel == "reorg" {
				e.coCancel(s, "reorg", false)
			}
		}
		if !l2.WaitFor(45*time.Second, func() bool { return e.w.SyncedTo(nt) }) {
			res.Inconcl("the client did not adopt the re-organisation within 45 s (C04's subject)")
			hold.set(false)
			return
		}
		e.tip = nt
		for _, s := range subs {
			if !s.cancelled {
				s.sent += 2*d + p.ReorgExtra
			}
		}
		res.Count("l2_cosub_reorgs", 1)
	}

	// F. cancels after the chain moved, everything idle again.
	for _, s := range subs {
		if !s.cancelled && s.plan.Cancel != "never" {
			e.coCancel(s, "late", true)
		}
	}
	hold.set(false)
	for _, s := range subs {
		if s.plan.Kind == "rescan" && s.cancelled {
			select {
			case <-s.errc:
				res.Count("l2_cosub_rescans_exited", 1)
			case <-time.After(60 * time.Second):
				res.Inconcl("a rescan did not exit within 60 s of its quit channel being closed (C09's subject)")
			}
		}
	}
	var shapes []string
	for _, s := range subs {
		sh := fmt.Sprintf("%s:%s:unread=%s", s.plan.Kind, map[bool]string{true: s.moment, false: "never"}[s.cancelled], coBucket(s.unread))
		shapes = append(shapes, sh)
		res.Mark("l2/cosub/sub/" + sh)
		if s.cancelled {
			res.Count("l2_cosub_cancels_"+s.moment, 1)
			res.Count("l2_cosub_cancel_unread_"+coBucket(s.unread), 1)
			if s.unread >= 21 {
				res.Count("l2_cosub_cancel_with_21plus_unread", 1)
			}
		} else {
			res.Count("l2_cosub_never_cancelled", 1)
		}
	}
	sort.Strings(shapes)
	res.Fingerprint = fmt.Sprintf("l2/%s/%s/K=%d/burst=%s/reorg=%v", e.fam, strings.Join(shapes, "+"), p.K, coBucket(p.burstLen()), p.ReorgDepth > 0)

	if e.k <= 15 || e.k%37 == 0 {
		res.Sample = map[string]any{"l2_scenario": e.k, "family": e.fam, "plan": p, "subscribers_as_run": shapes}
	}

	// G. a transaction broadcast after the cancels.
	if p.TxAfter && !e.coSend(p, "accepted") {
		return
	}

	// H. judgement: K further blocks.
	e.coJudge(p, subs, shapes)
}

func (e *l2Env) coSend(p coPlan, kd string) bool {
	var s map[string]L2Reaction
	switch kd {
	case "accepted":
		s = map[string]L2Reaction{}
		for i, pa := range e.peers {
			s[pa] = L2Reaction{Kind: l2Accept}
			if p.SilentPeer && i == len(e.peers)-1 {
				s[pa] = L2Reaction{Kind: l2Silent}
			}
		}
	case "mempool":
		s = e.scriptMempool()
	default:
		s = e.scriptRejected()
	}
	c := e.newCall(s, "cosub-"+kd, "alone")
	e.rc.run(c)
	return e.awaitCalls(c)
}

// coAnnounce moves every peer to nt and lets every peer announce it (by inv
// when several blocks or another branch have to be fetched).
func (e *l2Env) coAnnounce(nt *chaingen.Node, byInv bool) int64 {
	for _, pr := range e.w.Peers {
		pr.View.SetTip(nt)
	}
	ev := e.rc.note("", "block-announce", nil, "", fmt.Sprintf("height %d", nt.Height))
	for _, pr := range e.w.Peers {
		if byInv {
			pr.AnnounceInv(nt)
		} else {
			pr.AnnounceHeaders(nt)
		}
	}
	e.res.Count("l2_blocks_announced", 1)
	return ev.Seq
}

// coCancel cancels one co-subscriber. steady: everything is idle, so wait
// until the subscriber's channel holds what it can hold (the state in which
// the manager's relay is parked handing over the next notification).
func (e *l2Env) coCancel(s *coSub, moment string, steady bool) {
	if s.cancelled {
		return
	}
	s.cancelled, s.moment = true, moment
	if s.plan.Kind == "direct" {
		read := int(s.got.Load())
		s.unread = s.sent - read
		if s.plan.Read < 0 {
			s.unread = 0
		}
		if steady && s.plan.Read >= 0 {
			want := s.unread
			if want > cap(s.sub.Notifications) {
				want = cap(s.sub.Notifications)
			}
			l2.WaitFor(5*time.Second, func() bool { return len(s.sub.Notifications) >= want })
			time.Sleep(40 * time.Millisecond)
		}
		e.res.Count("l2_cosub_buffered_in_channel_at_cancel", int64(len(s.sub.Notifications)))
	} else {
		s.unread = 0
		if s.plan.Read == 0 && moment != "idle" {
			// Blocks committed since it became current that it has not
			// handled (its fetch for the first of them is held).
			s.unread = s.sent - int(s.handled.Load()-s.base)
		}
	}
	e.rc.note("", "co-subscriber-cancel", nil, "", fmt.Sprintf("#%d %s %s unread>=%d", s.idx, s.plan.Kind, moment, s.unread))
	done := make(chan struct{})
	go func() {
		if s.plan.Kind == "direct" {
			s.sub.Cancel()
		} else {
			close(s.quit)
		}
		close(done)
	}()
	if !l2WaitChan(done, 20*time.Second) {
		e.res.Inconcl("Cancel of a block subscription did not return within 20 s (C11's subject)")
	}
}

func (e *l2Env) coJudge(p coPlan, subs []*coSub, shapes []string) {
	res := e.res
	var acc, rej []*l2Call
	for _, c := range e.calls {
		select {
		case <-c.done:
		default:
			continue
		}
		if c.Err == nil {
			acc = append(acc, c)
		} else {
			rej = append(rej, c)
		}
	}
	// The network has to be at rest for longer than BroadcastTimeout, and
	// NOTHING may be logged between the start of that window and the first
	// announcement: then no rebroadcast round (started by an earlier block or
	// by an interval tick) is running when the block event arrives, because a
	// running round writes to some peer at least every BroadcastTimeout.
	var n0 int64
	rest := false
	for i := 0; i < 8 && !rest; i++ {
		n0 = e.w.Log.Len()
		rest = e.idleFor(e.bto + time.Second)
	}
	if !rest {
		res.Inconcl("network never at rest before the next block")
		return
	}
	next := func(watchdog time.Duration) (int64, bool) {
		ext := e.w.G.Extend(e.tip, 1, 0)
		nt := ext[0]
		seq := e.coAnnounce(nt, e.rng.Intn(2) == 0)
		e.tip = nt
		return seq, l2.WaitFor(watchdog, func() bool { return e.w.SyncedTo(nt) })
	}
	res.Count("l2_cosub_blocks_after_history", int64(p.K))
	first, ok := next(45 * time.Second)
	if !ok {
		res.Inconcl("the client did not report the block announced after the co-subscriber history within 45 s (C04's subject)")
		return
	}
	committed := 1
	atRest := first == n0+1
	started := func() bool {
		for _, c := range acc {
			if len(e.invSeen(c.Hash, first)) > 0 {
				return true
			}
		}
		return false
	}
	// Progress is counted in blocks: the remaining K-1 blocks are further
	// block events. While no round has started they are given a short
	// watchdog each (a client that stopped reporting blocks is C04's
	// subject; the verdict below then rests on the blocks it did report).
	begun := l2.WaitFor(10*time.Second, started)
	for i := 1; i < p.K; i++ {
		wd := 45 * time.Second
		if !begun {
			wd = 10 * time.Second
		}
		if _, ok := next(wd); !ok {
			break
		}
		committed++
	}
	res.Count("l2_cosub_blocks_after_history_committed", int64(committed))
	if committed < p.K && begun {
		res.Inconcl("the client stopped following the chain after the co-subscriber history (C04's subject)")
	}
	res.Count("l2_cosub_rebroadcast_judged", 1)
	if !begun {
		e.startWait = 2 * time.Second
	}
	missed, conclusive := e.awaitRebroadcast(first, acc)
	if len(missed) > 0 && os.Getenv("VERIF_L2_DUMP") != "" {
		for _, l := range e.w.Log.Tail(120) {
			fmt.Fprintln(os.Stderr, l)
		}
	}
	if len(missed) > 0 && conclusive && !atRest {
		res.Inconcl("rebroadcast missed, but the network was not provably at rest when the block was announced")
		conclusive = false
	}
	if len(missed) > 0 && conclusive {
		sup := coHandlerWitness()
		worst := ""
		for _, s := range subs {
			if s.cancelled && (worst == "" || s.unread >= 21) {
				worst = fmt.Sprintf("%s-cancelled-%s-%s", s.plan.Kind, s.moment,
					map[bool]string{true: "more-unread-than-buffered", false: "unread-fits-buffer"}[s.unread >= 21])
			}
		}
		if worst == "" {
			worst = "no-cancel"
		}
		for _, c := range missed {
			how := "mempool-duplicate"
			if v := e.viewOf(c); v != nil && len(v.Rejected) == 0 {
				how = "accepted"
			}
			miss := e.missingPeers(c, first)
			res.Violate(evid.Sig("c15/l2/no-rebroadcast-after-block", how, "other-subscribers", worst),
				fmt.Sprintf("SendTransaction(%s) returned nil; other clients of the block-subscription manager registered and cancelled (%s); then, with the network at rest "+
					"for longer than BroadcastTimeout, %d block(s) not containing the transaction were announced by every peer one after the other and the client reported %d of them "+
					"as its best block, but %d of %d connected peers received no new inv for it, and the network then stood still for 5 s",
					c.Hash.String()[:12], strings.Join(shapes, ", "), p.K, committed, len(miss), len(e.peers)),
				e.witness(c, map[string]any{"plan": p, "peers_without_inv": miss, "first_announce_seq": first,
					"blocks_committed_after_history": committed, "elapsed_s_at_verdict": e.w.Log.Elapsed().Seconds(),
					"supporting_goroutine_dumps": sup, "event_log_tail": e.w.Log.Tail(40)}))
		}
		return
	}
	if len(missed) > 0 {
		return
	}
	e.settle()
	e.rejectedNeverAgain(rej)
}

// coHandlerWitness takes two goroutine dumps 2 s apart and reports where the
// subscription manager's handler goroutine (and whoever waits for it) is
// parked. Supporting witness only; no verdict depends on it.
func coHandlerWitness() map[string]any {
	a := c17.ParseDump(c17.DumpAll())
	time.Sleep(2 * time.Second)
	b := c17.ParseDump(c17.DumpAll())
	out := map[string]any{}
	for id, g := range a {
		if !g.Has("SubscriptionManager).subscriptionHandler") {
			continue
		}
		gb := b[id]
		out["subscription_handler"] = map[string]any{
			"state": g.State, "frames": g.Top(8),
			"same_state_and_frames_2s_later": gb != nil && gb.Key() == g.Key(),
		}
	}
	out["goroutines_parked_in_onBlockConnected"] = c17.CountWhere(a, "onBlockConnected")
	out["client_goroutines"] = c17.CensusList(b)
	return out
}
