package c15

// L2 part of C15 — the reply-sequence family: a peer's answer to the client's
// inv is a scripted SEQUENCE of messages (repeated, reordered, duplicated),
// not one reaction. What is judged is the statement's verdict rule with ONE
// vote per peer, and the rebroadcast of what was accepted.

import (
	"fmt"
	"time"

	"github.com/btcsuite/btcd/chainhash/v2"
	"github.com/btcsuite/btcd/wire/v2"

	"verif/internal/evid"
	"verif/internal/netsim"
)

// L2SeqFixedK is the fixed scenario of the family; L2SeqFixedK+1 is its first
// seeded scenario (both are part of the quick tier).
const L2SeqFixedK = 17

// L2SeqRule is the text the main program adds to the evidence.
const L2SeqRule = "L2 REPLY-SEQUENCE FAMILY (scenario 17 fixed, 18 and every k > 18 with k mod 8 = 1 seeded; 2-6 peers, 5 in the fixed one): a peer's answer to the " +
	"client's inv is a scripted SEQUENCE of messages: request, then the same reject 2-5 times after the transaction arrived (gaps 0-15 ms); request 2-3 times, then repeated " +
	"rejects; rejects naming another hash mixed between the rejects of the announced one; request, reject, request again, reject again; request, reject with one meaning, " +
	"then rejects with another meaning (a peer that changes its mind); one or two rejects FIRST and then the request; 2-4 rejects without any request; accepting peers that " +
	"request once / several times / send rejects naming another hash before or after requesting. Codes: invalid classes, insufficient fee, already-in-mempool / already-have, " +
	"already-known / already-exists, unknown. Fixed scenario 17, ten calls: (1) two peers request and accept silently, one requests and then sends the same invalid-class " +
	"reject three times, two stay silent (3 replying peers, one of them says invalid); (2) four accept, one rejects 3 times (1/5); (3) 1/5 with other-hash rejects mixed in and " +
	"duplicate requests; (4) 3 of 5 peers say invalid, two of them repeatedly (share exactly at the threshold); (5) 4 of 5; (6) repeated fee / mempool / known rejects only; " +
	"(7) everybody rejects repeatedly for different reasons; (8) reject first, then request; (9) peers that change their mind; (10) everybody says already-in-mempool " +
	"repeatedly; then one block not containing any of them. Seeded scenarios: 5-7 calls, per call m of the peers reply (the others silent), i of them say invalid with i " +
	"drawn below / at / above the smallest i with i/m >= threshold, at least one of them by repeated rejects after its request; the others accept or reject repeatedly for " +
	"non-invalid reasons; then one block. ORACLE: the general per-call oracle above with ONE VOTE PER PEER: a peer is in R once (its first reject written in time), in Inv " +
	"if that first reject means invalid, however many rejects it wrote; a failure that is allowed only when a peer's LATER reject is taken as its vote (the peer changed " +
	"its mind) is counted, not judged; an allowed error's code must be one some peer of R sent. After the block every transaction whose call returned nil must be announced " +
	"again to every connected peer, every failed one never (rules and bounds of the rebroadcast family)."

// runSteps writes the messages of one phase of a scripted sequence, in order,
// each after its gap (on a goroutine the scenario waits for when there is any
// gap).
func (rc *l2Rec) runSteps(p *netsim.Peer, h chainhash.Hash, invType wire.InvType, steps []L2Step) {
	if len(steps) == 0 {
		return
	}
	do := func() {
		for _, st := range steps {
			if st.GapMs > 0 {
				time.Sleep(time.Duration(st.GapMs) * time.Millisecond)
			}
			switch st.Do {
			case "getdata":
				gd := wire.NewMsgGetData()
				_ = gd.AddInvVect(wire.NewInvVect(invType, &h))
				rc.send(p, gd, "tx-getdata", &h, "")
			case "reject":
				rc.send(p, l2RejectMsg(h, l2ClassByName(st.Class)), "tx-reject", &h, st.Class)
			case "reject-other":
				other := h
				other[0] ^= 0xff
				other[31] ^= 0x55
				rc.send(p, l2RejectMsg(other, l2ClassByName(st.Class)), "tx-reject-otherhash", &h, st.Class)
			}
		}
	}
	for _, st := range steps {
		if st.GapMs > 0 {
			rc.later(0, do)
			return
		}
	}
	do()
}

// ---------------------------------------------------------------------------
// sequence templates

// Rejecting templates: what a peer that rejects with class cl sends. gap() is
// the pause between two messages of a sequence.
var l2SeqRejectTmpls = []string{"req-rejN", "dupreq-rejN", "req-rejN-otherhash-mixed", "req-rej-req-rej", "req-rej-then-other-meaning",
	"rej-then-req", "noreq-rejN", "req-rej1"}

// templates in which the rejects FOLLOW the peer's request and are repeated.
var l2SeqRepeatedAfterReq = []string{"req-rejN", "dupreq-rejN", "req-rejN-otherhash-mixed", "req-rej-req-rej"}

var l2SeqAcceptTmpls = []string{"req", "dupreq", "req-otherhashN", "otherhash-then-req"}

func l2Rep(st L2Step, n int, gap func() int) []L2Step {
	out := make([]L2Step, n)
	for i := range out {
		out[i] = st
		if i > 0 {
			out[i].GapMs = gap()
		}
	}
	return out
}

// l2SeqReject builds the rejecting sequence tmpl for class cl, n rejects
// where the template repeats them; alt is the class of the later rejects of
// "req-rej-then-other-meaning".
func l2SeqReject(tmpl, cl, alt string, n int, gap func() int) L2Reaction {
	get := L2Step{Do: "getdata"}
	rej := L2Step{Do: "reject", Class: cl}
	r := L2Reaction{Kind: l2Seq, Tmpl: tmpl}
	switch tmpl {
	case "req-rejN":
		r.OnInv = []L2Step{get}
		r.OnTx = l2Rep(rej, n, gap)
	case "dupreq-rejN":
		r.OnInv = l2Rep(get, 2+n%2, gap)
		r.OnTx = l2Rep(rej, n, gap)
	case "req-rejN-otherhash-mixed":
		r.OnInv = []L2Step{get}
		for i := 0; i < n; i++ {
			r.OnTx = append(r.OnTx, L2Step{Do: "reject-other", Class: cl, GapMs: gap()}, L2Step{Do: "reject", Class: cl, GapMs: gap()})
		}
	case "req-rej-req-rej":
		r.OnInv = []L2Step{get}
		r.OnTx = []L2Step{rej, {Do: "getdata", GapMs: gap()}, {Do: "reject", Class: cl, GapMs: gap()}}
		for i := 2; i < n; i++ {
			r.OnTx = append(r.OnTx, L2Step{Do: "reject", Class: cl, GapMs: gap()})
		}
	case "req-rej-then-other-meaning":
		// The client hands the messages of a peer to the query on a goroutine
		// each, so two messages written back to back may be looked at in either
		// order: the change of mind follows after a pause.
		r.OnInv = []L2Step{get}
		r.OnTx = []L2Step{rej, {Do: "reject", Class: alt, GapMs: 25 + gap()}}
		for i := 2; i < n; i++ {
			r.OnTx = append(r.OnTx, L2Step{Do: "reject", Class: alt, GapMs: gap()})
		}
	case "rej-then-req":
		r.OnInv = l2Rep(rej, 1+n%2, gap)
		r.OnInv = append(r.OnInv, L2Step{Do: "getdata", GapMs: 10 + gap()})
		r.OnTx = []L2Step{rej}
	case "noreq-rejN":
		r.OnInv = l2Rep(rej, n, gap)
	default: // "req-rej1": the control, one reject after the request
		r.Tmpl = "req-rej1"
		r.OnInv = []L2Step{get}
		r.OnTx = []L2Step{rej}
	}
	return r
}

func l2SeqAccept(tmpl string, n int, gap func() int) L2Reaction {
	get := L2Step{Do: "getdata"}
	r := L2Reaction{Kind: l2Seq, Tmpl: "acc-" + tmpl}
	switch tmpl {
	case "dupreq":
		r.OnInv = l2Rep(get, 2+n%2, gap)
	case "req-otherhashN":
		r.OnInv = []L2Step{get}
		r.OnTx = l2Rep(L2Step{Do: "reject-other", Class: "invalid"}, n, gap)
	case "otherhash-then-req":
		r.OnInv = []L2Step{{Do: "reject-other", Class: "invalid"}, {Do: "getdata", GapMs: 10 + gap()}}
		r.OnTx = []L2Step{{Do: "reject-other", Class: "nonstandard"}}
	default:
		r.Tmpl = "acc-req"
		r.OnInv = []L2Step{get}
	}
	return r
}

// ---------------------------------------------------------------------------
// scenarios

func (e *l2Env) seqDo(rs []L2Reaction, profile string) bool {
	s := map[string]L2Reaction{}
	for i, p := range e.peers {
		s[p] = rs[i%len(rs)]
	}
	c := e.newCall(s, profile, "alone")
	e.rc.run(c)
	return e.awaitCalls(c)
}

// replySeqFixed: scenario L2SeqFixedK, five peers, ten fixed calls (see
// L2SeqRule), then one block. Nothing is hard-coded: the general oracle judges
// every call and the rebroadcast rule every transaction.
func (e *l2Env) replySeqFixed() {
	noGap := func() int { return 0 }
	small := func() int { return 3 }
	A := L2Reaction{Kind: l2Accept}
	S := L2Reaction{Kind: l2Silent}
	rejN := func(cl string, n int) L2Reaction { return l2SeqReject("req-rejN", cl, "", n, noGap) }
	shapes := []struct {
		name string
		rs   []L2Reaction
	}{
		// 3 replying peers: two request and accept silently, one requests and
		// then sends the same invalid-class reject three times.
		{"seq-fixed-1of3-rejects-3x", []L2Reaction{A, A, rejN("invalid", 3), S, S}},
		{"seq-fixed-1of5-rejects-3x", []L2Reaction{A, A, A, A, rejN("nonstandard", 3)}},
		{"seq-fixed-1of5-mixed-otherhash", []L2Reaction{A, l2SeqAccept("dupreq", 1, small),
			l2SeqReject("req-rejN-otherhash-mixed", "dup-conflict", "", 3, small), l2SeqAccept("req-otherhashN", 3, small), A}},
		{"seq-fixed-3of5-at-threshold", []L2Reaction{rejN("invalid", 3), rejN("dup-spent", 2), l2SeqReject("req-rej1", "nonstandard", "", 1, noGap), A, A}},
		{"seq-fixed-4of5-above-threshold", []L2Reaction{rejN("invalid", 2), l2SeqReject("dupreq-rejN", "invalid", "", 2, small),
			l2SeqReject("noreq-rejN", "nonstandard", "", 3, small), l2SeqReject("req-rej-req-rej", "dup-conflict", "", 3, small), A}},
		{"seq-fixed-non-invalid-repeated", []L2Reaction{A, A, rejN("fee", 3), rejN("dup-in-mempool", 3), rejN("dup-known", 2)}},
		{"seq-fixed-everybody-rejects-repeatedly", []L2Reaction{rejN("fee", 2), rejN("invalid", 3), l2SeqReject("noreq-rejN", "dup-have", "", 2, small),
			l2SeqReject("dupreq-rejN", "fee", "", 2, small), l2SeqReject("rej-then-req", "obsolete", "", 1, small)}},
		{"seq-fixed-reject-then-request", []L2Reaction{A, A, l2SeqReject("rej-then-req", "invalid", "", 1, small), A,
			l2SeqReject("rej-then-req", "nonstandard", "", 2, small)}},
		{"seq-fixed-change-of-mind", []L2Reaction{A, A, A, l2SeqReject("req-rej-then-other-meaning", "dup-in-mempool", "invalid", 3, small),
			l2SeqReject("req-rej-then-other-meaning", "invalid", "fee", 3, small)}},
		{"seq-fixed-everybody-mempool-repeatedly", []L2Reaction{rejN("dup-in-mempool", 3), rejN("dup-have", 2),
			l2SeqReject("dupreq-rejN", "dup-in-mempool", "", 2, small), rejN("dup-have", 3), l2SeqReject("noreq-rejN", "dup-in-mempool", "", 2, small)}},
	}
	for _, sh := range shapes {
		if !e.seqDo(sh.rs, sh.name) {
			return
		}
	}
	e.blockRound()
}

// replySeq: the seeded scenarios of the family.
func (e *l2Env) replySeq() {
	rng := e.rng
	np := len(e.peers)
	gap := func() int { return rng.Intn(16) }
	n := 5 + rng.Intn(3)
	for k := 0; k < n; k++ {
		m := np
		if np >= 3 && rng.Intn(3) == 0 {
			m = 2 + rng.Intn(np-1)
		}
		base := (m*6 + 9) / 10 // smallest i with i/m >= 0.6
		mode := []string{"below", "below", "at", "above"}[rng.Intn(4)]
		if k == 0 {
			mode = "below"
		}
		i := base
		switch mode {
		case "below":
			i = 1
			if base > 2 {
				i = 1 + rng.Intn(base-1)
			}
		case "above":
			if i < m {
				i++
			}
		}
		rs := make([]L2Reaction, np)
		for j := 0; j < np; j++ {
			nrej := 2 + rng.Intn(4)
			switch {
			case j == 0:
				// at least one peer says invalid repeatedly after its request
				rs[j] = l2SeqReject(l2Pick(rng, l2SeqRepeatedAfterReq), l2Pick(rng, l2InvalidClasses), "", nrej, gap)
			case j < i:
				rs[j] = l2SeqReject(l2Pick(rng, l2SeqRejectTmpls), l2Pick(rng, l2InvalidClasses), l2Pick(rng, l2OtherClasses), nrej, gap)
			case j == m-1 && mode == "below":
				// somebody accepts: "every replying peer rejected" must not hold
				rs[j] = l2SeqAccept(l2Pick(rng, l2SeqAcceptTmpls), nrej, gap)
			case j < m && rng.Intn(3) == 0:
				// a reject that does not mean invalid, possibly followed by
				// rejects that do (a peer that changes its mind)
				rs[j] = l2SeqReject(l2Pick(rng, l2SeqRejectTmpls), l2Pick(rng, l2OtherClasses), l2Pick(rng, l2InvalidClasses), nrej, gap)
			case j < m && rng.Intn(3) == 0:
				rs[j] = L2Reaction{Kind: l2Accept}
			case j < m:
				rs[j] = l2SeqAccept(l2Pick(rng, l2SeqAcceptTmpls), nrej, gap)
			default:
				rs[j] = L2Reaction{Kind: l2Silent}
			}
		}
		rng.Shuffle(np, func(a, b int) { rs[a], rs[b] = rs[b], rs[a] })
		if !e.seqDo(rs, "seq-"+mode) {
			return
		}
	}
	e.blockRound()
}

// blockRound: one block that contains none of the harness's transactions,
// announced by every peer while the network is at rest; what was accepted
// must be announced again to every peer (a miss is a violation only after a
// second block, as in the rebroadcast family), what failed never.
func (e *l2Env) blockRound() {
	var acc, rej []*l2Call
	for _, c := range e.calls {
		select {
		case <-c.done:
		default:
			continue
		}
		if c.Err == nil {
			acc = append(acc, c)
		} else {
			rej = append(rej, c)
		}
	}
	if !e.settle() {
		e.res.Inconcl("network never at rest before the next block")
		return
	}
	seq, ok := e.announce()
	if !ok {
		return
	}
	missed, conclusive := e.awaitRebroadcast(seq, acc)
	for _, c := range acc {
		if v := e.viewOf(c); v != nil && len(v.Repeated) > 0 && len(e.invSeen(c.Hash, seq)) == len(e.peers) {
			e.res.Count("l2_rebroadcast_seen_of_tx_a_peer_rejected_repeatedly", 1)
		}
	}
	if len(missed) > 0 && conclusive {
		e.res.Count("l2_rebroadcast_second_trigger", 1)
		seq2, ok := e.announce()
		if !ok {
			return
		}
		missed2, conclusive2 := e.awaitRebroadcast(seq2, missed)
		for _, c := range missed2 {
			if !conclusive2 {
				break
			}
			how := "accepted"
			if v := e.viewOf(c); v != nil && len(v.Rejected) > 0 {
				how = "accepted-with-rejects:" + v.Shape
			}
			miss := e.missingPeers(c, seq2)
			e.res.Violate(evid.Sig("c15/l2/no-rebroadcast-after-block", how),
				fmt.Sprintf("SendTransaction(%s) returned nil; two consecutive blocks not containing it were announced by every peer and reported by the client as best block "+
					"while the network was at rest, but %d of %d connected peers received no new inv for it after either, and the network then stood still for 5 s",
					c.Hash.String()[:12], len(miss), len(e.peers)),
				e.witness(c, map[string]any{"peers_without_inv": miss, "announce_seqs": []int64{seq, seq2}}))
		}
	}
	e.settle()
	e.rejectedNeverAgain(rej)
}
