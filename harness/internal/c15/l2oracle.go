package c15

// L2 part of C15 — the oracle.
//
// Everything here is decided from the recorded history of one scenario: what
// each simulated peer RECEIVED from the client and SENT to it, in the order of
// one monotonic sequence (the netsim event log), plus the points at which a
// SendTransaction call was issued and returned. Time stamps are only used to
// classify a reject as "clearly inside" or "clearly outside" the client's
// reject window; everything in between makes the call inconclusive.

import (
	"fmt"
	"sort"
	"strings"
	"time"

	"github.com/btcsuite/btcd/wire/v2"
	"github.com/lightninglabs/neutrino/pushtx"
)

// l2Class is one class of reject answers a real node gives to a transaction
// (bitcoind and btcd wording), with the meaning pushtx/error.go documents for
// it. Want is the oracle's own table, not derived from the code under test.
type l2Class struct {
	Name   string
	Code   wire.RejectCode
	Reason string
	Want   pushtx.BroadcastErrorCode
}

var l2Classes = []l2Class{
	{"invalid", wire.RejectInvalid, "bad-txns-inputs-missingorspent", pushtx.Invalid},
	{"nonstandard", wire.RejectNonstandard, "non-mandatory-script-verify-flag (Witness program hash mismatch)", pushtx.Invalid},
	{"fee", wire.RejectInsufficientFee, "min relay fee not met, 110 < 141", pushtx.InsufficientFee},
	{"dup-in-mempool", wire.RejectDuplicate, "txn-already-in-mempool", pushtx.Mempool},
	{"dup-known", wire.RejectDuplicate, "txn-already-known", pushtx.Confirmed},
	{"dup-conflict", wire.RejectDuplicate, "txn-mempool-conflict", pushtx.Invalid},
	{"dup-spent", wire.RejectDuplicate, "output 6f5e...:1 already spent by transaction 9a1c... in the memory pool", pushtx.Invalid},
	{"dup-have", wire.RejectDuplicate, "already have transaction 77ab...", pushtx.Mempool},
	{"dup-exists", wire.RejectDuplicate, "transaction already exists", pushtx.Confirmed},
	{"dup-other", wire.RejectDuplicate, "duplicate of something else entirely", pushtx.Unknown},
	{"obsolete", wire.RejectObsolete, "obsolete version", pushtx.Unknown},
	{"malformed", wire.RejectMalformed, "error parsing message", pushtx.Unknown},
	{"checkpoint", wire.RejectCheckpoint, "checkpoint mismatch", pushtx.Unknown},
}

func l2ClassByName(n string) l2Class {
	for _, c := range l2Classes {
		if c.Name == n {
			return c
		}
	}
	panic("unknown reject class " + n)
}

// Reaction kinds of a peer to the client's inv for one transaction.
const (
	l2Accept      = "accept"           // getdata; silent after tx
	l2Reject      = "reject"           // getdata; reject right after tx
	l2NoReqReject = "noreq-reject"     // reject right after the inv, never requests
	l2Silent      = "silent"           // never reacts
	l2Twice       = "twice"            // getdata twice; silent after tx
	l2TwiceReject = "twice-reject"     // getdata twice; reject after the first tx
	l2LateReject  = "late-reject"      // getdata; reject >= 4 x reject window after tx
	l2OtherHash   = "otherhash-reject" // getdata; reject naming a DIFFERENT hash right after tx
	l2Disconnect  = "disconnect"       // closes the connection on the inv
	// A reject naming ANOTHER transaction right after the inv (an answer to
	// something else, e.g. to an earlier broadcast), DelayMs later getdata for
	// the announced transaction; then silent / reject after the tx.
	l2ForeignAccept = "foreignfirst-accept"
	l2ForeignReject = "foreignfirst-reject"
	// A scripted SEQUENCE of replies (reply-sequence family, l2seq.go): the
	// steps of OnInv are sent when the inv arrives, the steps of OnTx when the
	// transaction arrives for the first time after that inv.
	l2Seq = "seq"
)

// L2Step is one message of a scripted reply sequence.
type L2Step struct {
	// Do: "getdata" (request the announced transaction), "reject" (reject
	// naming the announced transaction, class Class), "reject-other" (reject
	// naming a hash no transaction has, class Class).
	Do    string `json:"do"`
	Class string `json:"class,omitempty"`
	// GapMs is the pause before the message is written.
	GapMs int `json:"gap_ms,omitempty"`
}

// L2Reaction is the scripted reaction of one peer to one transaction.
type L2Reaction struct {
	Kind  string `json:"kind"`
	Class string `json:"class,omitempty"`
	// DelayMs delays the peer's getdata (kinds that request).
	DelayMs int `json:"delay_ms,omitempty"`
	// Foreign selects the hash a foreignfirst reject names: "prev" = the
	// transaction of the previous SendTransaction call, else a hash no
	// transaction has.
	Foreign string `json:"foreign,omitempty"`
	// Kind seq: the messages sent on the inv and on the first arrival of the
	// transaction; Tmpl names the template the sequence was drawn from.
	Tmpl  string   `json:"tmpl,omitempty"`
	OnInv []L2Step `json:"on_inv,omitempty"`
	OnTx  []L2Step `json:"on_tx,omitempty"`
}

func l2StepsString(st []L2Step) string {
	var parts []string
	for _, x := range st {
		t := x.Do
		if x.Class != "" {
			t += ":" + x.Class
		}
		if x.GapMs > 0 {
			t += fmt.Sprintf("@%dms", x.GapMs)
		}
		parts = append(parts, t)
	}
	return strings.Join(parts, ",")
}

func (r L2Reaction) String() string {
	if r.Kind == l2Seq {
		return "seq/" + r.Tmpl + "[" + l2StepsString(r.OnInv) + " | " + l2StepsString(r.OnTx) + "]"
	}
	s := r.Kind
	if r.Class != "" {
		s += ":" + r.Class
	}
	if r.DelayMs > 0 {
		s += fmt.Sprintf("@%dms", r.DelayMs)
	}
	if r.Foreign != "" {
		s += "/" + r.Foreign
	}
	return s
}

// l2Ev is one recorded fact. Seq is the position in the netsim event log.
type l2Ev struct {
	Seq   int64         `json:"seq"`
	T     time.Duration `json:"t_ns"`
	Peer  string        `json:"peer,omitempty"`
	What  string        `json:"what"` // rx-inv tx-getdata rx-tx tx-reject tx-reject-otherhash disconnect send-failed call-start call-return block-announce
	Tx    string        `json:"tx,omitempty"`
	Class string        `json:"class,omitempty"`
	Note  string        `json:"note,omitempty"`
}

// L2CallView is what the oracle derived for one call (kept in witnesses and
// samples).
type L2CallView struct {
	Call       int               `json:"call"`
	Tx         string            `json:"tx"`
	Script     map[string]string `json:"script"`   // peer -> scripted reaction
	Observed   map[string]string `json:"observed"` // peer -> what the log shows it did in time
	Requested  []string          `json:"G_requested"`
	Rejected   []string          `json:"R_rejected_in_time"`
	Invalid    []string          `json:"Inv_rejected_as_invalid"`
	Replying   int               `json:"replying"`
	AllReject  bool              `json:"every_replying_peer_rejected"`
	InvShare   float32           `json:"invalid_share"`
	Threshold  float32           `json:"threshold"`
	FailAllow  bool              `json:"failure_allowed"`
	Err        string            `json:"returned_error"`
	ErrCode    string            `json:"returned_code,omitempty"`
	Shape      string            `json:"shape"`
	Concurrent string            `json:"concurrency"`
	DurMs      int64             `json:"call_ms"`
	Unclear    string            `json:"inconclusive,omitempty"`
	// One vote per peer. RejectsWritten lists, per peer, the class of EVERY
	// reject naming the transaction the peer wrote before the call returned,
	// in order (clearly late ones left out); a peer's vote is the first one.
	// Repeated = peers that wrote more than one. InvalidAny / FailAllowAny:
	// the most permissive reading, in which a peer calls the transaction
	// invalid if ANY of its rejects in time says so (differs from Invalid /
	// FailAllow only for a peer that changed its mind).
	RejectsWritten map[string][]string `json:"rejects_written_per_peer,omitempty"`
	Repeated       []string            `json:"peers_that_rejected_more_than_once,omitempty"`
	DupGetdata     []string            `json:"peers_that_requested_more_than_once,omitempty"`
	InvalidAny     []string            `json:"Inv_any_reject_of_the_peer_says_invalid,omitempty"`
	InvShareAny    float32             `json:"invalid_share_any_reading,omitempty"`
	FailAllowAny   bool                `json:"failure_allowed_any_reading"`
}

// l2Observe derives, for one call, what each peer provably did for the
// transaction between the call's start and its return.
//
//	G   peers whose getdata for the tx was written to the connection before
//	    the call returned;
//	R   peers whose reject for the tx hash was written before the call
//	    returned and inside the peer's reject window. The client opens that
//	    window when it handles the getdata (after the peer sent it, before the
//	    peer received the tx), so: reject - getdata <= window/2 is inside for
//	    sure; reject - rx(tx) >= 4 x window is outside for sure; anything else
//	    is undecidable. A reject from a peer that never requested has no
//	    window: it counts whenever it was written before the return;
//	Inv members of R whose (code, reason) means Invalid.
func l2Observe(evs []l2Ev, c *l2Call, peers []string, window time.Duration, thr float32) *L2CallView {
	v := &L2CallView{Call: c.Idx, Tx: c.Hash.String()[:12], Script: map[string]string{}, Observed: map[string]string{},
		Threshold: thr, Concurrent: c.Concurrency, DurMs: (c.RetT - c.StartT).Milliseconds()}
	for p, r := range c.Script {
		v.Script[p] = r.String()
	}
	if c.Err != nil {
		v.Err = c.Err.Error()
		if be, ok := c.Err.(*pushtx.BroadcastError); ok {
			v.ErrCode = be.Code.String()
		}
	}
	tx := c.Hash.String()
	type per struct {
		get, rxtx, rej time.Duration
		hasGet, hasTx  bool
		hasRej         bool
		rejClass       string
		other, late    bool
		otherFirst     bool // a reject naming another hash was written before the getdata
		rejFirst       bool // the peer's first reject of the tx was written before its first getdata
		nGet           int
		rejs           []string        // classes of all rejects naming the tx, in order
		rejT           []time.Duration // when they were written
	}
	st := map[string]*per{}
	for _, p := range peers {
		st[p] = &per{}
	}
	for _, e := range evs {
		if e.Seq <= c.StartSeq || e.Seq >= c.RetSeq || e.Tx != tx {
			continue
		}
		s := st[e.Peer]
		if s == nil {
			continue
		}
		switch e.What {
		case "tx-getdata":
			s.nGet++
			if !s.hasGet {
				s.hasGet, s.get = true, e.T
				s.rejFirst = s.hasRej
			}
		case "rx-tx":
			if !s.hasTx {
				s.hasTx, s.rxtx = true, e.T
			}
		case "tx-reject":
			s.rejs, s.rejT = append(s.rejs, e.Class), append(s.rejT, e.T)
			if !s.hasRej {
				s.hasRej, s.rej, s.rejClass = true, e.T, e.Class
			}
		case "tx-reject-otherhash":
			s.other = true
			if !s.hasGet {
				s.otherFirst = true
			}
		}
	}
	cat := map[string]int{}
	for _, p := range peers {
		s := st[p]
		inR := false
		switch {
		case s.hasRej && !s.hasGet:
			inR = true
		case s.hasRej && s.rej-s.get <= window/2:
			inR = true
		case s.hasRej && s.hasTx && s.rej-s.rxtx >= 4*window:
			s.late = true
		case s.hasRej:
			v.Unclear = fmt.Sprintf("peer %s: reject written %v after its getdata (window %v): neither clearly inside nor clearly outside the reject window",
				p, s.rej-s.get, window)
		}
		if s.hasGet {
			v.Requested = append(v.Requested, p)
		}
		if s.nGet > 1 {
			v.DupGetdata = append(v.DupGetdata, p)
		}
		obs := "silent"
		switch {
		case inR:
			cl := l2ClassByName(s.rejClass)
			v.Rejected = append(v.Rejected, p)
			if cl.Want == pushtx.Invalid {
				v.Invalid = append(v.Invalid, p)
			}
			switch {
			case s.hasGet && s.rejFirst:
				obs = "req-after-reject:" + cl.Want.String()
			case s.hasGet:
				obs = "req-reject:" + cl.Want.String()
			default:
				obs = "noreq-reject:" + cl.Want.String()
			}
			// Every reject of the peer that is not clearly late, for the
			// permissive reading and the witness.
			anyInv := false
			var written []string
			for i, rc := range s.rejs {
				if s.hasTx && s.rejT[i]-s.rxtx >= 4*window {
					continue
				}
				written = append(written, rc)
				if l2ClassByName(rc).Want == pushtx.Invalid {
					anyInv = true
				}
			}
			if v.RejectsWritten == nil {
				v.RejectsWritten = map[string][]string{}
			}
			v.RejectsWritten[p] = written
			if anyInv {
				v.InvalidAny = append(v.InvalidAny, p)
			}
			if len(written) > 1 {
				v.Repeated = append(v.Repeated, p)
				obs += "(repeated)"
			}
		case s.hasGet && s.late:
			obs = "req-accept(late-reject-ignored)"
		case s.hasGet && s.otherFirst:
			obs = "req-accept(after-reject-for-other-hash)"
		case s.hasGet && s.other:
			obs = "req-accept(reject-for-other-hash-ignored)"
		case s.hasGet:
			obs = "req-accept"
		}
		v.Observed[p] = obs
		cat[l2Coarse(obs)]++
	}
	sort.Strings(v.Requested)
	sort.Strings(v.Rejected)
	sort.Strings(v.Invalid)
	sort.Strings(v.InvalidAny)
	sort.Strings(v.Repeated)
	sort.Strings(v.DupGetdata)
	replying := map[string]bool{}
	for _, p := range v.Requested {
		replying[p] = true
	}
	rej := map[string]bool{}
	for _, p := range v.Rejected {
		replying[p] = true
		rej[p] = true
	}
	v.Replying = len(replying)
	v.AllReject = len(replying) > 0
	for p := range replying {
		if !rej[p] {
			v.AllReject = false
		}
	}
	if len(replying) > 0 {
		// float32 like the client's own configuration value: k/n with the
		// configured 0.6 must compare the same way at the boundary (3 of 5).
		v.InvShare = float32(len(v.Invalid)) / float32(len(replying))
	}
	v.FailAllow = v.AllReject || (len(replying) > 0 && v.InvShare >= thr)
	if len(replying) > 0 {
		v.InvShareAny = float32(len(v.InvalidAny)) / float32(len(replying))
	}
	v.FailAllowAny = v.FailAllow || (len(replying) > 0 && v.InvShareAny >= thr)
	// Normalised shape: which kinds of reaction were present (silence is no
	// reply and is left out), not how many peers or which ones.
	var parts []string
	for k := range cat {
		if k != "silent" {
			parts = append(parts, k)
		}
	}
	sort.Strings(parts)
	if len(parts) == 0 {
		parts = []string{"nobody-replied"}
	}
	v.Shape = strings.Join(parts, "+")
	return v
}

// l2Coarse folds the reject code into invalid / other for signatures (an
// ignored late or other-hash reject stays visible: it is a different cause).
func l2Coarse(obs string) string {
	if i := strings.Index(obs, "-reject:"); i > 0 {
		code, suffix := obs[i+len("-reject:"):], ""
		if j := strings.IndexByte(code, '('); j >= 0 {
			code, suffix = code[:j], code[j:]
		}
		if code == pushtx.Invalid.String() {
			return obs[:i] + "-reject:invalid" + suffix
		}
		return obs[:i] + "-reject:other" + suffix
	}
	if strings.IndexByte(obs, '(') > 0 {
		return obs
	}
	if i := strings.IndexByte(obs, ':'); i > 0 {
		if obs[i+1:] == pushtx.Invalid.String() {
			return obs[:i] + ":invalid"
		}
		return obs[:i] + ":other"
	}
	return obs
}

// l2Fine is the per-call fingerprint: reaction kinds with their codes and the
// counts bucketed 1 / n.
func l2Fine(v *L2CallView) string {
	cnt := map[string]int{}
	for _, o := range v.Observed {
		cnt[o]++
	}
	var parts []string
	for k, n := range cnt {
		b := "1"
		if n > 1 {
			b = "n"
		}
		parts = append(parts, k+"x"+b)
	}
	sort.Strings(parts)
	res := "ok"
	if v.Err != "" {
		res = "err:" + v.ErrCode
	}
	return strings.Join(parts, ",") + "|allow=" + fmt.Sprint(v.FailAllow) + "|" + res + "|" + v.Concurrent
}

// l2Unserved lists the peers whose first getdata for the call's transaction,
// written while the call was running and not preceded by that peer's own
// reject of the transaction, was never answered with the transaction (no tx
// received before the peer's next inv for it, up to the end of the history).
// clear: the call returned at least margin after the getdata was written, so
// the query was open, and stayed open, when the request arrived; close: the
// return followed sooner (the request may have crossed the end of the query).
func l2Unserved(evs []l2Ev, c *l2Call, peers []string, margin time.Duration) (clear, close []string) {
	tx := c.Hash.String()
	for _, p := range peers {
		var get *l2Ev
		gone := false
		served := false
		for i := range evs {
			e := &evs[i]
			if e.Peer != p {
				continue
			}
			if e.What == "disconnect" || e.What == "send-failed" {
				gone = true
			}
			if e.Tx != tx || e.Seq <= c.StartSeq {
				continue
			}
			if get == nil {
				if e.Seq >= c.RetSeq {
					break
				}
				if e.What == "tx-reject" {
					break // a reject is final: a later request need not be served
				}
				if e.What == "tx-getdata" {
					get = e
				}
				continue
			}
			if e.What == "rx-tx" {
				served = true
				break
			}
			if e.What == "rx-inv" {
				break
			}
		}
		if get == nil || served || gone {
			continue
		}
		if c.RetT-get.T >= margin {
			clear = append(clear, p)
		} else {
			close = append(close, p)
		}
	}
	return
}
