package c15

// The "busy handler" family (tick mode): some transactions are pending, no
// block event arrives for many rebroadcast intervals, and meanwhile the
// broadcaster keeps being called with things that have nothing to do with the
// pending transactions (Broadcast of unrelated transactions that are rejected
// or accepted, MarkAsConfirmed of unrelated or unknown hashes), spaced closer
// than one interval. The statement promises that every interval tick starts a
// rebroadcast of everything pending (unless one is still running), whether or
// not the broadcaster is otherwise busy.
//
// Driver: harness.busy; oracle: Analysis.checkBusy.

import (
	"crypto/sha256"
	"encoding/binary"
	"fmt"
	"math/rand"
	"sort"
	"strings"
	"sync"
	"sync/atomic"
	"time"

	"github.com/btcsuite/btcd/chainhash/v2"
)

// BusyBase is the case index at which the busy family starts: case
// BusyBase+j is GenBusy(seed, j).
const BusyBase = 1 << 20

// MinBusyIntervals is the smallest number of back-to-back harness timers of
// one interval each for which "no tick started a rebroadcast" is judged.
const MinBusyIntervals = 20

// Traffic kinds.
const (
	TrafficBcast       = "bcast"        // Broadcast(tx): outcome as scripted for tx (accepted or rejected)
	TrafficConf        = "conf"         // MarkAsConfirmed(hash of tx): tx is not one of the watched ones
	TrafficConfUnknown = "conf-unknown" // MarkAsConfirmed(hash no transaction has)
)

// TrafficOp is one unrelated call made while the window is open.
type TrafficOp struct {
	Kind string `json:"kind"`
	Tx   int    `json:"tx"`
}

// BusySpec parameterises the window of a "busy" step.
type BusySpec struct {
	// Intervals is the length of the harness' own timer chain: that many
	// timers of one RebroadcastInterval each, armed one after the other.
	Intervals int `json:"intervals"`
	// Div: a caller pauses interval/Div between the return of one call and
	// the next call.
	Div int `json:"div"`
	// Callers is the number of goroutines making the calls (the pause is
	// multiplied by it, so the aggregate rate stays the same).
	Callers int `json:"callers"`
	// Pattern is repeated for as long as the window is open.
	Pattern []TrafficOp `json:"pattern"`
	// ConfirmMid: a pending transaction reported confirmed half way through
	// the window (-1: none).
	ConfirmMid int `json:"confirm_mid"`
	// Pending lists the transactions submitted before the window (labels
	// only; the oracle derives what is pending from the history).
	Pending []int `json:"pending"`
}

func unknownHash(k int) chainhash.Hash {
	var b [16]byte
	binary.LittleEndian.PutUint64(b[:], uint64(k))
	return chainhash.Hash(sha256.Sum256(append([]byte("c15 traffic: not a transaction "), b[:]...)))
}

var rejectInits = []Outcome{OutInvalid, OutFee, OutUnknown, OutOther, OutConfirmed}

// GenBusy produces case j of the busy family. j = 0..2 are fixed
// (seed-independent) scenarios, the others vary everything around the shape.
func GenBusy(seed int64, j int) *Spec {
	sp := &Spec{Seed: seed, Case: BusyBase + j, Tick: true, StopPlan: "end",
		ConfirmTimings: map[string]bool{}, TriggerKinds: map[string]bool{"tick": true}}
	bz := &BusySpec{ConfirmMid: -1, Callers: 1}
	sp.Busy = bz
	b := &builder{sp: sp, pend: map[int]bool{}}
	switch j {
	case 0:
		// One pending transaction; a wallet keeps submitting a transaction
		// the network rejects.
		sp.Seed = 0
		sp.Shape = "busy-single"
		sp.IntervalMs = 40
		sp.Txs = []TxSpec{{Init: OutOK}, {Init: OutInvalid}}
		bz.Intervals, bz.Div = 25, 8
		bz.Pattern = []TrafficOp{{TrafficBcast, 1}}
		bz.Pending = []int{0}
		b.rb = make([]int, len(sp.Txs))
		b.submit(0, false)
		b.add(Step{Op: "busy"})
		return sp
	case 1:
		// Parent and child pending; a rescan keeps reporting other
		// transactions (unknown to the broadcaster) as confirmed.
		sp.Seed = 0
		sp.Shape = "busy-chain"
		sp.IntervalMs = 30
		sp.Txs = []TxSpec{{Init: OutOK}, {Init: OutMempool, Parents: []int{0}}, {Init: OutOK}}
		bz.Intervals, bz.Div = 30, 4
		bz.Pattern = []TrafficOp{{TrafficConfUnknown, -1}, {TrafficConf, 2}}
		bz.Pending = []int{0, 1}
		b.rb = make([]int, len(sp.Txs))
		b.submit(1, false) // child first
		b.submit(0, false)
		b.add(Step{Op: "tickwait", K: 0})
		b.add(Step{Op: "busy"})
		b.confirm(0, false, "after-busy-window")
		b.add(Step{Op: "tickwait", K: 1})
		return sp
	case 2:
		// A fan of three pending; mixed traffic from two callers, one of the
		// children confirmed half way.
		sp.Seed = 0
		sp.Shape = "busy-fanout"
		sp.IntervalMs = 50
		sp.Txs = []TxSpec{{Init: OutOK}, {Init: OutOK, Parents: []int{0}}, {Init: OutOK, Parents: []int{0}},
			{Init: OutOK}, {Init: OutFee}}
		bz.Intervals, bz.Div, bz.Callers = 20, 6, 2
		bz.Pattern = []TrafficOp{{TrafficBcast, 3}, {TrafficBcast, 4}, {TrafficConfUnknown, -1}, {TrafficConf, 3}, {TrafficBcast, 4}}
		bz.ConfirmMid = 2
		bz.Pending = []int{0, 1, 2}
		b.rb = make([]int, len(sp.Txs))
		b.submit(0, false)
		b.submit(2, false)
		b.submit(1, false)
		b.add(Step{Op: "busy"})
		return sp
	}

	rng := rand.New(rand.NewSource(seed*1000003 + int64(j)*104729 + 99))
	b.rng = rng
	sp.IntervalMs = 20 + rng.Intn(61)
	sp.MapCustom = rng.Intn(4) == 0
	bz.Intervals = MinBusyIntervals + rng.Intn(21)
	if max := 2400 / sp.IntervalMs; bz.Intervals > max {
		bz.Intervals = max
	}
	if bz.Intervals < MinBusyIntervals {
		bz.Intervals = MinBusyIntervals
	}
	bz.Div = 2 + rng.Intn(7)
	bz.Callers = 1 + rng.Intn(2)

	// the watched transactions and the dependencies among them.
	np := 1 + rng.Intn(3)
	dag := "single"
	for i := 0; i < np; i++ {
		t := TxSpec{Init: OutOK}
		switch r := rng.Intn(10); {
		case r < 3:
			t.Init = OutMempool
		case r < 4 && sp.MapCustom:
			t.Init = OutRawMempool
		}
		for k := rng.Intn(4); k > 0; k-- {
			o := OutOK
			if rng.Intn(3) == 0 {
				o = OutMempool
			}
			t.Rounds = append(t.Rounds, o)
		}
		sp.Txs = append(sp.Txs, t)
	}
	if np > 1 {
		switch rng.Intn(4) {
		case 0:
			dag = "chain"
			for i := 1; i < np; i++ {
				sp.Txs[i].Parents = []int{i - 1}
			}
		case 1:
			dag = "fanout"
			for i := 1; i < np; i++ {
				sp.Txs[i].Parents = []int{0}
			}
		case 2:
			dag = "fanin"
			for i := 0; i < np-1; i++ {
				sp.Txs[np-1].Parents = append(sp.Txs[np-1].Parents, i)
			}
		default:
			dag = "forest"
		}
	}
	sp.Shape = "busy-" + dag
	for i := 0; i < np; i++ {
		bz.Pending = append(bz.Pending, i)
	}

	// unrelated transactions and the traffic made of them.
	var rej, acc, never []int
	kinds := rng.Intn(15) + 1 // non-empty subset of {rej, acc, conf, conf-unknown}
	if kinds&1 != 0 {
		for k := 1 + rng.Intn(2); k > 0; k-- {
			rej = append(rej, len(sp.Txs))
			sp.Txs = append(sp.Txs, TxSpec{Init: rejectInits[rng.Intn(len(rejectInits))]})
		}
	}
	if kinds&2 != 0 {
		for k := 1 + rng.Intn(2); k > 0; k-- {
			t := TxSpec{Init: OutOK}
			if rng.Intn(3) == 0 {
				t.Init = OutMempool
			}
			for q := rng.Intn(3); q > 0; q-- {
				t.Rounds = append(t.Rounds, pickRoundOutcome(rng, sp.MapCustom))
			}
			if len(acc) > 0 && rng.Intn(2) == 0 {
				t.Parents = []int{acc[0]}
			}
			acc = append(acc, len(sp.Txs))
			sp.Txs = append(sp.Txs, t)
		}
	}
	if kinds&4 != 0 && len(rej)+len(acc) == 0 || kinds&4 != 0 && rng.Intn(2) == 0 {
		never = append(never, len(sp.Txs))
		sp.Txs = append(sp.Txs, TxSpec{Init: OutOK})
	}
	var pool []TrafficOp
	for _, t := range rej {
		pool = append(pool, TrafficOp{TrafficBcast, t})
	}
	for _, t := range acc {
		pool = append(pool, TrafficOp{TrafficBcast, t})
	}
	if kinds&4 != 0 {
		for _, t := range append(append(append([]int{}, rej...), acc...), never...) {
			pool = append(pool, TrafficOp{TrafficConf, t})
		}
	}
	if kinds&8 != 0 {
		pool = append(pool, TrafficOp{TrafficConfUnknown, -1})
	}
	rng.Shuffle(len(pool), func(x, y int) { pool[x], pool[y] = pool[y], pool[x] })
	bz.Pattern = append(bz.Pattern, pool...) // every chosen kind at least once
	for k := rng.Intn(5); k > 0; k-- {
		bz.Pattern = append(bz.Pattern, pool[rng.Intn(len(pool))])
	}
	if np > 1 && rng.Intn(3) == 0 {
		bz.ConfirmMid = rng.Intn(np)
	}

	b.rb = make([]int, len(sp.Txs))
	for _, t := range rng.Perm(np) {
		b.submit(t, false)
	}
	if rng.Intn(2) == 0 {
		b.add(Step{Op: "tickwait", K: rng.Intn(2)})
	}
	b.add(Step{Op: "busy"})
	if rng.Intn(2) == 0 {
		t := rng.Intn(np)
		if t != bz.ConfirmMid {
			b.confirm(t, false, "after-busy-window")
		}
		b.add(Step{Op: "tickwait", K: 1})
	}
	return sp
}

// GenAny maps a case index to its schedule (busy family from BusyBase on).
func GenAny(seed int64, i int) *Spec {
	if i >= BusyBase {
		return GenBusy(seed, i-BusyBase)
	}
	return Gen(seed, i)
}

// trafficClass is the normalised mix of unrelated calls of a pattern:
// "broadcasts", "confirmations" or "mixed", refined by whether the broadcasts
// were accepted, rejected or both.
func (sp *Spec) trafficClass() string {
	if sp.Busy == nil {
		return ""
	}
	m := map[string]bool{}
	for _, t := range sp.Busy.Pattern {
		switch t.Kind {
		case TrafficBcast:
			if t.Tx >= 0 && t.Tx < len(sp.Txs) && sp.Txs[t.Tx].Init.Class(sp.MapCustom) == ClassAccept {
				m["bcast-accepted"] = true
			} else {
				m["bcast-rejected"] = true
			}
		case TrafficConf:
			m["confirm-unrelated"] = true
		default:
			m["confirm-unknown"] = true
		}
	}
	return setString(m)
}

// trafficMix is the coarse class used in signatures.
func trafficMix(kinds map[string]bool) string {
	b := kinds["bcast-accepted"] || kinds["bcast-rejected"]
	c := kinds["confirm-unrelated"] || kinds["confirm-unknown"]
	switch {
	case b && c:
		return "broadcasts-and-confirmations-of-other-transactions"
	case b:
		return "broadcasts-of-other-transactions"
	}
	return "confirmations-of-other-transactions"
}

func (sp *Spec) busyFingerprint() string {
	bz := sp.Busy
	div := "div2-3"
	switch {
	case bz.Div >= 6:
		div = "div6-8"
	case bz.Div >= 4:
		div = "div4-5"
	}
	iv := "iv20-39"
	switch {
	case sp.IntervalMs >= 60:
		iv = "iv60-80"
	case sp.IntervalMs >= 40:
		iv = "iv40-59"
	}
	mid := "nomid"
	if bz.ConfirmMid >= 0 {
		mid = "midconf"
	}
	return fmt.Sprintf("/busy=%s,%s,callers%d,watched%d,%s,traffic=%s", iv, div, bz.Callers, len(bz.Pending), mid, sp.trafficClass())
}

// ---------------------------------------------------------------------------
// driver

// trafficOp issues one asynchronous call of the given traffic kind.
func (h *harness) trafficOp(t TrafficOp, ctr int) *opState {
	switch t.Kind {
	case TrafficBcast:
		return h.submitOp(t.Tx)
	case TrafficConf:
		return h.confirmOp(t.Tx)
	}
	hash := unknownHash(ctr)
	return h.startOp("barrier", -1, func(op *opState) {
		h.emitL(Event{Kind: "bar_call", Op: op.id, Tx: -1, Res: "traffic"})
		h.b.MarkAsConfirmed(hash)
		h.emitL(Event{Kind: "bar_ret", Op: op.id, Tx: -1, Res: "traffic"})
	})
}

// liveRounds: barrier (the handler accepted one more message, so it finished
// acting on everything it received before), then a full goroutine dump. lo is
// reserved after the barrier returned and before the dump is taken. Returns
// the number of live rebroadcast goroutines, -1 if that cannot be told.
func (h *harness) liveRounds() (lo int64, live int) {
	h.slowPaths++
	if !h.barrier() {
		return 0, -1
	}
	lo = h.reserve()
	d := dumpAll("broadcastHandler")
	hg := int64(0)
	if g := handlerByPtr(d, fmt.Sprintf("%p", h.b)); g != nil {
		hg = g.ID
	} else {
		h.mu.Lock()
		hg = h.handlerGid
		h.mu.Unlock()
		if g := d[hg]; g == nil || !g.hasFunc("broadcastHandler") {
			return lo, -1
		}
	}
	return lo, len(roundGoroutines(d, hg))
}

// busy opens the window: proof that no rebroadcast is running, then the
// harness' own chain of Intervals timers of one interval each while the
// callers keep the handler busy, then a second proof that no rebroadcast
// goroutine exists that has not made a callback yet. The callers only stop
// after the window was closed.
func (h *harness) busy() {
	bz := h.sp.Busy
	if bz == nil || !h.sp.Tick || len(bz.Pattern) == 0 {
		return
	}
	interval := time.Duration(h.sp.IntervalMs) * time.Millisecond

	// (c) nothing running at the start. A round the ticker started may be
	// in flight: try again.
	lo, res := int64(0), "noproof"
	for try := 0; try < 12; try++ {
		l, live := h.liveRounds()
		if h.aborted {
			return
		}
		if live == 0 {
			lo, res = l, "idle"
			break
		}
		if live > 0 {
			res = "busy"
		}
		time.Sleep(interval / 3)
	}
	if lo == 0 {
		lo = h.reserve()
	}
	h.emitL(Event{Kind: "busy_begin", Op: int(lo), Tx: -1, Res: res})

	stop := make(chan struct{})
	var stuck atomic.Bool
	var wg sync.WaitGroup
	var ctr atomic.Int64
	pause := interval / time.Duration(bz.Div) * time.Duration(bz.Callers)
	for c := 0; c < bz.Callers; c++ {
		wg.Add(1)
		go func(c int) {
			defer wg.Done()
			if c > 0 {
				time.Sleep(pause * time.Duration(c) / time.Duration(bz.Callers))
			}
			for {
				select {
				case <-stop:
					return
				default:
				}
				k := int(ctr.Add(1)) - 1
				op := h.trafficOp(bz.Pattern[k%len(bz.Pattern)], k)
				select {
				case <-op.done:
				case <-time.After(h.opt.Watchdog):
					stuck.Store(true)
					return
				}
				select {
				case <-stop:
					return
				case <-time.After(pause):
				}
			}
		}(c)
	}

	// (a) the harness' own timers, one after the other.
	for i := 1; i <= bz.Intervals; i++ {
		t := time.NewTimer(interval)
		<-t.C
		h.emitL(Event{Kind: "busy_timer", Op: i, Tx: -1})
		if i == bz.Intervals/2 && bz.ConfirmMid >= 0 {
			h.confirm(bz.ConfirmMid, false)
		}
		if stuck.Load() || h.aborted {
			break
		}
	}

	// close: everything the handler received so far has been acted on
	// (barrier); a rebroadcast goroutine that exists now will show up in the
	// callback: wait for it so that the window's round count is complete.
	res = "noproof"
	var elo int64
	if !stuck.Load() && !h.aborted {
		l, live := h.liveRounds()
		elo = l
		switch {
		case live == 0:
			res = "idle"
		case live > 0:
			res = "busy"
			h.waitFor(func() bool {
				r := h.roundAfter(lo)
				return r != nil
			}, 2*time.Second)
		}
	}
	if elo == 0 {
		elo = h.reserve()
	}
	h.emitL(Event{Kind: "busy_end", Op: int(elo), Tx: -1, Res: res})
	close(stop)
	wg.Wait()
	if stuck.Load() {
		h.aborted = true
	}
}

// ---------------------------------------------------------------------------
// oracle

// busyWindow is one window as recorded in the history.
type busyWindow struct {
	begin, end       Event
	timers           []int64 // sequence numbers of the timer events, in order
	chainOK          bool    // timers numbered 1..n without a gap
	hasBegin, hasEnd bool
}

func busyWindows(log []Event) []*busyWindow {
	var out []*busyWindow
	var cur *busyWindow
	for _, e := range log {
		switch e.Kind {
		case "busy_begin":
			cur = &busyWindow{begin: e, hasBegin: true, chainOK: true}
			out = append(out, cur)
		case "busy_timer":
			if cur != nil && !cur.hasEnd {
				if e.Op != len(cur.timers)+1 {
					cur.chainOK = false
				}
				cur.timers = append(cur.timers, e.Seq)
			}
		case "busy_end":
			if cur != nil && !cur.hasEnd {
				cur.end, cur.hasEnd = e, true
			}
		}
	}
	return out
}

// checkBusy judges the busy windows of a history.
//
// Rule (bounded progress): a transaction that is certainly pending during the
// whole window must be part of at least one rebroadcast started inside the
// window, if
//
//	(a) the harness' own chain of n >= MinBusyIntervals timers of one
//	    RebroadcastInterval each fired one after the other inside the window
//	    (so at least n intervals elapsed, however loaded the machine is),
//	(b) the handler kept running: at least n unrelated calls were accepted by
//	    it and returned inside the timer chain, in at least n/2 different
//	    timer slots (so it went round its loop again and again at moments at
//	    which interval ticks were due),
//	(c) no rebroadcast was running: none alive at the start (barrier + full
//	    goroutine dump), none started since (every started rebroadcast invokes
//	    the callback for the pending transaction), and none alive at the end
//	    that has not made its first callback (barrier + dump),
//	(d) no block event was handed over and Stop was not called.
//
// Zero rounds is the violation; fewer rounds than intervals is not (a tick
// that finds a rebroadcast still running starts none, and nothing says which
// ready event the handler takes first). If rounds were started but lack the
// transaction, the membership rule of Check judges them.
func (a *Analysis) checkBusy(log []Event, st *Stats) (fs []Finding, incon []string) {
	for _, w := range busyWindows(log) {
		st.BusyWindows++
		if !w.hasEnd {
			incon = append(incon, "busy window not closed")
			continue
		}
		n := len(w.timers)
		lo, hi := int64(w.begin.Op), w.end.Seq
		var watched []int
		win := window{lo: lo * 2, hi: hi * 2, ridx: a.roundsEndedBefore(lo)}
		for t := range a.sp.Txs {
			if a.definitelyPending(t, win, false) {
				watched = append(watched, t)
			}
		}
		rounds := 0
		per := map[int]int{}
		for _, r := range a.Rounds {
			if r.First <= lo || r.First >= hi {
				continue
			}
			rounds++
			seen := map[int]bool{}
			for _, en := range r.Entries {
				if !seen[en.Tx] {
					seen[en.Tx] = true
					per[en.Tx]++
				}
			}
		}
		// unrelated calls the handler accepted and answered inside the chain.
		calls, slots := 0, map[int]bool{}
		kinds := map[string]bool{}
		if n > 0 {
			first, last := w.begin.Seq, w.timers[n-1]
			slotOf := func(seq int64) int {
				return sort.Search(n, func(i int) bool { return w.timers[i] > seq })
			}
			isWatched := func(t int) bool {
				for _, x := range watched {
					if x == t {
						return true
					}
				}
				return false
			}
			for _, o := range a.bcast {
				if o.call > first && o.ret != 0 && o.ret < last && o.cbExit != 0 && !isWatched(o.tx) {
					calls++
					slots[slotOf(o.ret)] = true
					if o.res == "nil" {
						kinds["bcast-accepted"] = true
					} else {
						kinds["bcast-rejected"] = true
					}
				}
			}
			for _, c := range a.confOps {
				if c.call > first && c.ret != 0 && c.ret < last && !isWatched(c.tx) {
					calls++
					slots[slotOf(c.ret)] = true
					if c.tx < 0 {
						kinds["confirm-unknown"] = true
					} else {
						kinds["confirm-unrelated"] = true
					}
				}
			}
		}
		st.BusyIntervals += n
		st.BusyRounds += rounds
		st.BusyCalls += calls
		if len(watched) == 0 {
			incon = append(incon, "busy window: no transaction certainly pending throughout")
			continue
		}
		min := -1
		for _, t := range watched {
			if min < 0 || per[t] < min {
				min = per[t]
			}
		}
		st.BusyWatched += len(watched)
		st.BusyRoundsWithWatched += min
		if min > 0 {
			st.BusyJudged++
			st.BusyMargins = append(st.BusyMargins, [2]int{min, n})
			continue
		}
		if rounds > 0 {
			// started rebroadcasts without the transaction: membership rule.
			st.BusyJudged++
			continue
		}
		// zero rounds: establish (a)-(d).
		var miss []string
		if !w.chainOK || n < MinBusyIntervals {
			miss = append(miss, fmt.Sprintf("(a) only %d timers in the chain", n))
		}
		if calls < n || len(slots) < n/2 {
			miss = append(miss, fmt.Sprintf("(b) %d unrelated calls returned in %d of %d timer slots", calls, len(slots), n))
		}
		if w.begin.Res != "idle" {
			miss = append(miss, "(c) no proof that no rebroadcast was running at the start: "+w.begin.Res)
		}
		if w.end.Res != "idle" {
			miss = append(miss, "(c) a rebroadcast goroutine without callback may exist at the end: "+w.end.Res)
		}
		for _, r := range a.Rounds {
			if r.First <= lo && (r.Open || r.Last > w.begin.Seq) {
				miss = append(miss, "(c) an earlier round was still making callbacks")
			}
		}
		for _, t := range a.Trigs {
			if t.Start < hi && (t.Done == 0 || t.Done > lo) && !t.Aborted {
				miss = append(miss, "(d) a block event was handed over")
			}
		}
		if a.StopCall != 0 && a.StopCall < hi {
			miss = append(miss, "(d) Stop was called")
		}
		if len(miss) > 0 {
			incon = append(incon, "busy window without rebroadcast cannot be judged: "+strings.Join(miss, "; "))
			continue
		}
		st.BusyJudged++
		st.BusyMargins = append(st.BusyMargins, [2]int{0, n})
		fs = append(fs, Finding{
			Sig: "rebroadcast/tick-never-fires/while-handler-busy/" + trafficMix(kinds),
			What: fmt.Sprintf("tx %v were accepted and not reported confirmed, yet no rebroadcast was started during a window (seq %d..%d) in which %d timers of one rebroadcast interval (%d ms) each fired one after the other, "+
				"the broadcaster accepted and answered %d unrelated calls (%s) in %d different timer slots, no rebroadcast was running (goroutine dumps at both ends, no callback in between) and no block event arrived: "+
				"not one interval tick started a rebroadcast while the handler was busy with other calls",
				watched, lo, hi, n, a.sp.IntervalMs, calls, setString(kinds), len(slots)),
			Detail: map[string]any{"timers": n, "unrelated_calls_returned": calls, "timer_slots_with_calls": len(slots), "watched": watched},
		})
	}
	return
}
