package c15

import (
	"crypto/sha256"
	"errors"
	"fmt"
	"sort"
	"sync"
	"sync/atomic"
	"time"

	"github.com/btcsuite/btcd/chainhash/v2"
	"github.com/btcsuite/btcd/wire/v2"
	"github.com/lightninglabs/neutrino/blockntfns"
	"github.com/lightninglabs/neutrino/pushtx"
)

// Options tune the driver. None of them influences a verdict: Watchdog only
// bounds how long the driver waits before it classifies by goroutine dump or
// reports inconclusive, Poll only decides when a slow path (barrier + dump) is
// taken.
type Options struct {
	Watchdog time.Duration
	Poll     time.Duration
}

func (o *Options) fill() {
	if o.Watchdog == 0 {
		o.Watchdog = 30 * time.Second
	}
	if o.Poll == 0 {
		o.Poll = 10 * time.Millisecond
	}
}

// PendingCall is an API call that had not returned when its schedule ended.
type PendingCall struct {
	Kind          string // "markasconfirmed", "broadcast", "stop"
	Tx            int
	Gid           int64
	Since         time.Time
	AfterStopCall bool
	AfterStopRet  bool
	StopCalled    bool // Stop was called at some point of the schedule
	HandlerGid    int64
	BPtr          string
	done          chan struct{}
	res           *Result
}

// Result is the judged outcome of one schedule.
type Result struct {
	Spec          *Spec
	Fingerprint   string
	Nontrivial    bool
	Findings      []Finding
	Inconclusive  []string
	Stats         Stats
	PostStopCalls int
	HoldsEngaged  int
	MissRetries   int
	SlowPaths     int
	Log           []Event
	Pending       []*PendingCall
}

type rawErr struct{ code pushtx.BroadcastErrorCode }

func (e *rawErr) Error() string { return fmt.Sprintf("backend error %d", e.code) }

var errOther = errors.New("some other broadcast failure")

func (o Outcome) err() error {
	switch o {
	case OutOK:
		return nil
	case OutMempool:
		return &pushtx.BroadcastError{Code: pushtx.Mempool, Reason: "already in mempool"}
	case OutConfirmed:
		return &pushtx.BroadcastError{Code: pushtx.Confirmed, Reason: "already confirmed"}
	case OutInvalid:
		return &pushtx.BroadcastError{Code: pushtx.Invalid, Reason: "invalid"}
	case OutFee:
		return &pushtx.BroadcastError{Code: pushtx.InsufficientFee, Reason: "fee"}
	case OutUnknown:
		return &pushtx.BroadcastError{Code: pushtx.Unknown, Reason: "unknown"}
	case OutRawMempool:
		return &rawErr{code: pushtx.Mempool}
	case OutRawConfirmed:
		return &rawErr{code: pushtx.Confirmed}
	}
	return errOther
}

func classifyErr(err error) string {
	switch {
	case err == nil:
		return "nil"
	case err == pushtx.ErrBroadcasterStopped:
		return "stopped"
	}
	var be *pushtx.BroadcastError
	if errors.As(err, &be) {
		return "be:" + be.Code.String()
	}
	return "err"
}

type opState struct {
	id            int
	kind          string
	tx            int
	done          chan struct{}
	gid           atomic.Int64
	started       time.Time
	afterStopCall bool
	afterStopRet  bool
}

func (o *opState) isDone() bool {
	select {
	case <-o.done:
		return true
	default:
		return false
	}
}

type liveRound struct {
	gid   int64
	first int64
	n     int // callbacks entered
	done  int // callbacks returned

	endedLogged bool
}

type harness struct {
	sp   *Spec
	opt  Options
	txs  []*wire.MsgTx
	idx  map[chainhash.Hash]int
	b    *pushtx.Broadcaster
	ntfn chan blockntfns.BlockNtfn
	quit chan struct{} // closed at cleanup: aborts harness-side block sends

	mu         sync.Mutex
	seq        int64
	log        []Event
	notify     chan struct{}
	opPtr      map[*wire.MsgTx]int
	rbCount    []int
	handlerGid int64
	rounds     map[int64]*liveRound
	order      []*liveRound

	gateArmed   bool
	gateSeq     int64
	gateK       int
	gateEngaged bool
	gateCh      chan struct{}

	initGate    map[int]chan struct{}
	heldInit    chan struct{}
	initEngaged bool
	handlerHeld bool // an initial callback is (to be) held: no barriers

	stopCalled   bool
	stopReturned bool
	stopOp       *opState
	lastTrig     *opState
	ops          []*opState
	nextOp       int

	incon        []string
	aborted      bool
	postStop     int
	holdsEngaged int
	missRetries  int
	slowPaths    int
}

// emit appends an event; h.mu must be held.
func (h *harness) emit(e Event) int64 {
	h.seq++
	e.Seq = h.seq
	h.log = append(h.log, e)
	close(h.notify)
	h.notify = make(chan struct{})
	return e.Seq
}

func (h *harness) emitL(e Event) int64 {
	h.mu.Lock()
	defer h.mu.Unlock()
	return h.emit(e)
}

// reserve takes a sequence number now for an event that is appended later.
func (h *harness) reserve() int64 {
	h.mu.Lock()
	defer h.mu.Unlock()
	h.seq++
	return h.seq
}

func (h *harness) snapshotLog() []Event {
	h.mu.Lock()
	l := make([]Event, len(h.log))
	copy(l, h.log)
	h.mu.Unlock()
	sort.SliceStable(l, func(i, j int) bool { return l[i].Seq < l[j].Seq })
	return l
}

// waitFor blocks until pred (evaluated under h.mu after every event) holds or
// d elapsed.
func (h *harness) waitFor(pred func() bool, d time.Duration) bool {
	timer := time.NewTimer(d)
	defer timer.Stop()
	for {
		h.mu.Lock()
		if pred() {
			h.mu.Unlock()
			return true
		}
		ch := h.notify
		h.mu.Unlock()
		select {
		case <-ch:
		case <-timer.C:
			h.mu.Lock()
			ok := pred()
			h.mu.Unlock()
			return ok
		}
	}
}

// callback is Config.Broadcast.
func (h *harness) callback(tx *wire.MsgTx) error {
	gid := curGid()
	hash := tx.TxHash()
	h.mu.Lock()
	ti, ok := h.idx[hash]
	if !ok {
		ti = -1
	}
	opID, initial := h.opPtr[tx]
	var out Outcome = OutOK
	var wait chan struct{}
	var r *liveRound
	if initial {
		delete(h.opPtr, tx)
		if h.handlerGid == 0 {
			h.handlerGid = gid
		}
		if ti >= 0 {
			out = h.sp.Txs[ti].Init
		}
		h.emit(Event{Kind: "cb_enter", Op: opID, Tx: ti, Gid: gid, Initial: true, Out: out})
		if ch, ok := h.initGate[ti]; ok {
			delete(h.initGate, ti)
			h.initEngaged = true
			h.holdsEngaged++
			h.emit(Event{Kind: "hold_engaged", Tx: ti, Gid: gid, Initial: true})
			wait = ch
		}
	} else {
		if ti >= 0 {
			j := h.rbCount[ti]
			h.rbCount[ti]++
			if j < len(h.sp.Txs[ti].Rounds) {
				out = h.sp.Txs[ti].Rounds[j]
			}
		}
		r = h.rounds[gid]
		if r == nil {
			r = &liveRound{gid: gid, first: h.seq + 1}
			h.rounds[gid] = r
			h.order = append(h.order, r)
		}
		pos := r.n
		r.n++
		h.emit(Event{Kind: "cb_enter", Tx: ti, Gid: gid, Out: out})
		if h.gateArmed && !h.gateEngaged && r.first > h.gateSeq && pos == h.gateK {
			h.gateEngaged = true
			h.holdsEngaged++
			h.emit(Event{Kind: "hold_engaged", Tx: ti, Gid: gid})
			wait = h.gateCh
		}
	}
	h.mu.Unlock()
	if wait != nil {
		<-wait
	}
	h.mu.Lock()
	h.emit(Event{Kind: "cb_exit", Op: opID, Tx: ti, Gid: gid, Initial: initial, Out: out})
	if r != nil {
		r.done++
	}
	h.mu.Unlock()
	return out.err()
}

func (h *harness) startOp(kind string, tx int, body func(op *opState)) *opState {
	h.mu.Lock()
	h.nextOp++
	op := &opState{id: h.nextOp, kind: kind, tx: tx, done: make(chan struct{}),
		started: time.Now(), afterStopCall: h.stopCalled, afterStopRet: h.stopReturned}
	h.ops = append(h.ops, op)
	if h.stopCalled && (kind == "broadcast" || kind == "markasconfirmed") {
		h.postStop++
	}
	h.mu.Unlock()
	ready := make(chan struct{})
	go func() {
		op.gid.Store(curGid())
		close(ready)
		body(op)
		close(op.done)
	}()
	<-ready
	return op
}

// wait waits for a call the schedule needs before it can go on.
func (h *harness) wait(op *opState) bool {
	select {
	case <-op.done:
		return true
	default:
	}
	t := time.NewTimer(h.opt.Watchdog)
	defer t.Stop()
	select {
	case <-op.done:
		return true
	case <-t.C:
		h.aborted = true
		return false
	}
}

func (h *harness) submit(tx int, async bool) {
	op := h.submitOp(tx)
	if !async {
		h.wait(op)
	}
}

func (h *harness) submitOp(tx int) *opState {
	return h.startOp("broadcast", tx, func(op *opState) {
		ptr := h.txs[tx].Copy()
		h.mu.Lock()
		h.opPtr[ptr] = op.id
		h.emit(Event{Kind: "bcast_call", Op: op.id, Tx: tx})
		h.mu.Unlock()
		err := h.b.Broadcast(ptr)
		h.emitL(Event{Kind: "bcast_ret", Op: op.id, Tx: tx, Res: classifyErr(err)})
	})
}

func (h *harness) confirm(tx int, async bool) {
	op := h.confirmOp(tx)
	if !async {
		h.wait(op)
	}
}

func (h *harness) confirmOp(tx int) *opState {
	return h.startOp("markasconfirmed", tx, func(op *opState) {
		h.emitL(Event{Kind: "conf_call", Op: op.id, Tx: tx})
		h.b.MarkAsConfirmed(h.txs[tx].TxHash())
		h.emitL(Event{Kind: "conf_ret", Op: op.id, Tx: tx})
	})
}

var barrierHash = chainhash.Hash(sha256.Sum256([]byte("c15 barrier: not a transaction")))

// barrier makes the handler accept one more (no-op) message, which proves it
// finished acting on everything it accepted earlier.
func (h *harness) barrier() bool {
	op := h.startOp("barrier", -1, func(op *opState) {
		h.emitL(Event{Kind: "bar_call", Op: op.id, Tx: -1})
		h.b.MarkAsConfirmed(barrierHash)
		h.emitL(Event{Kind: "bar_ret", Op: op.id, Tx: -1})
	})
	return h.wait(op)
}

func (h *harness) block(async bool) *opState {
	op := h.startOp("block", -1, func(op *opState) {
		h.emitL(Event{Kind: "blk_start", Op: op.id, Tx: -1})
		var n blockntfns.BlockNtfn
		if op.id%3 == 0 {
			n = blockntfns.NewBlockDisconnected(wire.BlockHeader{}, uint32(op.id), wire.BlockHeader{})
		} else {
			n = blockntfns.NewBlockConnected(wire.BlockHeader{}, uint32(op.id))
		}
		select {
		case h.ntfn <- n:
			h.emitL(Event{Kind: "blk_done", Op: op.id, Tx: -1})
		case <-h.quit:
			h.emitL(Event{Kind: "blk_abort", Op: op.id, Tx: -1})
		}
	})
	h.mu.Lock()
	h.lastTrig = op
	h.mu.Unlock()
	if !async {
		h.waitBlock(op)
		// A block event handed over while a round is held open in the
		// callback: make the handler accept one more message so that the
		// history proves it finished acting on the event before the round
		// was released.
		h.mu.Lock()
		held := h.gateEngaged && !h.stopCalled && !h.handlerHeld
		h.mu.Unlock()
		if held && op.isDone() {
			h.barrier()
		}
	}
	return op
}

// waitBlock waits for a harness-side block send. After Stop nobody receives,
// which is not the broadcaster's fault: give up quickly.
func (h *harness) waitBlock(op *opState) bool {
	h.mu.Lock()
	stopped := h.stopCalled
	h.mu.Unlock()
	if !stopped {
		return h.wait(op)
	}
	t := time.NewTimer(5 * time.Millisecond)
	defer t.Stop()
	select {
	case <-op.done:
		return true
	case <-t.C:
		return false
	}
}

func (h *harness) stop(async bool) {
	h.mu.Lock()
	if h.stopCalled {
		h.mu.Unlock()
		return
	}
	h.stopCalled = true
	h.mu.Unlock()
	op := h.startOp("stop", -1, func(op *opState) {
		h.emitL(Event{Kind: "stop_call", Op: op.id, Tx: -1})
		h.b.Stop()
		h.mu.Lock()
		h.stopReturned = true
		h.emit(Event{Kind: "stop_ret", Op: op.id, Tx: -1})
		h.mu.Unlock()
	})
	h.stopOp = op
	if !async {
		h.wait(op)
	}
}

// join waits for the asynchronous calls issued so far. Before Stop every call
// must return (watchdog); after Stop was called a call either returns at once
// or is left for the goroutine-dump classification at the end of the run.
func (h *harness) join() {
	h.mu.Lock()
	ops := append([]*opState(nil), h.ops...)
	stopped := h.stopCalled
	held := h.gateEngaged || h.initEngaged
	h.mu.Unlock()
	if held {
		return
	}
	if !stopped {
		for _, op := range ops {
			if !h.wait(op) {
				return
			}
		}
		return
	}
	deadline := time.NewTimer(5 * time.Millisecond)
	defer deadline.Stop()
	for _, op := range ops {
		select {
		case <-op.done:
		case <-deadline.C:
			return
		}
	}
}

func (h *harness) anyOpen() bool {
	for _, r := range h.order {
		if r.n != r.done {
			return true
		}
	}
	return false
}

// roundAfter returns the newest round whose first callback came after seq.
// h.mu must be held.
func (h *harness) roundAfter(seq int64) *liveRound {
	for i := len(h.order) - 1; i >= 0; i-- {
		if h.order[i].first > seq {
			return h.order[i]
		}
	}
	return nil
}

// proveIdle is the slow path: (barrier,) full goroutine dump, and if no
// rebroadcast goroutine of this broadcaster is alive, log the proof together
// with a sequence number reserved before the dump was taken (Op field).
// Returns "idle" (no rebroadcast goroutine alive) or "busy".
func (h *harness) proveIdle(after int64) (string, *liveRound) {
	h.slowPaths++
	h.mu.Lock()
	can := !h.stopCalled && !h.handlerHeld
	hg := h.handlerGid
	h.mu.Unlock()
	if can {
		if !h.barrier() {
			return "busy", nil
		}
	}
	lo := h.reserve()
	d := dumpAll("broadcastHandler")
	live := roundGoroutines(d, hg)
	h.mu.Lock()
	defer h.mu.Unlock()
	r := h.roundAfter(after)
	if len(live) != 0 {
		return "busy", r
	}
	res := ""
	if can {
		res = "barrier"
	}
	h.emit(Event{Kind: "idle_proof", Op: int(lo), Tx: -1, Res: res})
	return "idle", r
}

// settleTrig waits until the rebroadcast started by the given (accepted) block
// event is over. Returns "ok", "ended" (round goroutine gone, oracle judges
// its content), "noround" (no rebroadcast goroutine and no round observed),
// "stopped" or "timeout".
func (h *harness) settleTrig(t *opState) string {
	if !t.isDone() {
		if !h.waitBlock(t) {
			return "stopped"
		}
	}
	lg := h.snapshotLog()
	var start int64
	accepted := false
	for _, e := range lg {
		if e.Op == t.id && e.Kind == "blk_start" {
			start = e.Seq
		}
		if e.Op == t.id && e.Kind == "blk_done" {
			accepted = true
		}
	}
	if !accepted {
		return "stopped"
	}
	exp := len(Analyze(h.sp, lg).ExpectedAt(t.id))
	deadline := time.Now().Add(h.opt.Watchdog)
	for {
		lastConfirmed := false
		ok := h.waitFor(func() bool {
			if h.anyOpen() {
				return false
			}
			if exp == 0 {
				return true
			}
			r := h.roundAfter(start)
			return r != nil && r.done >= exp
		}, h.opt.Poll)
		if ok {
			// Performance only: let the round goroutine hand a
			// "confirmed" hash to the handler and give the semaphore
			// back before the next trigger is issued.
			h.mu.Lock()
			for i := len(h.log) - 1; i >= 0; i-- {
				if h.log[i].Kind == "cb_exit" && !h.log[i].Initial {
					lastConfirmed = h.log[i].Out.Class(h.sp.MapCustom) == ClassConfirmed
					break
				}
			}
			can := !h.stopCalled && !h.handlerHeld
			h.mu.Unlock()
			if lastConfirmed && can {
				h.barrier()
			}
			return "ok"
		}
		h.mu.Lock()
		stopped := h.stopCalled
		h.mu.Unlock()
		if stopped {
			return "stopped"
		}
		st, r := h.proveIdle(start)
		if st == "idle" {
			if r == nil {
				return "noround"
			}
			return "ended"
		}
		if time.Now().After(deadline) {
			h.incon = append(h.incon, "rebroadcast goroutine still alive after watchdog")
			return "timeout"
		}
	}
}

func (h *harness) settle() {
	h.mu.Lock()
	t := h.lastTrig
	h.mu.Unlock()
	if t == nil {
		return
	}
	h.settleTrig(t)
}

// strictRound hands over a block event while the driver believes no
// rebroadcast is running. If no round results, idleness has been proven by
// the slow path and a second event is handed over; the oracle flags a missing
// round only when that one, too, provably started nothing.
func (h *harness) strictRound() {
	t := h.block(false)
	if h.aborted {
		return
	}
	if h.settleTrig(t) == "noround" {
		h.missRetries++
		t2 := h.block(false)
		if h.aborted {
			return
		}
		h.settleTrig(t2)
	}
}

func (h *harness) waitHeld() {
	h.mu.Lock()
	initMode := h.handlerHeld
	armSeq := h.gateSeq
	h.mu.Unlock()
	if initMode {
		if !h.waitFor(func() bool { return h.initEngaged || h.stopReturned }, h.opt.Watchdog) {
			h.incon = append(h.incon, "held initial broadcast never reached the callback")
		}
		return
	}
	if h.sp.Tick {
		// the next tick-started round engages the gate; give up (coverage
		// only) if none has enough callbacks.
		h.waitFor(func() bool { return h.gateEngaged }, 2*time.Second)
		return
	}
	deadline := time.Now().Add(h.opt.Watchdog)
	for {
		if h.waitFor(func() bool { return h.gateEngaged }, h.opt.Poll) {
			return
		}
		st, _ := h.proveIdle(armSeq)
		if st == "idle" {
			return // the round ended before its k-th callback (or never started)
		}
		if time.Now().After(deadline) {
			h.incon = append(h.incon, "gate not reached within watchdog")
			return
		}
	}
}

func (h *harness) release() {
	h.mu.Lock()
	if h.gateArmed {
		close(h.gateCh)
		h.gateArmed, h.gateEngaged = false, false
		h.emit(Event{Kind: "release", Tx: -1})
	}
	for t := range h.initGate {
		delete(h.initGate, t)
	}
	if h.heldInit != nil {
		close(h.heldInit)
		h.heldInit = nil
		h.handlerHeld, h.initEngaged = false, false
		h.emit(Event{Kind: "release", Tx: -1, Initial: true})
	}
	h.mu.Unlock()
}

func (h *harness) tickWait(k int) {
	mark := h.reserve()
	deadline := time.Now().Add(h.opt.Watchdog)
	for {
		// Is anything (still) certainly pending? Transactions reported
		// confirmed from inside a round drop out, after which no further
		// visible round can be expected.
		now := h.reserve()
		an := Analyze(h.sp, h.snapshotLog())
		w := window{lo: now * 2, hi: now * 2, ridx: an.roundsEndedBefore(now)}
		pend := 0
		for i := range h.sp.Txs {
			if an.definitelyPending(i, w, true) {
				pend++
			}
		}
		if pend == 0 {
			return
		}
		h.mu.Lock()
		stopped := h.stopCalled
		h.mu.Unlock()
		if stopped {
			return
		}
		ok := h.waitFor(func() bool {
			n := 0
			for _, r := range h.order {
				if r.first > mark {
					n++
				}
			}
			return n >= k+1
		}, 250*time.Millisecond)
		if ok {
			return
		}
		if time.Now().After(deadline) {
			h.incon = append(h.incon, "interval ticks started no rebroadcast within watchdog although transactions were pending")
			return
		}
	}
}

// Run executes one schedule against the real broadcaster and judges the
// recorded history.
//
// Step semantics: submit = Broadcaster.Broadcast(tx); confirm =
// MarkAsConfirmed(tx); block = hand one block event to the unbuffered
// subscription channel; round = block + wait for the resulting rebroadcast
// (+ a second event if provably nothing started); settle = wait for the
// rebroadcast of the latest block event; hold k = the next new round blocks in
// its k-th callback; holdinit tx = the next initial broadcast of tx blocks in
// the callback (the handler is then busy); waitheld; release; stop; join =
// wait for asynchronous calls; tickwait k = wait for k+1 new tick-started
// rounds; busy = the busy-handler window (busy.go). Async steps do not wait for
// the call to return.
func Run(sp *Spec, opt Options) (res *Result) {
	opt.fill()
	res = &Result{Spec: sp, Fingerprint: sp.Fingerprint()}
	h := &harness{
		sp: sp, opt: opt,
		txs:      BuildTxs(sp),
		idx:      map[chainhash.Hash]int{},
		ntfn:     make(chan blockntfns.BlockNtfn), // unbuffered
		quit:     make(chan struct{}),
		notify:   make(chan struct{}),
		opPtr:    map[*wire.MsgTx]int{},
		rbCount:  make([]int, len(sp.Txs)),
		rounds:   map[int64]*liveRound{},
		initGate: map[int]chan struct{}{},
	}
	for i, tx := range h.txs {
		h.idx[tx.TxHash()] = i
	}
	interval := 10 * time.Hour
	if sp.Tick {
		interval = time.Duration(sp.IntervalMs) * time.Millisecond
	}
	cfg := &pushtx.Config{
		Broadcast: h.callback,
		SubscribeBlocks: func() (*blockntfns.Subscription, error) {
			return &blockntfns.Subscription{Notifications: h.ntfn, Cancel: func() {}}, nil
		},
		RebroadcastInterval: interval,
	}
	if sp.MapCustom {
		cfg.MapCustomBroadcastError = func(err error) error {
			var re *rawErr
			if errors.As(err, &re) {
				return &pushtx.BroadcastError{Code: re.code, Reason: err.Error()}
			}
			return err
		}
	}
	h.b = pushtx.NewBroadcaster(cfg)
	if err := h.b.Start(); err != nil {
		res.Inconclusive = append(res.Inconclusive, "Start failed: "+err.Error())
		return res
	}

	for _, s := range sp.Steps {
		if h.aborted {
			break
		}
		switch s.Op {
		case "submit":
			h.submit(s.Tx, s.Async || h.isStopped())
		case "confirm":
			h.confirm(s.Tx, s.Async || h.isStopped())
		case "block":
			h.block(s.Async)
		case "round":
			if !h.isStopped() {
				h.strictRound()
			}
		case "settle":
			h.settle()
		case "hold":
			h.mu.Lock()
			h.gateArmed, h.gateEngaged = true, false
			h.gateK = s.K
			h.gateSeq = h.seq
			h.gateCh = make(chan struct{})
			h.mu.Unlock()
		case "holdinit":
			h.mu.Lock()
			ch := make(chan struct{})
			h.initGate[s.Tx] = ch
			h.heldInit = ch
			h.handlerHeld = true
			h.mu.Unlock()
		case "waitheld":
			h.waitHeld()
		case "release":
			h.release()
		case "stop":
			h.stop(s.Async)
		case "join":
			h.join()
		case "tickwait":
			h.tickWait(s.K)
		case "busy":
			h.busy()
		}
	}

	// Cleanup: open the gates, stop, classify what has not returned.
	h.release()
	if !h.isStopped() && !h.aborted {
		h.join()
	}
	if !h.isStopped() {
		h.stop(true)
	}
	if h.stopOp != nil {
		h.wait(h.stopOp)
	}
	close(h.quit)
	grace := time.NewTimer(20 * time.Millisecond)
graceLoop:
	for _, op := range h.ops {
		select {
		case <-op.done:
		case <-grace.C:
			break graceLoop
		}
	}
	grace.Stop()

	h.mu.Lock()
	stopCalled := h.stopCalled
	hg := h.handlerGid
	var pend []*PendingCall
	for _, op := range h.ops {
		if op.isDone() || op.kind == "block" {
			continue
		}
		kind := op.kind
		if kind == "barrier" {
			kind = "markasconfirmed"
		}
		pend = append(pend, &PendingCall{Kind: kind, Tx: op.tx, Gid: op.gid.Load(),
			Since: op.started, AfterStopCall: op.afterStopCall, AfterStopRet: op.afterStopRet,
			StopCalled: stopCalled, HandlerGid: hg, BPtr: fmt.Sprintf("%p", h.b),
			done: op.done, res: res})
	}
	h.mu.Unlock()

	res.Log = h.snapshotLog()
	an := Analyze(sp, res.Log)
	fs, incon, st := an.Check()
	res.Findings = fs
	res.Inconclusive = append(h.incon, incon...)
	if h.aborted {
		res.Inconclusive = append(res.Inconclusive, "a call the schedule depends on did not return within the watchdog (classified by goroutine dump)")
	}
	res.Stats = st
	res.Pending = pend
	res.PostStopCalls = h.postStop
	res.HoldsEngaged = h.holdsEngaged
	res.MissRetries = h.missRetries
	res.SlowPaths = h.slowPaths
	res.Nontrivial = st.Rounds > 0 || h.postStop > 0
	return res
}

func (h *harness) isStopped() bool {
	h.mu.Lock()
	defer h.mu.Unlock()
	return h.stopCalled
}

// ResolvePending classifies the calls that had not returned when their
// schedule ended. A call is reported as blocked forever only if, after the
// watchdog, two goroutine dumps gap apart show its goroutine parked in the
// same frame inside the called method while the broadcaster's handler
// goroutine and every rebroadcast goroutine have exited (or are parked
// unchanged): nothing is left that could ever complete the call.
func ResolvePending(results []*Result, watchdog, gap time.Duration) {
	var all []*PendingCall
	for _, r := range results {
		if r != nil {
			all = append(all, r.Pending...)
		}
	}
	if len(all) == 0 {
		return
	}
	for {
		waiting := false
		for _, p := range all {
			select {
			case <-p.done:
			default:
				if time.Since(p.Since) < watchdog {
					waiting = true
				}
			}
		}
		if !waiting {
			break
		}
		time.Sleep(50 * time.Millisecond)
	}
	var rem []*PendingCall
	for _, p := range all {
		select {
		case <-p.done:
		default:
			rem = append(rem, p)
		}
	}
	if len(rem) == 0 {
		return
	}
	d1 := dumpAll("pushtx.")
	time.Sleep(gap)
	d2 := dumpAll("pushtx.")
	method := map[string]string{
		"markasconfirmed": "pushtx.(*Broadcaster).MarkAsConfirmed",
		"broadcast":       "pushtx.(*Broadcaster).Broadcast",
		"stop":            "pushtx.(*Broadcaster).Stop",
	}
	for _, p := range rem {
		select {
		case <-p.done:
			continue
		default:
		}
		g1, g2 := d1[p.Gid], d2[p.Gid]
		if !sameParked(g1, g2) || !g1.hasFunc(method[p.Kind]) {
			p.res.Inconclusive = append(p.res.Inconclusive,
				p.Kind+" had not returned after the watchdog but its goroutine is not parked identically in two dumps")
			continue
		}
		// everything else idle?
		idle := true
		handler := "handler-exited"
		findHandler := func(d map[int64]*gInfo) *gInfo {
			if p.HandlerGid != 0 {
				if g := d[p.HandlerGid]; g != nil && g.hasFunc("broadcastHandler") {
					return g
				}
				return nil
			}
			return handlerByPtr(d, p.BPtr)
		}
		if h1, h2 := findHandler(d1), findHandler(d2); h1 != nil || h2 != nil {
			handler = "handler-parked"
			if !sameParked(h1, h2) {
				idle = false
			}
		}
		r1, r2 := roundGoroutines(d1, p.HandlerGid), roundGoroutines(d2, p.HandlerGid)
		rounds := "no-rebroadcast-goroutine"
		if len(r1) != 0 || len(r2) != 0 {
			rounds = "rebroadcast-goroutine-parked"
			if len(r1) != len(r2) {
				idle = false
			}
			for _, g := range r1 {
				if !sameParked(g, d2[g.ID]) {
					idle = false
				}
			}
		}
		if !idle {
			p.res.Inconclusive = append(p.res.Inconclusive,
				p.Kind+" had not returned after the watchdog; other goroutines of the broadcaster still changing")
			continue
		}
		stopShape := "broadcaster-running"
		when := "while the broadcaster was running"
		switch {
		case p.AfterStopRet:
			stopShape, when = "broadcaster-stopped", "called after Stop had returned"
		case p.AfterStopCall:
			stopShape, when = "broadcaster-stopped", "called after Stop had been called"
		case p.StopCalled:
			stopShape, when = "broadcaster-stopped", "called before Stop, racing with it"
		}
		name := map[string]string{"markasconfirmed": "MarkAsConfirmed", "broadcast": "Broadcast", "stop": "Stop"}[p.Kind]
		tx := ""
		if p.Tx >= 0 {
			tx = fmt.Sprintf("(tx%d)", p.Tx)
		}
		p.res.Findings = append(p.res.Findings, Finding{
			Sig: "return/" + p.Kind + "-never-returns/" + stopShape + "/" + handler + "/" + rounds,
			What: fmt.Sprintf("%s%s %s has not returned after %v: its goroutine %d is parked (%s) in %s in two goroutine dumps %v apart; %s, %s — nothing is left that could complete the call",
				name, tx, when, watchdog, p.Gid, g1.State, method[p.Kind], gap, handler, rounds),
			Detail: map[string]any{"stack": g1.Funcs, "state": g1.State},
		})
	}
}
