package c15

// L2 part of C15: ChainService.SendTransaction against simulated peers (the
// verdict rule of the statement) and the end-to-end rebroadcast through the
// real client. One child process per scenario (engine L2).

import (
	"errors"
	"fmt"
	"math/rand"
	"os"
	"sort"
	"strings"
	"sync"
	"time"

	"github.com/btcsuite/btcd/chainhash/v2"
	"github.com/btcsuite/btcd/wire/v2"
	"github.com/lightninglabs/neutrino"
	"github.com/lightninglabs/neutrino/pushtx"

	"verif/internal/c17"
	"verif/internal/chaingen"
	"verif/internal/evid"
	"verif/internal/l2"
	"verif/internal/netsim"
)

// L2Rule / L2Assume are the texts the main program adds to the evidence.
const L2Rule = "L2 PART (one child process per scenario; the complete real ChainService, chain of 50-150 blocks, 2-6 wire-level peers that are honest " +
	"for sync and whose reaction to the client's inv for a transaction is scripted per (peer, tx): request-then-accept; request-then-reject with each " +
	"(code, reason) class of ParseBroadcastError (invalid, nonstandard, insufficient fee, duplicate/in-mempool, /already-known, /mempool-conflict, btcd's " +
	"already-spent, already-have, already-exists, unknown reasons and codes); reject WITHOUT requesting; silent; request twice (with and without reject); " +
	"request then reject >= 4.5 x QueryRejectTimeout later; request then reject naming a different hash; disconnect on the inv). Scenario 0 is fixed: one " +
	"peer requests and accepts, one rejects as invalid without requesting, the rest stay silent. Scenario 16 is fixed in structure (delays seeded): a peer " +
	"answers the inv with a reject naming ANOTHER transaction (the previously broadcast one or an unknown hash) and 30-100 ms later requests the announced " +
	"one; then it accepts while a second peer requests and rejects as invalid / it rejects as the only replying peer / it accepts, followed by a block. " +
	"DELIVERY: a peer whose first getdata for the transaction was written >= 4 x QueryRejectTimeout before the call returned, without an earlier reject of " +
	"that transaction from it, must be sent the transaction (sooner return = counted only). Families by k: verdict (5-8 SendTransaction calls for " +
	"unique real witness transactions spending generator UTXOs, sequential and 2-3 concurrent, reaction profiles uniform / everybody-rejects / " +
	"around-the-invalid-threshold / rejecters-that-never-request / duplicate-codes / late-and-other-hash), rebroadcast (accepted, mempool-duplicate and " +
	"rejected transactions, then 2 blocks not containing them announced by every peer by inv or headers; a further SendTransaction racing the " +
	"rebroadcast round), stop (Stop with a SendTransaction or a rebroadcast round in flight, then a call after Stop). ORACLE per call from the event log: " +
	"G = peers whose getdata for the tx was written before the call returned, R = peers whose reject for the tx hash was written before the return and " +
	"clearly inside the reject window (<= window/2 after their getdata; >= 4 x window after they received the tx = clearly outside; in between = " +
	"inconclusive; no window for a peer that never requested), Inv = members of R whose reject means Invalid by the oracle's own table of " +
	"pushtx/error.go. An error is allowed only if every peer of G u R is in R (and G u R is not empty) or |Inv|/|G u R| >= QueryInvalidTxThreshold " +
	"(float32); an allowed error must be a *pushtx.BroadcastError whose code some peer of R sent. Success where failure was allowed is only counted. " +
	"REBROADCAST: after the client reports the new block, every connected peer must receive a new inv for every transaction whose SendTransaction " +
	"returned nil (bound 10 s + pending x BroadcastTimeout; a miss is a violation only if the event log stood still for 5 s, else inconclusive); a " +
	"transaction whose SendTransaction returned an error must never be announced again. STOP: Stop and the call in flight return (40 s / 15 s watchdogs; " +
	"'blocked' needs 3 identical goroutine dumps 2 s apart and a silent network). L2 fingerprints = family x per-call multiset of observed reaction " +
	"kinds x verdict; L2 non-trivial = at least one call in which a peer replied was evaluated."

const L2Assume = "L2: exported client knobs are shortened (QueryRejectTimeout 300 ms, BroadcastTimeout 2-3 s); a message written to the unbounded " +
	"in-memory connection counts as delivered; peers answer the inv within milliseconds or never, except the explicitly late kind; 'replying peer' of " +
	"the statement = a peer that requested the transaction or rejected it in time (the quantifier lists getdata, reject codes and silence as the peer " +
	"replies, and sendTransaction itself records a reject from a peer that never requested); MarkAsConfirmed is not reachable through the exported " +
	"ChainService API without a rescan and is covered by the component part only."

// ---------------------------------------------------------------------------
// recorder + scripted peers

type l2Rec struct {
	w      *l2.World
	window time.Duration

	mu      sync.Mutex
	evs     []l2Ev
	script  map[chainhash.Hash]map[string]L2Reaction
	pending map[string]bool // peer|tx -> an inv was received and the tx not yet reacted to
	late    time.Duration
	wg      sync.WaitGroup
	prev    map[chainhash.Hash]chainhash.Hash // tx -> transaction of the call issued before it
	last    *chainhash.Hash
}

func newL2Rec(w *l2.World) *l2Rec {
	return &l2Rec{w: w, window: neutrino.QueryRejectTimeout, script: map[chainhash.Hash]map[string]L2Reaction{},
		pending: map[string]bool{}, late: neutrino.QueryRejectTimeout*9/2 + 50*time.Millisecond,
		prev: map[chainhash.Hash]chainhash.Hash{}}
}

// noteLocked appends a fact; rc.mu must be held.
func (rc *l2Rec) noteLocked(peer, what string, tx *chainhash.Hash, class, note string) l2Ev {
	txs, short := "", ""
	if tx != nil {
		txs, short = tx.String(), tx.String()[:8]
	}
	who := peer
	if who == "" {
		who = "harness"
	}
	seq := rc.w.Log.Add(who, "ev", "c15:"+what, strings.TrimSpace(short+" "+class+" "+note))
	e := l2Ev{Seq: seq, T: rc.w.Log.Elapsed(), Peer: peer, What: what, Tx: txs, Class: class, Note: note}
	rc.evs = append(rc.evs, e)
	return e
}

func (rc *l2Rec) note(peer, what string, tx *chainhash.Hash, class, note string) l2Ev {
	rc.mu.Lock()
	defer rc.mu.Unlock()
	return rc.noteLocked(peer, what, tx, class, note)
}

// send writes msg to the client and records the fact in ONE critical section
// of the recorder, the same one in which a call's return is recorded: a send
// recorded before a return was completely written before that return was
// observed.
func (rc *l2Rec) send(p *netsim.Peer, msg wire.Message, what string, tx *chainhash.Hash, class string) {
	rc.mu.Lock()
	defer rc.mu.Unlock()
	if err := p.Send(msg); err != nil {
		rc.noteLocked(p.Addr, "send-failed", tx, class, what+": "+err.Error())
		return
	}
	rc.noteLocked(p.Addr, what, tx, class, "")
}

func (rc *l2Rec) snapshot() []l2Ev {
	rc.mu.Lock()
	defer rc.mu.Unlock()
	return append([]l2Ev(nil), rc.evs...)
}

func (rc *l2Rec) setScript(tx chainhash.Hash, m map[string]L2Reaction) {
	rc.mu.Lock()
	rc.script[tx] = m
	if _, ok := rc.prev[tx]; !ok && rc.last != nil {
		rc.prev[tx] = *rc.last
	}
	h := tx
	rc.last = &h
	rc.mu.Unlock()
}

// foreignHash is the hash a foreignfirst reject names instead of tx.
func (rc *l2Rec) foreignHash(tx chainhash.Hash, r L2Reaction) chainhash.Hash {
	rc.mu.Lock()
	defer rc.mu.Unlock()
	if p, ok := rc.prev[tx]; ok && r.Foreign == "prev" {
		return p
	}
	other := tx
	other[0] ^= 0xff
	other[31] ^= 0x55
	return other
}

// later runs f after d on a goroutine the scenario waits for.
func (rc *l2Rec) later(d time.Duration, f func()) {
	rc.wg.Add(1)
	go func() {
		defer rc.wg.Done()
		time.Sleep(d)
		f()
	}()
}

func (rc *l2Rec) reaction(tx chainhash.Hash, peer string) L2Reaction {
	rc.mu.Lock()
	defer rc.mu.Unlock()
	if m := rc.script[tx]; m != nil {
		if r, ok := m[peer]; ok {
			return r
		}
	}
	return L2Reaction{Kind: l2Silent}
}

func l2RejectMsg(h chainhash.Hash, cl l2Class) *wire.MsgReject {
	m := wire.NewMsgReject(wire.CmdTx, cl.Code, cl.Reason)
	m.Hash = h
	return m
}

// onMsg is installed as Peer.OnMsg: it scripts the peer's reaction to tx invs
// and to the tx itself; everything else is left to the honest peer.
func (rc *l2Rec) onMsg(p *netsim.Peer, m wire.Message) bool {
	switch t := m.(type) {
	case *wire.MsgInv:
		handled := false
		for _, iv := range t.InvList {
			if iv.Type != wire.InvTypeTx && iv.Type != wire.InvTypeWitnessTx {
				continue
			}
			handled = true
			h := iv.Hash
			rc.note(p.Addr, "rx-inv", &h, "", "")
			r := rc.reaction(h, p.Addr)
			gd := wire.NewMsgGetData()
			_ = gd.AddInvVect(wire.NewInvVect(iv.Type, &h))
			key := p.Addr + "|" + h.String()
			switch r.Kind {
			case l2ForeignAccept, l2ForeignReject:
				cl := r.Class
				if cl == "" || r.Kind == l2ForeignAccept {
					cl = "dup-have"
				}
				rc.send(p, l2RejectMsg(rc.foreignHash(h, r), l2ClassByName(cl)), "tx-reject-otherhash", &h, cl)
				rc.later(time.Duration(r.DelayMs)*time.Millisecond, func() {
					rc.mu.Lock()
					rc.pending[key] = true
					rc.mu.Unlock()
					rc.send(p, gd, "tx-getdata", &h, "")
				})
			case l2Accept, l2Reject, l2LateReject, l2OtherHash:
				if r.DelayMs > 0 {
					rc.later(time.Duration(r.DelayMs)*time.Millisecond, func() {
						rc.mu.Lock()
						rc.pending[key] = true
						rc.mu.Unlock()
						rc.send(p, gd, "tx-getdata", &h, "")
					})
					break
				}
				rc.mu.Lock()
				rc.pending[key] = true
				rc.mu.Unlock()
				rc.send(p, gd, "tx-getdata", &h, "")
			case l2Twice, l2TwiceReject:
				rc.mu.Lock()
				rc.pending[key] = true
				rc.mu.Unlock()
				rc.send(p, gd, "tx-getdata", &h, "")
				rc.send(p, gd, "tx-getdata", &h, "")
			case l2NoReqReject:
				rc.send(p, l2RejectMsg(h, l2ClassByName(r.Class)), "tx-reject", &h, r.Class)
			case l2Seq:
				// The transaction's first arrival after THIS inv starts OnTx.
				rc.mu.Lock()
				rc.pending[key] = true
				rc.mu.Unlock()
				rc.runSteps(p, h, iv.Type, r.OnInv)
			case l2Disconnect:
				rc.mu.Lock()
				p.Disconnect()
				rc.noteLocked(p.Addr, "disconnect", &h, "", "")
				rc.mu.Unlock()
			}
		}
		return handled
	case *wire.MsgTx:
		h := t.TxHash()
		rc.note(p.Addr, "rx-tx", &h, "", "")
		key := p.Addr + "|" + h.String()
		rc.mu.Lock()
		first := rc.pending[key]
		rc.pending[key] = false
		rc.mu.Unlock()
		if !first {
			return true
		}
		r := rc.reaction(h, p.Addr)
		switch r.Kind {
		case l2Reject, l2TwiceReject, l2ForeignReject:
			rc.send(p, l2RejectMsg(h, l2ClassByName(r.Class)), "tx-reject", &h, r.Class)
		case l2Seq:
			it := wire.InvTypeWitnessTx
			if !t.HasWitness() {
				it = wire.InvTypeTx
			}
			rc.runSteps(p, h, it, r.OnTx)
		case l2OtherHash:
			other := h
			other[0] ^= 0xff
			other[31] ^= 0x55
			rc.send(p, l2RejectMsg(other, l2ClassByName(r.Class)), "tx-reject-otherhash", &h, r.Class)
		case l2LateReject:
			rc.wg.Add(1)
			go func() {
				defer rc.wg.Done()
				time.Sleep(rc.late)
				rc.send(p, l2RejectMsg(h, l2ClassByName(r.Class)), "tx-reject", &h, r.Class)
			}()
		}
		return true
	}
	return false
}

// ---------------------------------------------------------------------------
// calls

type l2Call struct {
	Idx         int
	Tx          *wire.MsgTx
	Hash        chainhash.Hash
	Script      map[string]L2Reaction
	Profile     string
	Concurrency string // "alone" / "with-calls" / "with-rebroadcast" / "with-stop"
	StartSeq    int64
	RetSeq      int64
	StartT      time.Duration
	RetT        time.Duration
	Err         error
	done        chan struct{}
}

func (rc *l2Rec) run(c *l2Call) {
	c.done = make(chan struct{})
	rc.setScript(c.Hash, c.Script)
	e := rc.note("", "call-start", &c.Hash, "", "")
	c.StartSeq, c.StartT = e.Seq, e.T
	go func() {
		err := rc.w.Svc.SendTransaction(c.Tx)
		rc.mu.Lock()
		note := "nil"
		if err != nil {
			note = err.Error()
		}
		e := rc.noteLocked("", "call-return", &c.Hash, "", note)
		c.RetSeq, c.RetT, c.Err = e.Seq, e.T, err
		rc.mu.Unlock()
		close(c.done)
	}()
}

func (c *l2Call) wait(d time.Duration) bool {
	select {
	case <-c.done:
		return true
	case <-time.After(d):
		return false
	}
}

// l2MakeTx builds a unique real witness transaction spending a generator UTXO.
func l2MakeTx(w *l2.World, tip *chaingen.Node, rng *rand.Rand, n int) *wire.MsgTx {
	keys := w.G.Keys()
	var spendable []chaingen.Utxo
	for _, u := range w.G.Utxos(tip) {
		if u.Key >= 0 && !u.Legacy {
			spendable = append(spendable, u)
		}
	}
	tx := wire.NewMsgTx(2)
	sig := make([]byte, 71)
	rng.Read(sig)
	sig[0], sig[70] = 0x30, 0x01
	if len(spendable) > 0 {
		u := spendable[rng.Intn(len(spendable))]
		in := wire.NewTxIn(&u.Op, nil, wire.TxWitness{sig, keys[u.Key].Pub})
		in.Sequence = wire.MaxTxInSequenceNum - 2
		tx.AddTxIn(in)
		tx.AddTxOut(wire.NewTxOut(u.Value-int64(1000+n), keys[rng.Intn(len(keys))].P2WPKH))
	} else {
		var op wire.OutPoint
		rng.Read(op.Hash[:])
		tx.AddTxIn(wire.NewTxIn(&op, nil, wire.TxWitness{sig, keys[0].Pub}))
		tx.AddTxOut(wire.NewTxOut(int64(50_000+n), keys[rng.Intn(len(keys))].P2WPKH))
	}
	tx.LockTime = uint32(n+1)<<16 | uint32(rng.Intn(1<<16))
	return tx
}

// ---------------------------------------------------------------------------
// reaction profiles

var l2InvalidClasses = []string{"invalid", "nonstandard", "dup-conflict", "dup-spent"}
var l2OtherClasses = []string{"fee", "dup-in-mempool", "dup-known", "dup-have", "dup-exists", "dup-other", "obsolete", "malformed", "checkpoint"}
var l2DupClasses = []string{"dup-in-mempool", "dup-known", "dup-have", "dup-exists", "dup-other"}

func l2Pick(rng *rand.Rand, s []string) string { return s[rng.Intn(len(s))] }

func l2AnyClass(rng *rand.Rand) string { return l2Classes[rng.Intn(len(l2Classes))].Name }

var l2Profiles = []string{"uniform", "everybody-rejects", "threshold", "never-requesting-rejecters", "duplicate-codes", "late-and-otherhash"}

// l2Script draws the reactions of all peers for one call.
func l2Script(rng *rand.Rand, peers []string, profile string, allowDisconnect bool) map[string]L2Reaction {
	n := len(peers)
	out := make([]L2Reaction, n)
	rejKind := func() string {
		switch rng.Intn(5) {
		case 0:
			return l2NoReqReject
		case 1:
			return l2TwiceReject
		}
		return l2Reject
	}
	accKind := func() string {
		if rng.Intn(4) == 0 {
			return l2Twice
		}
		return l2Accept
	}
	switch profile {
	case "everybody-rejects":
		for i := range out {
			out[i] = L2Reaction{Kind: rejKind(), Class: l2AnyClass(rng)}
		}
		if n > 2 && rng.Intn(3) == 0 {
			out[rng.Intn(n)] = L2Reaction{Kind: l2Silent}
		}
	case "threshold":
		// i of the m reacting peers call it invalid, the others accept or
		// reject for another reason; the rest stay silent.
		m := 2 + rng.Intn(n-1)
		if m > n {
			m = n
		}
		i := (m*6 + 9) / 10 // smallest i with i/m >= 0.6
		i += rng.Intn(3) - 1
		if i < 0 {
			i = 0
		}
		if i > m {
			i = m
		}
		for j := 0; j < n; j++ {
			switch {
			case j < i:
				out[j] = L2Reaction{Kind: rejKind(), Class: l2Pick(rng, l2InvalidClasses)}
			case j < m && rng.Intn(3) == 0:
				out[j] = L2Reaction{Kind: rejKind(), Class: l2Pick(rng, l2OtherClasses)}
			case j < m:
				out[j] = L2Reaction{Kind: accKind()}
			default:
				out[j] = L2Reaction{Kind: l2Silent}
			}
		}
	case "never-requesting-rejecters":
		a := 1 + rng.Intn(n-1)
		b := 1 + rng.Intn(n-a)
		for j := 0; j < n; j++ {
			switch {
			case j < a:
				out[j] = L2Reaction{Kind: accKind()}
			case j < a+b:
				cl := l2Pick(rng, l2InvalidClasses)
				if rng.Intn(3) == 0 {
					cl = l2Pick(rng, l2OtherClasses)
				}
				out[j] = L2Reaction{Kind: l2NoReqReject, Class: cl}
			case rng.Intn(3) == 0:
				out[j] = L2Reaction{Kind: l2Reject, Class: l2AnyClass(rng)}
			default:
				out[j] = L2Reaction{Kind: l2Silent}
			}
		}
	case "duplicate-codes":
		for i := range out {
			switch rng.Intn(5) {
			case 0:
				out[i] = L2Reaction{Kind: accKind()}
			case 1:
				out[i] = L2Reaction{Kind: l2Silent}
			default:
				out[i] = L2Reaction{Kind: rejKind(), Class: l2Pick(rng, l2DupClasses)}
			}
		}
	case "late-and-otherhash":
		for i := range out {
			switch rng.Intn(6) {
			case 0:
				out[i] = L2Reaction{Kind: accKind()}
			case 1:
				out[i] = L2Reaction{Kind: l2Silent}
			case 2:
				out[i] = L2Reaction{Kind: rejKind(), Class: l2AnyClass(rng)}
			case 3:
				out[i] = L2Reaction{Kind: l2OtherHash, Class: l2Pick(rng, l2InvalidClasses)}
			default:
				out[i] = L2Reaction{Kind: l2LateReject, Class: l2Pick(rng, l2InvalidClasses)}
			}
		}
		// A silent peer keeps the query open until BroadcastTimeout, so the
		// late reject arrives while the query still runs.
		out[rng.Intn(n)] = L2Reaction{Kind: l2Silent}
		out[rng.Intn(n)] = L2Reaction{Kind: l2LateReject, Class: l2Pick(rng, l2InvalidClasses)}
	default: // uniform
		for i := range out {
			switch rng.Intn(12) {
			case 0, 1, 2:
				out[i] = L2Reaction{Kind: l2Accept}
			case 3:
				out[i] = L2Reaction{Kind: l2Twice}
			case 4, 5:
				out[i] = L2Reaction{Kind: l2Reject, Class: l2AnyClass(rng)}
			case 6:
				out[i] = L2Reaction{Kind: l2TwiceReject, Class: l2AnyClass(rng)}
			case 7:
				out[i] = L2Reaction{Kind: l2NoReqReject, Class: l2AnyClass(rng)}
			case 8, 9:
				out[i] = L2Reaction{Kind: l2Silent}
			case 10:
				out[i] = L2Reaction{Kind: l2OtherHash, Class: l2AnyClass(rng)}
			default:
				if allowDisconnect {
					out[i] = L2Reaction{Kind: l2Disconnect}
				} else {
					out[i] = L2Reaction{Kind: l2Silent}
				}
			}
		}
	}
	rng.Shuffle(n, func(i, j int) { out[i], out[j] = out[j], out[i] })
	m := map[string]L2Reaction{}
	for i, p := range peers {
		m[p] = out[i]
	}
	return m
}

// ---------------------------------------------------------------------------
// the scenario

type l2Env struct {
	seed  int64
	k     int
	rng   *rand.Rand
	w     *l2.World
	rc    *l2Rec
	res   *l2.Result
	tip   *chaingen.Node
	peers []string
	calls []*l2Call
	views []*L2CallView
	bto   time.Duration
	thr   float32
	ntx   int
	fam   string
	stop  bool // a Stop is part of the scenario: ErrBroadcasterStopped is a legal result
	// skipStop: the scenario found a violation that makes Stop unlikely to
	// return (C17's subject); the child process simply exits.
	skipStop bool
	// startWait overrides awaitRebroadcast's 10 s wait for the round to start
	// (0 = 10 s), for callers that already waited.
	startWait time.Duration
	// hold (co-subscriber family): lets the peers withhold cfilter answers.
	hold *coHold
}

// L2ForeignFixedK is the fixed scenario in which a peer answers the inv with
// a reject naming another transaction before it requests the announced one.
const L2ForeignFixedK = 16

func l2Family(k int) string {
	switch {
	case k == 0:
		return "fixed-noreq-reject"
	case k == 12:
		return "cosub-fixed"
	case k == L2ForeignFixedK:
		return "foreign-first-fixed"
	case k == L2SeqFixedK:
		return "reply-seq-fixed"
	case k == L2SeqFixedK+1, k > L2SeqFixedK+1 && k%8 == 1:
		return "reply-seq"
	case k >= 13 && k <= 15, k >= 16 && k%4 == 3:
		return "cosub"
	case k%4 == 2:
		return "rebroadcast"
	case k%8 == 5:
		return "stop"
	}
	return "verdict"
}

// L2Scenario is scenario k of the L2 part.
func L2Scenario(seed int64, k int, res *l2.Result) {
	rng := rand.New(rand.NewSource(seed*1_000_003 + int64(k)*7919 + 15))
	fam := l2Family(k)
	res.Name = fmt.Sprintf("c15-l2-%d-%s", k, fam)
	res.Fingerprint = "l2/" + fam
	w := l2.NewWorld(l2.Config{Seed: seed*131 + int64(k), Preset: rng.Intn(3)})
	defer w.Cleanup()
	e := &l2Env{seed: seed, k: k, rng: rng, w: w, res: res, fam: fam, thr: neutrino.QueryInvalidTxThreshold}
	e.rc = newL2Rec(w)
	chainLen := 50 + rng.Intn(101)
	if coIsFamily(fam) {
		chainLen = coPlanFor(seed, k).ChainLen
	}
	trunk := w.G.Extend(w.G.Genesis, chainLen, chaingen.PaceNormal)
	e.tip = trunk[len(trunk)-1]
	np := 2 + rng.Intn(5)
	if k == 0 {
		np = 4
	}
	if k == L2ForeignFixedK {
		np = 3
	}
	if k == L2SeqFixedK {
		np = 5
	}
	var cop coPlan
	if coIsFamily(fam) {
		cop = coPlanFor(seed, k)
		np = cop.Peers
	}
	for i := 0; i < np; i++ {
		p := w.AddPeer(e.tip)
		p.OnMsg = e.rc.onMsg
		if coIsFamily(fam) {
			if e.hold == nil {
				e.hold = &coHold{}
			}
			p.Mutate = e.hold.mutate
		}
		e.peers = append(e.peers, p.Addr)
	}
	e.bto = 2 * time.Second
	if fam == "stop" {
		e.bto = 3 * time.Second
	}
	if err := w.StartClient(nil, l2.ClientOpts{BroadcastTimeout: e.bto}); err != nil {
		res.Inconcl("client start failed: " + err.Error())
		return
	}
	defer func() {
		if e.skipStop {
			return
		}
		if ok, _ := w.StopClient(60 * time.Second); !ok && !e.stop {
			res.Inconcl("final Stop did not return within 60 s (C17's subject)")
		}
		e.rc.wg.Wait()
	}()
	if !l2.WaitFor(60*time.Second, func() bool { return w.SyncedTo(e.tip) }) {
		res.Inconcl("initial sync not finished within 60 s")
		return
	}
	if !e.allConnected(20 * time.Second) {
		res.Inconcl("not all peers connected after the initial sync")
		return
	}
	res.Count("l2_scenarios_run", 1)
	res.Count("l2_family_"+fam, 1)

	switch fam {
	case "fixed-noreq-reject":
		e.fixed()
	case "verdict":
		e.verdict()
	case "rebroadcast":
		e.rebroadcast()
	case "stop":
		e.stopInFlight()
	case "cosub", "cosub-fixed":
		e.coSubscribers(cop)
	case "foreign-first-fixed":
		e.foreignFirst()
	case "reply-seq-fixed":
		e.replySeqFixed()
	case "reply-seq":
		e.replySeq()
	}
	e.finish()
}

func (e *l2Env) allConnected(d time.Duration) bool {
	return l2.WaitFor(d, func() bool {
		if int(e.w.Svc.ConnectedCount()) < len(e.w.Peers) {
			return false
		}
		for _, p := range e.w.Peers {
			if !p.IsReady() {
				return false
			}
		}
		return true
	})
}

func (e *l2Env) newCall(script map[string]L2Reaction, profile, conc string) *l2Call {
	tx := l2MakeTx(e.w, e.tip, e.rng, e.ntx)
	e.ntx++
	c := &l2Call{Idx: len(e.calls), Tx: tx, Hash: tx.TxHash(), Script: script, Profile: profile, Concurrency: conc}
	e.calls = append(e.calls, c)
	return c
}

// callBudget is a generous watchdog for n queued calls (the broadcaster runs
// them one after the other, each bounded by BroadcastTimeout).
func (e *l2Env) callBudget(n int) time.Duration { return 30*time.Second + time.Duration(n)*e.bto }

func (e *l2Env) awaitCalls(cs ...*l2Call) bool {
	ok := true
	for _, c := range cs {
		if !c.wait(e.callBudget(len(cs))) {
			e.res.Inconcl("SendTransaction did not return within its watchdog")
			ok = false
		}
	}
	return ok
}

func (e *l2Env) fixed() {
	// Exactly one peer requests and accepts, one other rejects as invalid
	// WITHOUT ever requesting, the rest stay silent. The verdict is not
	// hard-coded: the general oracle decides.
	s := map[string]L2Reaction{}
	for i, p := range e.peers {
		switch i {
		case 0:
			s[p] = L2Reaction{Kind: l2Accept}
		case 1:
			s[p] = L2Reaction{Kind: l2NoReqReject, Class: "invalid"}
		default:
			s[p] = L2Reaction{Kind: l2Silent}
		}
	}
	c := e.newCall(s, "fixed", "alone")
	e.rc.run(c)
	e.awaitCalls(c)
	// Two more fixed shapes of the same arithmetic: two peers accept and two
	// reject as invalid without requesting (invalid share 2/4); one accepts
	// and one rejects without requesting for a reason other than invalid.
	s2 := map[string]L2Reaction{}
	for i, p := range e.peers {
		if i < 2 {
			s2[p] = L2Reaction{Kind: l2Accept}
		} else {
			s2[p] = L2Reaction{Kind: l2NoReqReject, Class: "invalid"}
		}
	}
	c2 := e.newCall(s2, "fixed", "alone")
	e.rc.run(c2)
	e.awaitCalls(c2)
	s3 := map[string]L2Reaction{}
	for i, p := range e.peers {
		switch i {
		case 0:
			s3[p] = L2Reaction{Kind: l2Accept}
		case 1:
			s3[p] = L2Reaction{Kind: l2NoReqReject, Class: "fee"}
		default:
			s3[p] = L2Reaction{Kind: l2Silent}
		}
	}
	c3 := e.newCall(s3, "fixed", "alone")
	e.rc.run(c3)
	e.awaitCalls(c3)
	// Further fixed shapes, one per clause of the verdict rule, so that each
	// clause is exercised in every run whatever the seed draws:
	fixedShapes := [][]L2Reaction{
		// nobody reacts at all: no failure allowed;
		{{Kind: l2Silent}, {Kind: l2Silent}, {Kind: l2Silent}, {Kind: l2Silent}},
		// two of three requesters say "already in mempool", nobody says
		// invalid: no failure allowed;
		{{Kind: l2Accept}, {Kind: l2Reject, Class: "dup-in-mempool"}, {Kind: l2Reject, Class: "dup-have"}, {Kind: l2Silent}},
		// rejects naming another transaction must be ignored;
		{{Kind: l2OtherHash, Class: "invalid"}, {Kind: l2OtherHash, Class: "nonstandard"}, {Kind: l2Silent}, {Kind: l2Silent}},
		// rejects after the reject window must be ignored (the silent peers
		// keep the query open until BroadcastTimeout);
		{{Kind: l2LateReject, Class: "invalid"}, {Kind: l2Silent}, {Kind: l2Silent}, {Kind: l2LateReject, Class: "dup-conflict"}},
		// invalid share 2/4 below the threshold, 3/4 above it;
		{{Kind: l2Accept}, {Kind: l2Reject, Class: "invalid"}, {Kind: l2TwiceReject, Class: "dup-spent"}, {Kind: l2Twice}},
		{{Kind: l2Accept}, {Kind: l2Reject, Class: "invalid"}, {Kind: l2Reject, Class: "nonstandard"}, {Kind: l2Reject, Class: "dup-conflict"}},
		// everybody rejects, for different reasons.
		{{Kind: l2Reject, Class: "fee"}, {Kind: l2Reject, Class: "invalid"}, {Kind: l2Reject, Class: "fee"}, {Kind: l2NoReqReject, Class: "dup-known"}},
	}
	for _, sh := range fixedShapes {
		sc := map[string]L2Reaction{}
		for i, p := range e.peers {
			sc[p] = sh[i%len(sh)]
		}
		c := e.newCall(sc, "fixed", "alone")
		e.rc.run(c)
		if !e.awaitCalls(c) {
			return
		}
	}
}

// foreignFirst (fixed structure, seeded delays): a peer answers the client's
// inv with a reject that names ANOTHER transaction (a previously broadcast one
// or a hash nobody has) and only 30-100 ms later requests the announced
// transaction. Such a reject says nothing about the announced transaction: the
// peer's request and its own later verdict count like anybody's.
//
//	warm-up  everybody requests and accepts (gives "the previous transaction");
//	shape 1  A: foreign reject, then requests and accepts; B requests (after A)
//	         and rejects as invalid; C silent or rejects for a non-invalid
//	         reason without requesting: invalid share 1/2 or 1/3, A accepted;
//	shape 2  A: foreign reject, then requests and rejects as invalid; B, C
//	         silent: the only replying peer rejected;
//	shape 3  A: foreign reject, then requests and accepts; B accepts; C silent
//	         or "already in mempool" without requesting;
//	then one block: what was accepted is announced again to every peer, what
//	failed never is.
//
// Nothing is hard-coded: the general oracle judges every call.
func (e *l2Env) foreignFirst() {
	A, B, C := e.peers[0], e.peers[1], e.peers[2]
	delay := func() int { return 30 + e.rng.Intn(71) }
	foreign := func() string {
		if e.rng.Intn(2) == 0 {
			return "prev"
		}
		return "random"
	}
	do := func(s map[string]L2Reaction, profile string) bool {
		c := e.newCall(s, profile, "alone")
		e.rc.run(c)
		return e.awaitCalls(c)
	}
	if !do(map[string]L2Reaction{A: {Kind: l2Accept}, B: {Kind: l2Accept}, C: {Kind: l2Accept}}, "foreign-warmup") {
		return
	}
	d1 := delay()
	third := L2Reaction{Kind: l2Silent}
	if e.rng.Intn(2) == 0 {
		third = L2Reaction{Kind: l2NoReqReject, Class: "fee"}
	}
	if !do(map[string]L2Reaction{
		A: {Kind: l2ForeignAccept, DelayMs: d1, Foreign: foreign()},
		B: {Kind: l2Reject, Class: l2Pick(e.rng, l2InvalidClasses), DelayMs: d1 + 40 + e.rng.Intn(60)},
		C: third}, "foreign-first-accept-vs-invalid") {
		return
	}
	if !do(map[string]L2Reaction{
		A: {Kind: l2ForeignReject, Class: l2Pick(e.rng, l2InvalidClasses), DelayMs: delay(), Foreign: foreign()},
		B: {Kind: l2Silent}, C: {Kind: l2Silent}}, "foreign-first-only-peer-rejects") {
		return
	}
	third = L2Reaction{Kind: l2Silent}
	if e.rng.Intn(2) == 0 {
		third = L2Reaction{Kind: l2NoReqReject, Class: "dup-in-mempool"}
	}
	if !do(map[string]L2Reaction{
		A: {Kind: l2ForeignAccept, DelayMs: delay(), Foreign: foreign()},
		B: {Kind: l2Accept, DelayMs: e.rng.Intn(50)},
		C: third}, "foreign-first-accept") {
		return
	}
	var acc, rej []*l2Call
	for _, c := range e.calls {
		if c.Err == nil {
			acc = append(acc, c)
		} else {
			rej = append(rej, c)
		}
	}
	if !e.settle() {
		e.res.Inconcl("network never at rest before the next block")
		return
	}
	seq, ok := e.announce()
	if !ok {
		return
	}
	missed, conclusive := e.awaitRebroadcast(seq, acc)
	if len(missed) > 0 && conclusive {
		// as in the rebroadcast family: only a second block event, issued
		// while the client is provably at rest, makes a miss a violation.
		e.res.Count("l2_rebroadcast_second_trigger", 1)
		seq2, ok := e.announce()
		if !ok {
			return
		}
		missed2, conclusive2 := e.awaitRebroadcast(seq2, missed)
		for _, c := range missed2 {
			if !conclusive2 {
				break
			}
			miss := e.missingPeers(c, seq2)
			e.res.Violate(evid.Sig("c15/l2/no-rebroadcast-after-block", "accepted-after-reject-for-other-hash"),
				fmt.Sprintf("SendTransaction(%s) returned nil; two consecutive blocks not containing it were announced by every peer and reported by the client as best block "+
					"while the network was at rest, but %d of %d connected peers received no new inv for it after either, and the network then stood still for 5 s",
					c.Hash.String()[:12], len(miss), len(e.peers)),
				e.witness(c, map[string]any{"peers_without_inv": miss, "announce_seqs": []int64{seq, seq2}}))
		}
	}
	e.settle()
	e.rejectedNeverAgain(rej)
}

func (e *l2Env) verdict() {
	n := 5 + e.rng.Intn(4)
	for issued := 0; issued < n; {
		group := 1
		if e.rng.Intn(3) == 0 {
			group = 2 + e.rng.Intn(2)
		}
		if group > n-issued {
			group = n - issued
		}
		var cs []*l2Call
		for g := 0; g < group; g++ {
			prof := l2Profiles[e.rng.Intn(len(l2Profiles))]
			conc := "alone"
			if group > 1 {
				conc = "with-calls"
			}
			cs = append(cs, e.newCall(l2Script(e.rng, e.peers, prof, true), prof, conc))
		}
		for _, c := range cs {
			e.rc.run(c)
		}
		if !e.awaitCalls(cs...) {
			return
		}
		issued += group
		// Peers that closed their connection are redialled by the client;
		// the next call should see them again (the oracle does not depend on
		// it: a peer that gets no inv is a silent peer).
		e.allConnected(5 * time.Second)
	}
}

// benign scripts for the rebroadcast family: what the peers do is repeated on
// every rebroadcast of the same transaction.
func (e *l2Env) scriptAccepted() map[string]L2Reaction {
	s := map[string]L2Reaction{}
	for i, p := range e.peers {
		switch {
		case i == 0:
			s[p] = L2Reaction{Kind: l2Accept}
		case e.rng.Intn(4) == 0:
			s[p] = L2Reaction{Kind: l2Silent}
		case e.rng.Intn(4) == 0:
			s[p] = L2Reaction{Kind: l2Twice}
		default:
			s[p] = L2Reaction{Kind: l2Accept}
		}
	}
	return s
}

func (e *l2Env) scriptMempool() map[string]L2Reaction {
	s := map[string]L2Reaction{}
	for _, p := range e.peers {
		cl := "dup-in-mempool"
		if e.rng.Intn(2) == 0 {
			cl = "dup-have"
		}
		s[p] = L2Reaction{Kind: l2Reject, Class: cl}
	}
	return s
}

func (e *l2Env) scriptRejected() map[string]L2Reaction {
	s := map[string]L2Reaction{}
	for _, p := range e.peers {
		s[p] = L2Reaction{Kind: l2Reject, Class: l2Pick(e.rng, l2InvalidClasses)}
	}
	return s
}

// announce extends the honest chain by one block (which cannot contain any of
// the harness's transactions) and lets every peer announce it.
func (e *l2Env) announce() (int64, bool) {
	ext := e.w.G.Extend(e.tip, 1, 0)
	nt := ext[0]
	for _, p := range e.w.Peers {
		p.View.SetTip(nt)
	}
	ev := e.rc.note("", "block-announce", nil, "", fmt.Sprintf("height %d", nt.Height))
	byInv := e.rng.Intn(2) == 0
	for _, p := range e.w.Peers {
		if byInv {
			p.AnnounceInv(nt)
		} else {
			p.AnnounceHeaders(nt)
		}
	}
	e.tip = nt
	e.res.Count("l2_blocks_announced", 1)
	if !l2.WaitFor(45*time.Second, func() bool { return e.w.SyncedTo(nt) }) {
		e.res.Inconcl("the client did not report the announced block within 45 s (C04's subject)")
		return ev.Seq, false
	}
	return ev.Seq, true
}

// invSeen reports which peers received an inv for tx after seq.
func (e *l2Env) invSeen(tx chainhash.Hash, after int64) map[string]bool {
	out := map[string]bool{}
	txs := tx.String()
	for _, ev := range e.rc.snapshot() {
		if ev.Seq > after && ev.What == "rx-inv" && ev.Tx == txs {
			out[ev.Peer] = true
		}
	}
	return out
}

// idleFor reports whether the event log stood still for d.
func (e *l2Env) idleFor(d time.Duration) bool {
	n := e.w.Log.Len()
	time.Sleep(d)
	return e.w.Log.Len() == n
}

// awaitRebroadcast waits until every peer received a new inv (after seq) for
// every transaction in want. It returns the transactions some peer did not
// get one for, and whether that miss is conclusive: all peers connected and
// the event log at rest for 5 s afterwards (longer than BroadcastTimeout, the
// longest pause inside a running rebroadcast round: no round is running).
func (e *l2Env) awaitRebroadcast(seq int64, want []*l2Call) (missed []*l2Call, conclusive bool) {
	all := func(c *l2Call) bool { return len(e.invSeen(c.Hash, seq)) == len(e.peers) }
	e.res.Count("l2_rebroadcast_expectations", int64(len(want)))
	// The round has to start: some pending transaction is announced within
	// 10 s of the client reporting the block. Its transactions are then sent
	// one after the other, each query bounded by BroadcastTimeout.
	sw := 10 * time.Second
	if e.startWait > 0 {
		sw = e.startWait
	}
	started := l2.WaitFor(sw, func() bool {
		for _, c := range want {
			if len(e.invSeen(c.Hash, seq)) > 0 {
				return true
			}
		}
		return false
	})
	if started {
		l2.WaitFor(5*time.Second+time.Duration(len(want))*e.bto, func() bool {
			for _, c := range want {
				if !all(c) {
					return false
				}
			}
			return true
		})
	}
	for _, c := range want {
		if all(c) {
			e.res.Count("l2_rebroadcast_seen_by_all_peers", 1)
		} else {
			missed = append(missed, c)
		}
	}
	if len(missed) == 0 {
		return nil, true
	}
	if int(e.w.Svc.ConnectedCount()) < len(e.peers) {
		e.res.Inconcl("rebroadcast missed by a peer while not all peers were connected")
		return missed, false
	}
	if !e.idleFor(5 * time.Second) {
		e.res.Inconcl("rebroadcast not seen within its bound while the client was still exchanging messages")
		return missed, false
	}
	var still []*l2Call
	for _, c := range missed {
		if all(c) {
			e.res.Count("l2_rebroadcast_seen_by_all_peers", 1)
		} else {
			still = append(still, c)
		}
	}
	return still, true
}

// settle waits until the event log has been at rest for longer than
// BroadcastTimeout (so no rebroadcast round is running: a block event arriving
// during a round starts none, by design).
func (e *l2Env) settle() bool {
	for i := 0; i < 8; i++ {
		if e.idleFor(e.bto + time.Second) {
			return true
		}
	}
	return false
}

func (e *l2Env) missingPeers(c *l2Call, seq int64) []string {
	seen := e.invSeen(c.Hash, seq)
	var missing []string
	for _, p := range e.peers {
		if !seen[p] {
			missing = append(missing, p)
		}
	}
	return missing
}

// viewOf returns what the oracle derived for a call that has returned (nil
// while it is still running).
func (e *l2Env) viewOf(c *l2Call) *L2CallView {
	for _, v := range e.views {
		if v.Call == c.Idx {
			return v
		}
	}
	select {
	case <-c.done:
	default:
		return nil
	}
	v := l2Observe(e.rc.snapshot(), c, e.peers, e.rc.window, e.thr)
	e.views = append(e.views, v)
	return v
}

func (e *l2Env) rebroadcast() {
	// 2-4 transactions: at least one accepted, one already in the peers'
	// mempools, one rejected by everybody.
	kinds := []string{"accepted", "rejected", "mempool"}
	for len(kinds) < 2+e.rng.Intn(3) {
		kinds = append(kinds, []string{"accepted", "rejected", "mempool"}[e.rng.Intn(3)])
	}
	e.rng.Shuffle(len(kinds), func(i, j int) { kinds[i], kinds[j] = kinds[j], kinds[i] })
	for _, kd := range kinds {
		var s map[string]L2Reaction
		switch kd {
		case "accepted":
			s = e.scriptAccepted()
		case "mempool":
			s = e.scriptMempool()
		default:
			s = e.scriptRejected()
		}
		c := e.newCall(s, "rebroadcast-"+kd, "alone")
		e.rc.run(c)
		if !e.awaitCalls(c) {
			return
		}
	}
	pending := func() (acc, rej []*l2Call) {
		for _, c := range e.calls {
			select {
			case <-c.done:
			default:
				continue
			}
			if c.Err == nil {
				acc = append(acc, c)
			} else {
				rej = append(rej, c)
			}
		}
		return
	}
	for round := 1; round <= 2; round++ {
		acc, _ := pending()
		// Block events still queued from the initial sync start rounds of
		// their own as soon as a transaction is pending, and a block event
		// that arrives while a round is running starts none (by design):
		// announce only when the network has been at rest for longer than
		// BroadcastTimeout.
		if !e.settle() {
			e.res.Inconcl("network never at rest before the next block")
			return
		}
		seq, ok := e.announce()
		if !ok {
			return
		}
		var racer *l2Call
		if round == 1 && len(acc) > 0 {
			// A further SendTransaction racing the rebroadcast round: the
			// only way two sendTransaction queries of the client overlap.
			l2.WaitFor(5*time.Second, func() bool {
				for _, c := range acc {
					if len(e.invSeen(c.Hash, seq)) > 0 {
						return true
					}
				}
				return false
			})
			prof := l2Profiles[e.rng.Intn(len(l2Profiles)-1)] // not the late profile: its late rejects would fall into later rounds
			racer = e.newCall(l2Script(e.rng, e.peers, prof, false), prof, "with-rebroadcast")
			e.rc.run(racer)
		}
		missed, conclusive := e.awaitRebroadcast(seq, acc)
		if racer != nil && !e.awaitCalls(racer) {
			return
		}
		if len(missed) > 0 && conclusive {
			// A missing round is only a violation if a second block event,
			// issued while the client is provably at rest, produces none
			// either.
			e.res.Count("l2_rebroadcast_second_trigger", 1)
			if os.Getenv("VERIF_L2_DUMP") != "" {
				for _, c := range missed {
					fmt.Fprintf(os.Stderr, "MISS round %d tx %s missing=%v connected=%d\n", round, c.Hash.String()[:8], e.missingPeers(c, seq), e.w.Svc.ConnectedCount())
				}
				for _, l := range e.w.Log.Tail(150) {
					fmt.Fprintln(os.Stderr, l)
				}
			}
			seq2, ok := e.announce()
			if !ok {
				return
			}
			missed2, conclusive2 := e.awaitRebroadcast(seq2, missed)
			for _, c := range missed2 {
				if !conclusive2 {
					break
				}
				how := "mempool-duplicate"
				if v := e.viewOf(c); v != nil && len(v.Rejected) == 0 {
					how = "accepted"
				}
				miss := e.missingPeers(c, seq2)
				e.res.Violate(evid.Sig("c15/l2/no-rebroadcast-after-block", how),
					fmt.Sprintf("SendTransaction(%s) returned nil; two consecutive blocks not containing it were announced by every peer and reported by the client as best block "+
						"while the network was at rest, but %d of %d connected peers received no new inv for it after either, and the network then stood still for 5 s",
						c.Hash.String()[:12], len(miss), len(e.peers)),
					e.witness(c, map[string]any{"peers_without_inv": miss, "announce_seqs": []int64{seq, seq2}}))
			}
		}
	}
	// Let the last round finish before the "never again" check: every
	// pending transaction of the round has been announced; wait until the
	// log stands still.
	e.settle()
	_, rej := pending()
	e.rejectedNeverAgain(rej)
}

// rejectedNeverAgain: a transaction whose SendTransaction returned an error
// must not have been announced after any block that followed the call.
func (e *l2Env) rejectedNeverAgain(rej []*l2Call) {
	for _, c := range rej {
		// Only announcements after a block that followed the call's return
		// count (the invs of the call itself are all older than that).
		after := int64(-1)
		for _, ev := range e.rc.snapshot() {
			if ev.What == "block-announce" && ev.Seq > c.RetSeq {
				after = ev.Seq
				break
			}
		}
		if after < 0 {
			continue
		}
		e.res.Count("l2_rejected_tx_watched", 1)
		if seen := e.invSeen(c.Hash, after); len(seen) > 0 {
			var ps []string
			for p := range seen {
				ps = append(ps, p)
			}
			sort.Strings(ps)
			e.res.Violate(evid.Sig("c15/l2/rejected-tx-rebroadcast", c.Profile),
				fmt.Sprintf("SendTransaction(%s) returned the error %q, yet the transaction was announced again to %d peers after a later block",
					c.Hash.String()[:12], c.Err, len(ps)), e.witness(c, map[string]any{"peers_with_new_inv": ps}))
		}
	}
}

// stopInFlight: Stop with a SendTransaction (or a rebroadcast round) in
// flight.
func (e *l2Env) stopInFlight() {
	e.stop = true
	variant := "send-in-flight"
	if e.rng.Intn(2) == 0 {
		variant = "rebroadcast-in-flight"
	}
	e.res.Fingerprint += "/" + variant
	slow := map[string]L2Reaction{}
	for i, p := range e.peers {
		if i == 0 {
			slow[p] = L2Reaction{Kind: l2Accept}
		} else {
			slow[p] = L2Reaction{Kind: l2Silent}
		}
	}
	var inflight *l2Call
	if variant == "rebroadcast-in-flight" {
		c := e.newCall(slow, "stop-setup", "alone")
		e.rc.run(c)
		if !e.awaitCalls(c) {
			return
		}
		e.settle()
		seq, ok := e.announce()
		if !ok {
			return
		}
		if c.Err == nil && !l2.WaitFor(15*time.Second, func() bool { return len(e.invSeen(c.Hash, seq)) > 0 }) {
			e.res.Inconcl("rebroadcast round did not start before Stop")
		}
	}
	inflight = e.newCall(slow, "stop-inflight", "with-stop")
	e.rc.run(inflight)
	if !l2.WaitFor(10*time.Second, func() bool { return len(e.invSeen(inflight.Hash, inflight.StartSeq)) > 0 }) &&
		variant == "send-in-flight" {
		e.res.Inconcl("SendTransaction not in flight before Stop")
	}
	time.Sleep(time.Duration(e.rng.Intn(200)) * time.Millisecond)
	e.rc.note("", "stop-called", nil, "", variant)
	stopDone := make(chan struct{})
	go func() {
		_, _ = e.w.StopService(10 * time.Minute)
		close(stopDone)
	}()
	e.res.Count("l2_stop_with_call_in_flight", 1)
	e.res.Nontrivial = true
	if !l2WaitChan(stopDone, 40*time.Second) {
		if stuck, why, census := e.blocked(stopDone); stuck {
			e.res.Violate(evid.Sig("c15/l2/stop-never-returns", variant),
				"Stop with a broadcast in flight did not return within 40 s: "+why, map[string]any{"client_goroutines": census, "event_log_tail": e.w.Log.Tail(40)})
			return
		}
		if !l2WaitChan(stopDone, 60*time.Second) {
			e.res.Inconcl("Stop did not return within 100 s but the process was still moving")
			return
		}
	}
	e.rc.note("", "stop-returned", nil, "", "")
	e.w.CloseDB()
	if !l2WaitChan(inflight.done, 15*time.Second) {
		if stuck, why, census := e.blocked(inflight.done); stuck {
			e.res.Violate(evid.Sig("c15/l2/send-never-returns-after-stop", variant),
				"a SendTransaction in flight when Stop was called had not returned 15 s after Stop returned: "+why,
				map[string]any{"client_goroutines": census, "event_log_tail": e.w.Log.Tail(40)})
		} else {
			e.res.Inconcl("call in flight at Stop did not return within 15 s but the process was still moving")
		}
		return
	}
	e.res.Count("l2_inflight_call_returned_after_stop", 1)
	// One more call after Stop returned: it must return.
	after := e.newCall(slow, "after-stop", "with-stop")
	e.rc.run(after)
	if !l2WaitChan(after.done, 15*time.Second) {
		if stuck, why, census := e.blocked(after.done); stuck {
			e.res.Violate(evid.Sig("c15/l2/send-never-returns-after-stop", "called-after-stop"),
				"a SendTransaction issued after Stop returned did not return within 15 s: "+why,
				map[string]any{"client_goroutines": census})
		} else {
			e.res.Inconcl("call after Stop did not return within 15 s but the process was still moving")
		}
		return
	}
	e.res.Count("l2_call_after_stop_returned", 1)
}

func l2WaitChan(ch <-chan struct{}, d time.Duration) bool {
	select {
	case <-ch:
		return true
	case <-time.After(d):
		return false
	}
}

// blocked is the goroutine-level argument: three dumps two seconds apart show
// every goroutine running client code parked in identical frames, none
// runnable, none created or ended, and the network log did not move.
func (e *l2Env) blocked(done <-chan struct{}) (bool, string, []string) {
	self := c17.CurGID()
	n0 := e.w.Log.Len()
	a := c17.ParseDump(c17.DumpAll())
	prev := a
	for i := 0; i < 2; i++ {
		if l2WaitChan(done, 2*time.Second) {
			return false, "returned during the observation", nil
		}
		b := c17.ParseDump(c17.DumpAll())
		if why := c17.Progress(prev, b, self); why != "" {
			return false, why, nil
		}
		prev = b
	}
	if e.w.Log.Len() != n0 {
		return false, "network events during the observation", nil
	}
	return true, "three goroutine dumps 2 s apart show every goroutine running client code parked in the same frames, none runnable, none new or ended, and no message was exchanged with any peer",
		c17.CensusList(a)
}

// ---------------------------------------------------------------------------
// evaluation of all calls of the scenario

func (e *l2Env) witness(c *l2Call, extra map[string]any) map[string]any {
	w := map[string]any{"seed": e.seed, "scenario": e.k, "family": e.fam, "peers": e.peers,
		"broadcast_timeout_ms": e.bto.Milliseconds(), "reject_window_ms": e.rc.window.Milliseconds(), "threshold": e.thr}
	if c != nil {
		w["call"] = e.viewOf(c)
		var evs []l2Ev
		txs := c.Hash.String()
		for _, ev := range e.rc.snapshot() {
			if ev.Tx == txs || ev.What == "block-announce" || ev.What == "stop-called" || ev.What == "stop-returned" {
				evs = append(evs, ev)
			}
		}
		w["events_of_this_tx"] = evs
	}
	for k, v := range extra {
		w[k] = v
	}
	return w
}

func (e *l2Env) finish() {
	evs := e.rc.snapshot()
	res := e.res
	var shapes []string
	for _, c := range e.calls {
		v := e.viewOf(c)
		if v == nil {
			continue
		}
		res.Count("l2_calls_returned", 1)
		res.Count("l2_calls_"+c.Concurrency, 1)
		for _, r := range c.Script {
			res.Count("l2_scripted_"+r.Kind, 1)
			if r.Kind == l2Seq {
				res.Count("l2_scripted_seq_"+r.Tmpl, 1)
			}
			if r.Class != "" {
				res.Count("l2_scripted_class_"+r.Class, 1)
			}
		}
		if c.Err != nil && errors.Is(c.Err, pushtx.ErrBroadcasterStopped) {
			res.Count("l2_calls_returned_broadcaster_stopped", 1)
			if !e.stop {
				res.Violate(evid.Sig("c15/l2/broadcaster-stopped-without-stop"),
					"SendTransaction returned ErrBroadcasterStopped although Stop was never called", e.witness(c, nil))
			}
			continue
		}
		if v.Unclear != "" {
			res.Count("l2_calls_inconclusive_timing", 1)
			res.Inconcl("a reject fell between 'clearly in time' and 'clearly late'")
			continue
		}
		res.Count("l2_calls_evaluated", 1)
		if !e.stop {
			clear, close := l2Unserved(evs, c, e.peers, 4*e.rc.window)
			res.Count("l2_requests_checked_for_delivery", int64(len(v.Requested)))
			res.Count("l2_counted_only_request_unserved_close_to_return", int64(len(close)))
			if len(clear) > 0 {
				res.Violate(evid.Sig("c15/l2/requested-tx-never-sent", v.Shape),
					fmt.Sprintf("SendTransaction(%s): peers %v requested the transaction (getdata written %v or more before the call returned, no reject of it from them before) "+
						"and were never sent it; what they would have answered was not counted (returned: %q)", v.Tx, clear, 4*e.rc.window, v.Err),
					e.witness(c, map[string]any{"peers_requested_but_never_sent": clear}))
			}
		}
		for p, o := range v.Observed {
			if strings.Contains(o, "after-reject-for-other-hash") || (c.Script[p].Kind == l2ForeignReject && strings.HasPrefix(o, "req-reject")) {
				res.Count("l2_foreign_first_peers_judged", 1)
			}
		}
		res.Count("l2_getdata_peers", int64(len(v.Requested)))
		res.Count("l2_rejecting_peers_in_time", int64(len(v.Rejected)))
		if v.Replying > 0 {
			res.Nontrivial = true
			res.Count("l2_calls_with_replies", 1)
		}
		for _, o := range v.Observed {
			res.Count("l2_observed_"+strings.NewReplacer("(", "_", ")", "", ":", "_").Replace(o), 1)
		}
		fp := "l2/" + e.fam + "/" + l2Fine(v)
		res.Mark(fp)
		shapes = append(shapes, l2Fine(v))
		if v.FailAllow {
			res.Count("l2_calls_failure_allowed", 1)
		}
		if len(v.Repeated) > 0 {
			res.Count("l2_calls_with_a_peer_rejecting_repeatedly", 1)
			res.Count("l2_peers_rejecting_repeatedly_judged", int64(len(v.Repeated)))
			if !v.FailAllowAny {
				res.Count("l2_calls_repeated_rejects_failure_not_allowed", 1)
			}
		}
		if len(v.DupGetdata) > 0 {
			res.Count("l2_peers_requesting_repeatedly_judged", int64(len(v.DupGetdata)))
		}
		switch {
		case c.Err != nil && !v.FailAllow && v.FailAllowAny:
			// Only a peer that changed its mind (a non-invalid reject first, an
			// invalid one later, both in time) makes the failure allowed: the
			// statement does not say which of a peer's answers is its vote.
			res.Count("l2_counted_only_failure_allowed_only_by_a_peers_later_reject", 1)
		case c.Err != nil && !v.FailAllow:
			res.Count("l2_forbidden_failures", 1)
			res.Violate(evid.Sig("c15/l2/broadcast-failed-though-accepted", v.Shape),
				fmt.Sprintf("SendTransaction(%s) returned the error %q, but of the %d peers that replied in time (requested: %v; rejected: %v) not every one rejected, "+
					"and the share calling it invalid is %d/%d = %.2f < %.2f", v.Tx, c.Err, v.Replying, v.Requested, v.Rejected,
					len(v.Invalid), v.Replying, v.InvShare, v.Threshold)+l2RepeatedNote(v),
				e.witness(c, nil))
		case c.Err != nil:
			res.Count("l2_allowed_failures", 1)
			be, ok := c.Err.(*pushtx.BroadcastError)
			sent := map[pushtx.BroadcastErrorCode]int{}
			for p, o := range v.Observed {
				if strings.Contains(o, "-reject:") {
					// one count per peer and meaning, whatever the number of
					// rejects the peer wrote
					seen := map[pushtx.BroadcastErrorCode]bool{}
					for _, cl := range v.RejectsWritten[p] {
						if w := l2ClassByName(cl).Want; !seen[w] {
							seen[w] = true
							sent[w]++
						}
					}
				}
			}
			switch {
			case !ok:
				res.Violate(evid.Sig("c15/l2/error-not-a-broadcast-error", v.Shape),
					fmt.Sprintf("SendTransaction(%s) failed (allowed: every replying peer rejected or the invalid share reached the threshold) with %q, which is not a *pushtx.BroadcastError",
						v.Tx, c.Err), e.witness(c, nil))
			case sent[be.Code] == 0:
				res.Violate(evid.Sig("c15/l2/error-code-nobody-sent", v.Shape, be.Code.String()),
					fmt.Sprintf("SendTransaction(%s) failed with code %v, but no peer's in-time reject means %v (codes sent: %v)", v.Tx, be.Code, be.Code, sent),
					e.witness(c, nil))
			default:
				most := 0
				for _, n := range sent {
					if n > most {
						most = n
					}
				}
				if v.AllReject && sent[be.Code] < most {
					res.Count("l2_counted_only_error_code_not_most_frequent", 1)
				}
				res.Count("l2_error_code_"+be.Code.String(), 1)
			}
		case v.AllReject && len(v.Requested) > 0:
			// Success although every replying peer rejected: the statement
			// says "fails only if", it does not demand failure.
			onlyMempool := true
			for p, o := range v.Observed {
				if strings.Contains(o, "-reject:") {
					for _, cl := range v.RejectsWritten[p] {
						if l2ClassByName(cl).Want != pushtx.Mempool {
							onlyMempool = false
						}
					}
				}
			}
			if onlyMempool {
				res.Count("l2_success_all_rejected_as_mempool_duplicate", 1)
			} else {
				res.Count("l2_counted_only_success_despite_unanimous_rejection", 1)
			}
		case v.FailAllow:
			res.Count("l2_counted_only_success_where_failure_was_allowed", 1)
		default:
			res.Count("l2_success_as_required", 1)
		}
	}
	res.Count("l2_events_recorded", int64(len(evs)))
	res.Count("l2_network_events", e.w.Log.Len())
	sort.Strings(shapes)
	if os.Getenv("VERIF_L2_DUMP") != "" {
		res.Sample = map[string]any{"l2_scenario": e.k, "family": e.fam, "calls": e.views}
	} else if len(e.views) > 0 && (e.k < 3 || e.k%37 == 0) {
		n := len(e.views)
		if n > 4 {
			n = 4
		}
		res.Sample = map[string]any{"l2_scenario": e.k, "family": e.fam, "peers": len(e.peers), "calls": e.views[:n]}
	}
}

// l2RepeatedNote names the peers that wrote more than one reject of the
// transaction during the call (each of them has one vote).
func l2RepeatedNote(v *L2CallView) string {
	if len(v.Repeated) == 0 {
		return ""
	}
	return fmt.Sprintf(" (one vote per peer; %v wrote their reject more than once: %v)", v.Repeated, v.RejectsWritten)
}
