package c15

import (
	"fmt"
	"math"
	"sort"
)

// Event is one entry of the harness-serialised history. Seq is assigned under
// a single mutex, so the log is a total order consistent with real time:
// a "call"/"start" event is logged before the real operation begins, a
// "ret"/"done" event after it completed.
type Event struct {
	Seq     int64   `json:"seq"`
	Kind    string  `json:"kind"`
	Op      int     `json:"op,omitempty"`
	Tx      int     `json:"tx"`
	Gid     int64   `json:"gid,omitempty"`
	Initial bool    `json:"initial,omitempty"`
	Out     Outcome `json:"out,omitempty"`
	Res     string  `json:"res,omitempty"`
}

// Finding is one oracle violation.
type Finding struct {
	Sig    string `json:"sig"`
	What   string `json:"what"`
	Detail any    `json:"detail,omitempty"`
}

// Entry is one callback invocation inside a rebroadcast round.
type Entry struct {
	Tx          int     `json:"tx"`
	Enter, Exit int64   // Exit 0 = still inside
	Out         Outcome `json:"out"`
}

// Round is the run of callback invocations made by one rebroadcast goroutine.
type Round struct {
	Idx     int
	Gid     int64
	Entries []Entry
	First   int64 // first cb_enter
	Last    int64 // last cb_exit (0 if none yet)
	Open    bool  // an invocation has not returned
}

// Trig is one block event handed to the broadcaster.
type Trig struct {
	Op      int
	Start   int64
	Done    int64 // 0 = never accepted
	Aborted bool
}

const inf = math.MaxInt64

// span is the interval (in doubled sequence numbers) within which the
// handler's pending-set mutation took effect.
type span struct {
	lo, hi int64 // hi = inf when unknown
	sure   bool  // add: Broadcast returned nil; removal: documented removal
	round  int   // removal reported from inside this round (-1 otherwise)
	src    string
	// ann (adds only): when the callback of the initial broadcast was
	// entered, i.e. the announcement to the network started (0: unknown).
	ann int64
}

// window is the interval within which a round's snapshot of the pending set
// was taken; ridx is the number of rounds known to have completely finished
// before it.
type window struct {
	lo, hi int64
	ridx   int
}

// Analysis is the structured view of a history.
type Analysis struct {
	sp          *Spec
	adds        [][]span
	rems        [][]span
	Rounds      []*Round
	Trigs       []*Trig
	StopCall    int64
	StopRet     int64
	idle        []idleProof
	bars        [][2]int64 // barrier call/ret
	handlerMsgs [][2]int64 // MarkAsConfirmed / barrier: call, ret (0 = not returned)
	wins        []window
	cands       []int
	bcast       map[int]*bcastOp
	confs       int
	handler     int64
	badGid      bool
	initGids    map[int64]bool
	submitTx    map[int]bool
	log         []Event
	confOps     []confOp // every MarkAsConfirmed (tx -1: a hash no transaction has)
}

type confOp struct {
	tx        int
	call, ret int64
}

type bcastOp struct {
	tx              int
	call, ret       int64
	res             string
	cbEnter, cbExit int64
	out             Outcome
}

// Analyze builds the structured view.
func Analyze(sp *Spec, log []Event) *Analysis {
	n := len(sp.Txs)
	a := &Analysis{sp: sp, adds: make([][]span, n), rems: make([][]span, n),
		bcast: map[int]*bcastOp{}, submitTx: map[int]bool{}, log: log}
	rounds := map[int64]*Round{}
	trigs := map[int]*Trig{}
	confCall := map[int]int64{}
	confTx := map[int]int{}
	confRet := map[int]int64{}
	barCall := map[int]int64{}
	for _, e := range log {
		switch e.Kind {
		case "bcast_call":
			a.bcast[e.Op] = &bcastOp{tx: e.Tx, call: e.Seq}
			a.submitTx[e.Tx] = true
		case "bcast_ret":
			if o := a.bcast[e.Op]; o != nil {
				o.ret, o.res = e.Seq, e.Res
			}
		case "blk_start":
			t := &Trig{Op: e.Op, Start: e.Seq}
			trigs[e.Op] = t
			a.Trigs = append(a.Trigs, t)
		case "blk_done":
			trigs[e.Op].Done = e.Seq
		case "blk_abort":
			trigs[e.Op].Aborted = true
		case "conf_call":
			confCall[e.Op] = e.Seq
			confTx[e.Op] = e.Tx
		case "conf_ret":
			confRet[e.Op] = e.Seq
			a.confs++
		case "bar_call":
			barCall[e.Op] = e.Seq
		case "bar_ret":
			a.bars = append(a.bars, [2]int64{barCall[e.Op], e.Seq})
		case "stop_call":
			a.StopCall = e.Seq
		case "stop_ret":
			a.StopRet = e.Seq
		case "idle_proof":
			a.idle = append(a.idle, idleProof{lo: int64(e.Op), hi: e.Seq, barrier: e.Res == "barrier"})
		case "cb_enter":
			if e.Initial {
				// Usually every initial broadcast runs on the handler
				// goroutine; nothing in the statement requires it, so
				// several goroutines are accepted. What the analysis
				// needs is that initial callbacks and rounds can be told
				// apart (by goroutine): checked below.
				if a.handler == 0 {
					a.handler = e.Gid
				}
				if a.initGids == nil {
					a.initGids = map[int64]bool{}
				}
				a.initGids[e.Gid] = true
				if o := a.bcast[e.Op]; o != nil {
					o.cbEnter, o.out = e.Seq, e.Out
				}
				continue
			}
			r := rounds[e.Gid]
			if r == nil {
				r = &Round{Gid: e.Gid, First: e.Seq}
				rounds[e.Gid] = r
				a.Rounds = append(a.Rounds, r)
			}
			r.Entries = append(r.Entries, Entry{Tx: e.Tx, Enter: e.Seq, Out: e.Out})
			r.Open = true
		case "cb_exit":
			if e.Initial {
				if o := a.bcast[e.Op]; o != nil {
					o.cbExit = e.Seq
				}
				continue
			}
			if r := rounds[e.Gid]; r != nil && len(r.Entries) > 0 {
				r.Entries[len(r.Entries)-1].Exit = e.Seq
				r.Last = e.Seq
				r.Open = false
			}
		}
	}
	sort.Slice(a.Rounds, func(i, j int) bool { return a.Rounds[i].First < a.Rounds[j].First })
	for i, r := range a.Rounds {
		r.Idx = i
		if r.Gid == a.handler || a.initGids[r.Gid] {
			a.badGid = true
		}
	}

	// adds
	ops := make([]int, 0, len(a.bcast))
	for id := range a.bcast {
		ops = append(ops, id)
	}
	sort.Ints(ops)
	for _, id := range ops {
		o := a.bcast[id]
		accepted := o.cbExit != 0 && o.out.Class(sp.MapCustom) == ClassAccept
		retNil := o.ret != 0 && o.res == "nil"
		if !accepted && !retNil {
			continue
		}
		s := span{round: -1, src: fmt.Sprintf("broadcast#%d", id)}
		if o.cbExit != 0 {
			s.lo = o.cbExit * 2
		} else {
			s.lo = o.call * 2
		}
		if o.cbEnter != 0 {
			s.ann = o.cbEnter * 2
		}
		if retNil {
			s.hi, s.sure = o.ret*2, true
		} else {
			s.hi = inf
		}
		a.adds[o.tx] = append(a.adds[o.tx], s)
	}
	// removals by MarkAsConfirmed
	cids := make([]int, 0, len(confCall))
	for id := range confCall {
		cids = append(cids, id)
	}
	sort.Ints(cids)
	for id, c := range barCall {
		ret := int64(0)
		for _, b := range a.bars {
			if b[0] == c {
				ret = b[1]
			}
		}
		_ = id
		a.handlerMsgs = append(a.handlerMsgs, [2]int64{c, ret})
		a.confOps = append(a.confOps, confOp{tx: -1, call: c, ret: ret})
	}
	for _, id := range cids {
		a.handlerMsgs = append(a.handlerMsgs, [2]int64{confCall[id], confRet[id]})
		a.confOps = append(a.confOps, confOp{tx: confTx[id], call: confCall[id], ret: confRet[id]})
		s := span{lo: confCall[id] * 2, hi: inf, sure: true, round: -1,
			src: fmt.Sprintf("markasconfirmed#%d", id)}
		if r, ok := confRet[id]; ok {
			s.hi = r * 2
		}
		t := confTx[id]
		if t >= 0 && t < n {
			a.rems[t] = append(a.rems[t], s)
		}
	}
	// removals reported from inside rounds
	for _, r := range a.Rounds {
		for i, en := range r.Entries {
			if en.Exit == 0 || en.Tx < 0 || en.Tx >= n {
				continue
			}
			cl := en.Out.Class(sp.MapCustom)
			if cl == ClassAccept {
				continue
			}
			s := span{lo: en.Exit * 2, hi: inf, round: r.Idx}
			if cl == ClassConfirmed {
				// Documented: "we can stop broadcasting it further";
				// the hash is handed to the handler before the next
				// invocation of this round and before the round ends.
				s.sure = true
				s.src = fmt.Sprintf("confirmed-in-round#%d", r.Idx)
				if i+1 < len(r.Entries) {
					s.hi = r.Entries[i+1].Enter * 2
				}
			} else {
				// Rejected during a rebroadcast: the code keeps the
				// transaction; the statement does not say. Neither
				// required nor forbidden afterwards.
				s.src = fmt.Sprintf("rejected-in-round#%d", r.Idx)
			}
			a.rems[en.Tx] = append(a.rems[en.Tx], s)
		}
	}
	return a
}

func (r span) before(w window) bool {
	return r.hi < w.lo || (r.sure && r.round >= 0 && r.round < w.ridx)
}

// definitelyNotPending: whatever the real interleaving was, t was not in the
// pending set when the snapshot was taken.
func (a *Analysis) definitelyNotPending(t int, w window) (bool, string) {
	why := "never accepted"
	for _, ad := range a.adds[t] {
		if ad.lo >= w.hi {
			continue
		}
		found := false
		for _, r := range a.rems[t] {
			// A MarkAsConfirmed CALLED after the announcement of this very
			// broadcast had started also ends it: the handler is inside
			// that broadcast and takes the confirmation only afterwards
			// ("until it is reported confirmed").
			afterAnn := r.round < 0 && ad.ann != 0 && r.lo > ad.ann
			if r.sure && (r.lo > ad.hi || afterAnn) && r.before(w) {
				found = true
				why = r.src
				break
			}
		}
		if !found {
			return false, ""
		}
	}
	return true, why
}

// definitelyPending: whatever the real interleaving was, t was in the pending
// set when the snapshot was taken. With optimistic set, rejections reported
// from inside rounds are not treated as possible removals (driver guesses
// only).
func (a *Analysis) definitelyPending(t int, w window, optimistic bool) bool {
	for _, ad := range a.adds[t] {
		if !ad.sure || ad.hi >= w.lo {
			continue
		}
		ok := true
		for _, r := range a.rems[t] {
			if !r.sure && optimistic {
				continue
			}
			if r.hi < ad.lo || r.lo > w.hi {
				continue
			}
			ok = false
			break
		}
		if ok {
			return true
		}
	}
	return false
}

// idleProof records a full goroutine dump, taken at some real time between
// the sequence numbers lo and hi, that showed no live rebroadcast goroutine of
// this broadcaster. Hence every round either made all its callbacks before hi
// (and is over) or was spawned after lo. barrier: immediately before lo the
// handler accepted a no-op message, i.e. it had finished acting on everything
// it accepted earlier.
type idleProof struct {
	lo, hi  int64
	barrier bool
}

// endProof returns the sequence number at which round k was known to have
// finished (its goroutine gone, or a later round running), 0 if unknown.
func (a *Analysis) endProof(k int) int64 {
	r := a.Rounds[k]
	if r.Last == 0 || r.Open {
		return 0
	}
	best := int64(0)
	upd := func(s int64) {
		if s > r.Last && (best == 0 || s < best) {
			best = s
		}
	}
	if k+1 < len(a.Rounds) {
		upd(a.Rounds[k+1].First)
	}
	for _, p := range a.idle {
		if r.First < p.lo {
			upd(p.hi)
		}
	}
	return best
}

// roundsEndedBefore counts the rounds proven finished at or before seq.
func (a *Analysis) roundsEndedBefore(seq int64) int {
	n := 0
	for k := range a.Rounds {
		p := a.endProof(k)
		if p != 0 && p <= seq {
			n = k + 1
		}
	}
	return n
}

// trigWindow is the snapshot window of a round started by trigger t.
func (a *Analysis) trigWindow(t *Trig) window {
	hi := int64(inf)
	if t.Done != 0 {
		hi = t.Done * 2
	}
	return window{lo: t.Start * 2, hi: hi, ridx: a.roundsEndedBefore(t.Start)}
}

// closed returns a sequence number by which the handler had certainly
// finished acting on trigger t (it accepted a message that was only offered
// after t had been handed over, or it exited); inf if unknown.
func (a *Analysis) closed(t *Trig) int64 {
	best := int64(inf)
	upd := func(call, acc int64) {
		if call > t.Done && acc != 0 && acc < best {
			best = acc
		}
	}
	for _, c := range a.handlerMsgs {
		upd(c[0], c[1])
	}
	for _, o := range a.Trigs {
		if o != t {
			upd(o.Start, o.Done)
		}
	}
	for _, o := range a.bcast {
		upd(o.call, o.cbEnter)
	}
	if a.StopRet != 0 && a.StopRet < best {
		best = a.StopRet
	}
	return best
}

// computeWindows attributes rounds to block events and derives each round's
// snapshot window.
//
// The handler acts on one message at a time. The position of a trigger among
// the handler's other messages (broadcast requests, confirmations) lies
// within [start, done] of the harness' send, because the send is unbuffered.
// The rebroadcast semaphore, however, is taken some time AFTER the receipt
// (the handler may be descheduled in between), so a block event handed over
// while the previous round was making its last callbacks may still start the
// next round. A trigger t can therefore have started round R iff it was
// offered before R's first callback, the handler was not known to have moved
// on from t before the previous round's last callback returned, and t is not
// already the only possible origin of an earlier round.
func (a *Analysis) computeWindows() {
	a.wins = make([]window, len(a.Rounds))
	a.cands = make([]int, len(a.Rounds))
	used := map[*Trig]bool{}
	for k, r := range a.Rounds {
		prevLast := int64(0)
		if k > 0 {
			prevLast = a.Rounds[k-1].Last
		}
		w := window{lo: 0, hi: r.First * 2, ridx: k}
		if k > 0 {
			w.lo = prevLast*2 + 1
		}
		a.wins[k] = w
		if a.sp.Tick {
			continue
		}
		var cs []*Trig
		for _, t := range a.Trigs {
			if t.Done == 0 || used[t] || t.Start >= r.First || a.closed(t) <= prevLast {
				continue
			}
			cs = append(cs, t)
		}
		a.cands[k] = len(cs)
		if len(cs) == 0 {
			continue
		}
		if len(cs) == 1 {
			used[cs[0]] = true
		}
		minStart, maxDone := int64(inf), int64(0)
		for _, t := range cs {
			if t.Start < minStart {
				minStart = t.Start
			}
			if t.Done > maxDone {
				maxDone = t.Done
			}
		}
		a.wins[k] = window{lo: minStart * 2, hi: maxDone * 2, ridx: k}
	}
}

func (a *Analysis) roundWindow(k int) (window, int) {
	if a.wins == nil {
		a.computeWindows()
	}
	return a.wins[k], a.cands[k]
}

// ExpectedAt returns the transactions that are certainly pending when the
// given trigger (by op id) was handed over (driver's guess of the round size).
func (a *Analysis) ExpectedAt(op int) []int {
	for _, t := range a.Trigs {
		if t.Op == op {
			w := a.trigWindow(t)
			var out []int
			for i := range a.sp.Txs {
				if a.definitelyPending(i, w, true) {
					out = append(out, i)
				}
			}
			return out
		}
	}
	return nil
}

// Stats are the measured counters of one schedule.
type Stats struct {
	Rounds, RoundCallbacks, InitialCallbacks int
	DepPairs                                 int
	Confirmations, RoundConfirmed            int
	TrigsAccepted, TrigsAttributed           int
	AmbiguousRounds, UnattributedRounds      int
	CompleteChecked, SubsetChecked           int
	MaxRound                                 int
	DupInRound                               int
	BroadcastRets                            int
	StoppedRets                              int

	// busy-handler windows (busy.go)
	BusyWindows, BusyJudged   int
	BusyIntervals, BusyRounds int // timers fired / rounds started inside windows
	BusyCalls                 int // unrelated calls answered inside the timer chains
	BusyWatched               int
	BusyRoundsWithWatched     int      // sum over windows of min over watched tx of rounds containing it
	BusyMargins               [][2]int // per judged window: {rounds containing every watched tx, timers}
}

// Check applies the reference model to the analysed history.
func (a *Analysis) Check() (fs []Finding, incon []string, st Stats) {
	sp := a.sp
	mc := sp.MapCustom
	if a.badGid {
		incon = append(incon, "callback classification: a rebroadcast round on a goroutine that also made an initial broadcast")
		return
	}
	st.Confirmations = a.confs
	st.Rounds = len(a.Rounds)

	// (A) return value of Broadcast.
	ids := make([]int, 0, len(a.bcast))
	for id := range a.bcast {
		ids = append(ids, id)
	}
	sort.Ints(ids)
	for _, id := range ids {
		o := a.bcast[id]
		if o.cbEnter != 0 {
			st.InitialCallbacks++
		}
		if o.ret == 0 {
			continue
		}
		st.BroadcastRets++
		cls := ""
		if o.cbExit != 0 {
			cls = o.out.Class(mc)
		}
		switch o.res {
		case "nil":
			if cls == ClassReject || cls == ClassConfirmed {
				fs = append(fs, Finding{
					Sig:  "ret/accepted-though-callback-failed/" + cls,
					What: fmt.Sprintf("Broadcast(tx%d) returned nil although the network callback answered %q", o.tx, o.out),
				})
			}
		case "stopped":
			st.StoppedRets++
			if a.StopCall == 0 || a.StopCall > o.ret {
				fs = append(fs, Finding{
					Sig:  "ret/stopped-error-without-stop",
					What: fmt.Sprintf("Broadcast(tx%d) returned ErrBroadcasterStopped but Stop had not been called", o.tx),
				})
			}
		default:
			if cls == ClassAccept {
				fs = append(fs, Finding{
					Sig:  "ret/failed-though-accepted/" + string(o.out),
					What: fmt.Sprintf("Broadcast(tx%d) failed with %s although the network callback answered %q (accepted / already in mempool) and the broadcaster was not reported stopped", o.tx, o.res, o.out),
				})
			} else if cls == "" {
				fs = append(fs, Finding{
					Sig:  "ret/failed-without-broadcast",
					What: fmt.Sprintf("Broadcast(tx%d) failed with %s without the network callback having answered", o.tx, o.res),
				})
			}
		}
	}

	// (B) rounds.
	parents := make([]map[int]bool, len(sp.Txs))
	for i, t := range sp.Txs {
		parents[i] = map[int]bool{}
		for _, p := range t.Parents {
			parents[i][p] = true
		}
	}
	for k, r := range a.Rounds {
		st.RoundCallbacks += len(r.Entries)
		if len(r.Entries) > st.MaxRound {
			st.MaxRound = len(r.Entries)
		}
		// one round at a time.
		if k > 0 {
			pr := a.Rounds[k-1]
			if pr.Open || pr.Last > r.First {
				fs = append(fs, Finding{
					Sig:  "rounds/concurrent-rebroadcasts",
					What: fmt.Sprintf("rebroadcast round %d (goroutine %d) invoked the callback while round %d (goroutine %d) was still running", k, r.Gid, k-1, pr.Gid),
				})
				// attribution below relies on sequential rounds.
				continue
			}
		}
		w, cands := a.roundWindow(k)
		switch {
		case sp.Tick:
		case cands == 0:
			st.UnattributedRounds++
		case cands == 1:
			st.TrigsAttributed++
		default:
			st.AmbiguousRounds++
		}
		pos := map[int]int{}
		for i, en := range r.Entries {
			if en.Tx < 0 {
				fs = append(fs, Finding{Sig: "rounds/unknown-transaction",
					What: fmt.Sprintf("round %d rebroadcast a transaction the harness never submitted", k)})
				continue
			}
			if _, dup := pos[en.Tx]; dup {
				st.DupInRound++
				continue
			}
			pos[en.Tx] = i
			// subset: rules 1, 3, 4, 6.
			st.SubsetChecked++
			if not, why := a.definitelyNotPending(en.Tx, w); not {
				sig, what := "", ""
				switch {
				case !a.submitTx[en.Tx]:
					sig = "subset/never-submitted-rebroadcast"
					what = "was never submitted"
				case len(a.adds[en.Tx]) == 0:
					sig = "subset/rejected-rebroadcast/" + sp.Txs[en.Tx].Init.Class(mc)
					what = fmt.Sprintf("was rejected at its broadcast (callback answered %q)", sp.Txs[en.Tx].Init)
				default:
					kind := "markasconfirmed"
					if len(why) > 9 && why[:9] == "confirmed" {
						kind = "confirmed-in-round"
					}
					sig = "subset/confirmed-rebroadcast/" + kind
					what = fmt.Sprintf("had been reported confirmed (%s) before the round started", why)
				}
				fs = append(fs, Finding{Sig: sig,
					What: fmt.Sprintf("round %d (snapshot window seq %d..%d) rebroadcast tx%d which %s", k, w.lo/2, w.hi/2, en.Tx, what)})
			}
		}
		// order: rule 2.
		for c, pc := range pos {
			for p := range parents[c] {
				pp, ok := pos[p]
				if !ok {
					continue
				}
				st.DepPairs++
				if pp > pc {
					fs = append(fs, Finding{Sig: "order/child-before-parent/" + sp.Shape,
						What: fmt.Sprintf("round %d rebroadcast tx%d (position %d) before its parent tx%d (position %d)", k, c, pc, p, pp)})
				}
			}
		}
		// completeness: rule 5.
		var missing []int
		for t := range sp.Txs {
			if _, ok := pos[t]; ok {
				continue
			}
			if a.definitelyPending(t, w, false) {
				missing = append(missing, t)
			}
		}
		st.CompleteChecked++
		if len(missing) > 0 {
			p := a.endProof(k)
			switch {
			case p != 0 && (a.StopCall == 0 || a.StopCall > p):
				trig := "block"
				if sp.Tick || cands == 0 {
					trig = "tick-or-unattributed"
				}
				fs = append(fs, Finding{Sig: "complete/pending-tx-missing-from-round/" + trig,
					What: fmt.Sprintf("round %d (snapshot window seq %d..%d) finished without rebroadcasting pending tx %v (accepted before, not confirmed)", k, w.lo/2, w.hi/2, missing)})
			case a.StopCall == 0:
				incon = append(incon, "round incomplete but its end was not proven")
			}
		}
		for _, en := range r.Entries {
			if en.Out.Class(mc) == ClassConfirmed && en.Exit != 0 {
				st.RoundConfirmed++
			}
		}
	}

	// (C) missing round after a provably idle trigger.
	if !sp.Tick {
		for _, t := range a.Trigs {
			if t.Done == 0 {
				continue
			}
			st.TrigsAccepted++
			p, okp := a.validIdleBefore(t.Start)
			q, okq := a.validIdleAfter(t.Done)
			if !okp || !okq {
				continue
			}
			if a.StopCall != 0 && a.StopCall < q.hi {
				continue
			}
			clean := true
			for _, o := range a.Trigs {
				if o == t || o.Aborted {
					continue
				}
				od := o.Done
				if od == 0 {
					od = inf
				}
				if o.Start < q.hi && od > p.lo {
					clean = false
				}
			}
			for _, r := range a.Rounds {
				if r.First > p.lo && r.First < q.hi {
					clean = false // some round did start
				}
				if r.First < p.lo && (r.Open || r.Last > p.hi) {
					clean = false // contradicts the proof: do not use it
				}
			}
			if !clean {
				continue
			}
			w := a.trigWindow(t)
			var d []int
			for i := range sp.Txs {
				if a.definitelyPending(i, w, false) {
					d = append(d, i)
				}
			}
			if len(d) > 0 {
				fs = append(fs, Finding{Sig: "complete/no-round-after-idle-block-event",
					What: fmt.Sprintf("block event (seq %d..%d) was handed over while no rebroadcast was running and started no rebroadcast although tx %v were pending", t.Start, t.Done, d)})
			}
		}
	}

	// (C') interval ticks while the handler is busy with unrelated calls.
	bf, bi := a.checkBusy(a.log, &st)
	fs = append(fs, bf...)
	incon = append(incon, bi...)

	// (D) nothing after Stop returned.
	if a.StopRet != 0 {
		for _, r := range a.Rounds {
			for _, en := range r.Entries {
				if en.Enter > a.StopRet {
					fs = append(fs, Finding{Sig: "stop/rebroadcast-after-stop-returned",
						What: fmt.Sprintf("tx%d was rebroadcast after Stop had returned", en.Tx)})
				}
			}
		}
	}
	return
}

// validIdleBefore returns the latest idle proof completed before seq that is
// preceded by a barrier issued after every earlier accepted trigger.
func (a *Analysis) validIdleBefore(seq int64) (idleProof, bool) {
	var best idleProof
	ok := false
	for _, p := range a.idle {
		if p.hi < seq && (!ok || p.hi > best.hi) && a.idleValid(p) {
			best, ok = p, true
		}
	}
	return best, ok
}

// validIdleAfter returns the earliest such proof begun after seq.
func (a *Analysis) validIdleAfter(seq int64) (idleProof, bool) {
	var best idleProof
	ok := false
	for _, p := range a.idle {
		if p.lo > seq && (!ok || p.lo < best.lo) && a.idleValid(p) {
			best, ok = p, true
		}
	}
	return best, ok
}

// idleValid: a barrier (a call the handler accepted) lies between the last
// trigger accepted before the dump and the dump, so the handler had finished
// acting on that trigger (and had spawned its round, if any) when the dump
// showed no rebroadcast goroutine.
func (a *Analysis) idleValid(p idleProof) bool {
	if !p.barrier {
		return false
	}
	lastDone := int64(0)
	for _, t := range a.Trigs {
		if t.Done != 0 && t.Done < p.lo && t.Done > lastDone {
			lastDone = t.Done
		}
	}
	for _, b := range a.bars {
		if b[0] > lastDone && b[1] != 0 && b[1] < p.lo {
			return true
		}
	}
	return false
}
