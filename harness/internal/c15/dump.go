package c15

import (
	"regexp"
	"runtime"
	"strconv"
	"strings"
	"sync/atomic"
)

// DumpsTaken counts full goroutine dumps (they stop the world; the driver
// only takes them on slow paths).
var DumpsTaken atomic.Int64

// curGid returns the id of the calling goroutine.
func curGid() int64 {
	var buf [64]byte
	n := runtime.Stack(buf[:], false)
	// "goroutine 123 [running]:"
	s := string(buf[:n])
	s = strings.TrimPrefix(s, "goroutine ")
	if i := strings.IndexByte(s, ' '); i > 0 {
		if v, err := strconv.ParseInt(s[:i], 10, 64); err == nil {
			return v
		}
	}
	return -1
}

// gInfo is one goroutine of a full dump.
type gInfo struct {
	ID        int64
	State     string   // first component of the bracketed state, e.g. "chan send", "select", "runnable"
	Funcs     []string // function names top to bottom (arguments stripped)
	Raw       []string // function lines with arguments
	CreatedBy string
	Creator   int64
}

var (
	hdrRe     = regexp.MustCompile(`^goroutine (\d+) \[([^\]]*)\]:`)
	createdRe = regexp.MustCompile(`^created by (\S+) in goroutine (\d+)`)
)

var dumpSize atomic.Int64

// dumpAll takes a full goroutine dump and parses the goroutines whose stack
// text contains filter (all if empty).
func dumpAll(filter string) map[int64]*gInfo {
	DumpsTaken.Add(1)
	size := int(dumpSize.Load())
	if size < 1<<20 {
		size = 1 << 20
	}
	var buf []byte
	for {
		buf = make([]byte, size)
		n := runtime.Stack(buf, true)
		if n < size {
			buf = buf[:n]
			break
		}
		size *= 2
	}
	if int64(size) > dumpSize.Load() {
		dumpSize.Store(int64(size))
	}
	out := map[int64]*gInfo{}
	for _, blk := range strings.Split(string(buf), "\n\n") {
		if filter != "" && !strings.Contains(blk, filter) {
			continue
		}
		lines := strings.Split(strings.TrimSpace(blk), "\n")
		if len(lines) == 0 {
			continue
		}
		m := hdrRe.FindStringSubmatch(lines[0])
		if m == nil {
			continue
		}
		g := &gInfo{}
		g.ID, _ = strconv.ParseInt(m[1], 10, 64)
		st := m[2]
		if i := strings.IndexByte(st, ','); i >= 0 {
			st = st[:i]
		}
		g.State = strings.TrimSpace(st)
		for _, l := range lines[1:] {
			if strings.HasPrefix(l, "\t") {
				continue
			}
			if c := createdRe.FindStringSubmatch(l); c != nil {
				g.CreatedBy = c[1]
				g.Creator, _ = strconv.ParseInt(c[2], 10, 64)
				continue
			}
			g.Raw = append(g.Raw, l)
			fn := l
			if i := strings.LastIndexByte(fn, '('); i > 0 {
				fn = fn[:i]
			}
			g.Funcs = append(g.Funcs, fn)
		}
		out[g.ID] = g
	}
	return out
}

func (g *gInfo) hasFunc(sub string) bool {
	for _, f := range g.Funcs {
		if strings.Contains(f, sub) {
			return true
		}
	}
	return false
}

// parked reports whether the goroutine is in a waiting state (not running or
// runnable).
func (g *gInfo) parked() bool {
	switch g.State {
	case "running", "runnable", "syscall":
		return false
	}
	return true
}

// sameParked reports whether the goroutine is parked in both dumps in the
// same state with the same call stack.
func sameParked(a, b *gInfo) bool {
	if a == nil || b == nil || !a.parked() || !b.parked() || a.State != b.State {
		return false
	}
	if len(a.Funcs) != len(b.Funcs) {
		return false
	}
	for i := range a.Funcs {
		if a.Funcs[i] != b.Funcs[i] {
			return false
		}
	}
	return true
}

// roundGoroutines returns the live goroutines spawned by the handler
// goroutine h (the only goroutines the handler spawns are rebroadcast
// rounds).
func roundGoroutines(d map[int64]*gInfo, h int64) []*gInfo {
	var out []*gInfo
	if h <= 0 {
		return nil
	}
	for _, g := range d {
		if g.Creator == h && strings.Contains(g.CreatedBy, "broadcastHandler") {
			out = append(out, g)
		}
	}
	return out
}

// handlerByPtr finds the broadcastHandler goroutine of the Broadcaster whose
// address prints as ptr (used when no callback ever ran on the handler).
func handlerByPtr(d map[int64]*gInfo, ptr string) *gInfo {
	for _, g := range d {
		for _, l := range g.Raw {
			if strings.Contains(l, "(*Broadcaster).broadcastHandler(") &&
				strings.Contains(l, "("+ptr) {
				return g
			}
		}
	}
	return nil
}
