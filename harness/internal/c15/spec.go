// Package c15 drives the real pushtx.Broadcaster through scripted schedules
// (transaction DAGs, broadcast outcomes, block events, ticks, confirmations,
// Stop at arbitrary points) and checks the recorded history against the
// rebroadcast reference model (property C15).
//
// The entry points are Gen (case list = pure function of seed and index),
// Run (executes one schedule against the real code and returns the judged
// result) and ResolvePending (goroutine-dump based classification of calls
// that had not returned when their schedule ended).
package c15

import (
	"encoding/binary"
	"fmt"
	"math/rand"
	"sort"
	"strings"

	"github.com/btcsuite/btcd/chainhash/v2"
	"github.com/btcsuite/btcd/wire/v2"
)

// Outcome is what the harness' Config.Broadcast callback answers for one
// invocation.
type Outcome string

const (
	OutOK           Outcome = "ok"
	OutMempool      Outcome = "mempool"      // *BroadcastError{Mempool}
	OutConfirmed    Outcome = "confirmed"    // *BroadcastError{Confirmed}
	OutInvalid      Outcome = "invalid"      // *BroadcastError{Invalid}
	OutFee          Outcome = "fee"          // *BroadcastError{InsufficientFee}
	OutUnknown      Outcome = "unknown"      // *BroadcastError{Unknown}
	OutOther        Outcome = "other"        // plain error
	OutRawMempool   Outcome = "rawmempool"   // backend error mapped to Mempool by MapCustomBroadcastError
	OutRawConfirmed Outcome = "rawconfirmed" // backend error mapped to Confirmed by MapCustomBroadcastError
)

// Class of an outcome as the broadcaster is documented to treat it.
const (
	ClassAccept    = "accept"    // nil or Mempool: tx is (stays) pending
	ClassConfirmed = "confirmed" // Confirmed
	ClassReject    = "reject"    // anything else
)

// Class classifies an outcome given whether the custom error mapping is
// installed.
func (o Outcome) Class(mapCustom bool) string {
	switch o {
	case OutOK, OutMempool:
		return ClassAccept
	case OutConfirmed:
		return ClassConfirmed
	case OutRawMempool:
		if mapCustom {
			return ClassAccept
		}
		return ClassReject
	case OutRawConfirmed:
		if mapCustom {
			return ClassConfirmed
		}
		return ClassReject
	}
	return ClassReject
}

// TxSpec describes one transaction of the DAG and its scripted outcomes.
type TxSpec struct {
	// Parents are indices (< own index) of transactions one of whose
	// outputs this transaction spends. An index may repeat (two outputs of
	// the same parent).
	Parents []int `json:"parents"`
	// Init is the callback's answer for the initial broadcast.
	Init Outcome `json:"init"`
	// Rounds[j] is the callback's answer for the j-th rebroadcast of this
	// transaction (ok beyond the end).
	Rounds []Outcome `json:"rounds,omitempty"`
}

// Step is one driver instruction. Semantics are documented at Run.
type Step struct {
	Op    string `json:"op"`
	Tx    int    `json:"tx"`
	Async bool   `json:"async,omitempty"`
	K     int    `json:"k,omitempty"`
}

// Spec is a complete schedule.
type Spec struct {
	Seed       int64    `json:"seed"`
	Case       int      `json:"case"`
	Shape      string   `json:"shape"`
	Txs        []TxSpec `json:"txs"`
	Tick       bool     `json:"tick"`
	IntervalMs int      `json:"interval_ms"` // only meaningful when Tick
	MapCustom  bool     `json:"map_custom"`
	StopPlan   string   `json:"stop_plan"`
	Steps      []Step   `json:"steps"`
	// Busy parameterises the "busy" step (busy-handler family, busy.go).
	Busy *BusySpec `json:"busy,omitempty"`

	// labels for the fingerprint
	ConfirmTimings map[string]bool `json:"confirm_timings"`
	TriggerKinds   map[string]bool `json:"trigger_kinds"`
}

// Shapes lists the DAG shape classes.
var Shapes = []string{"single", "chain", "fanout", "fanin", "diamond", "forest", "random", "multiedge"}

func genDAG(rng *rand.Rand, shape string) []TxSpec {
	var n int
	switch shape {
	case "single":
		n = 1
	case "chain":
		n = 2 + rng.Intn(11)
	case "fanout", "fanin":
		n = 3 + rng.Intn(10)
	case "diamond":
		n = 4 + rng.Intn(9)
	case "forest":
		n = 3 + rng.Intn(10)
	case "random":
		n = 2 + rng.Intn(11)
	case "multiedge":
		n = 2 + rng.Intn(11)
	}
	txs := make([]TxSpec, n)
	switch shape {
	case "chain":
		for i := 1; i < n; i++ {
			txs[i].Parents = []int{i - 1}
		}
	case "fanout":
		for i := 1; i < n; i++ {
			txs[i].Parents = []int{0}
		}
	case "fanin":
		for i := 0; i < n-1; i++ {
			txs[n-1].Parents = append(txs[n-1].Parents, i)
		}
	case "diamond":
		// 0 -> middle layer -> sink, optionally followed by a tail chain.
		tail := 0
		if n > 5 {
			tail = rng.Intn(n - 4)
		}
		sink := n - 1 - tail
		for i := 1; i < sink; i++ {
			txs[i].Parents = []int{0}
			txs[sink].Parents = append(txs[sink].Parents, i)
		}
		for i := sink + 1; i < n; i++ {
			txs[i].Parents = []int{i - 1}
		}
	case "forest":
		// several independent chains (some of length 1).
		roots := 2 + rng.Intn(3)
		last := make([]int, 0, roots)
		for i := 0; i < n; i++ {
			if len(last) < roots {
				last = append(last, i)
				continue
			}
			c := rng.Intn(roots)
			txs[i].Parents = []int{last[c]}
			last[c] = i
		}
	case "random":
		for i := 1; i < n; i++ {
			for j := 0; j < i; j++ {
				if rng.Float64() < 0.35 {
					txs[i].Parents = append(txs[i].Parents, j)
				}
			}
		}
	case "multiedge":
		for i := 1; i < n; i++ {
			p := rng.Intn(i)
			txs[i].Parents = []int{p, p}
			if i > 1 && rng.Intn(3) == 0 {
				q := rng.Intn(i)
				txs[i].Parents = append(txs[i].Parents, q)
			}
		}
	}
	return txs
}

// BuildTxs constructs real wire transactions for the DAG. Children spend
// distinct outputs of their parents; every transaction is unique through its
// lock time and output values.
func BuildTxs(sp *Spec) []*wire.MsgTx {
	n := len(sp.Txs)
	outs := make([]int, n)
	for _, t := range sp.Txs {
		for _, p := range t.Parents {
			outs[p]++
		}
	}
	next := make([]uint32, n)
	txs := make([]*wire.MsgTx, n)
	for i, t := range sp.Txs {
		tx := wire.NewMsgTx(2)
		tx.LockTime = uint32(sp.Case*64 + i + 1)
		if len(t.Parents) == 0 {
			var h chainhash.Hash
			binary.LittleEndian.PutUint64(h[0:], uint64(sp.Seed))
			binary.LittleEndian.PutUint64(h[8:], uint64(sp.Case))
			binary.LittleEndian.PutUint64(h[16:], uint64(i))
			h[31] = 0xc5
			tx.AddTxIn(&wire.TxIn{
				PreviousOutPoint: wire.OutPoint{Hash: h, Index: uint32(i)},
				Sequence:         wire.MaxTxInSequenceNum,
			})
		}
		for _, p := range t.Parents {
			tx.AddTxIn(&wire.TxIn{
				PreviousOutPoint: wire.OutPoint{Hash: txs[p].TxHash(), Index: next[p]},
				Sequence:         wire.MaxTxInSequenceNum,
			})
			next[p]++
		}
		for o := 0; o < outs[i]+1; o++ {
			tx.AddTxOut(&wire.TxOut{
				Value:    int64(1000*(sp.Case+1) + 16*i + o),
				PkScript: []byte{0x51, byte(i), byte(o)},
			})
		}
		txs[i] = tx
	}
	return txs
}

func pickOutcome(rng *rand.Rand, mapCustom bool) Outcome {
	r := rng.Intn(100)
	switch {
	case r < 52:
		return OutOK
	case r < 67:
		return OutMempool
	case r < 75:
		return OutInvalid
	case r < 80:
		return OutFee
	case r < 84:
		return OutUnknown
	case r < 89:
		return OutConfirmed
	case r < 93:
		return OutOther
	}
	if mapCustom {
		if r < 97 {
			return OutRawMempool
		}
		return OutRawConfirmed
	}
	return OutOK
}

func pickRoundOutcome(rng *rand.Rand, mapCustom bool) Outcome {
	r := rng.Intn(100)
	switch {
	case r < 58:
		return OutOK
	case r < 72:
		return OutMempool
	case r < 84:
		return OutConfirmed
	case r < 89:
		return OutInvalid
	case r < 92:
		return OutFee
	case r < 94:
		return OutOther
	}
	if mapCustom {
		if r < 97 {
			return OutRawMempool
		}
		return OutRawConfirmed
	}
	return OutOK
}

// builder assembles the step list while keeping a rough model of what is
// pending (used only to choose sensible parameters; never by the oracle).
type builder struct {
	rng       *rand.Rand
	sp        *Spec
	pend      map[int]bool
	rb        []int // rebroadcast count per tx (rough)
	submitted []int
	stopped   bool
}

func (b *builder) add(s Step) { b.sp.Steps = append(b.sp.Steps, s) }

func (b *builder) submit(t int, async bool) {
	b.add(Step{Op: "submit", Tx: t, Async: async})
	b.submitted = append(b.submitted, t)
	if !b.stopped && b.sp.Txs[t].Init.Class(b.sp.MapCustom) == ClassAccept {
		b.pend[t] = true
	}
}

func (b *builder) confirm(t int, async bool, timing string) {
	b.add(Step{Op: "confirm", Tx: t, Async: async})
	b.sp.ConfirmTimings[timing] = true
	if !b.stopped {
		delete(b.pend, t)
	}
}

// modelRound advances the rough model over one full rebroadcast round.
func (b *builder) modelRound() {
	for t := range b.pend {
		j := b.rb[t]
		b.rb[t]++
		if j < len(b.sp.Txs[t].Rounds) && b.sp.Txs[t].Rounds[j].Class(b.sp.MapCustom) == ClassConfirmed {
			delete(b.pend, t)
		}
	}
}

// round emits a strict idle trigger (block event + settle, or a tick wait in
// tick mode).
func (b *builder) round() {
	if b.sp.Tick {
		b.add(Step{Op: "tickwait", K: 1})
		b.sp.TriggerKinds["tick"] = true
		b.modelRound()
		b.modelRound()
		return
	}
	b.add(Step{Op: "round"})
	b.sp.TriggerKinds["idle"] = true
	b.modelRound()
}

func (b *builder) anySubmitted() (int, bool) {
	if len(b.submitted) == 0 {
		return 0, false
	}
	return b.submitted[b.rng.Intn(len(b.submitted))], true
}

func (b *builder) somePending() (int, bool) {
	if len(b.pend) == 0 {
		return 0, false
	}
	keys := make([]int, 0, len(b.pend))
	for k := range b.pend {
		keys = append(keys, k)
	}
	sort.Ints(keys)
	return keys[b.rng.Intn(len(keys))], true
}

// confirmTarget prefers a pending transaction, sometimes any submitted one,
// rarely one never submitted.
func (b *builder) confirmTarget() int {
	r := b.rng.Intn(10)
	if r < 7 {
		if t, ok := b.somePending(); ok {
			return t
		}
	}
	if r < 9 {
		if t, ok := b.anySubmitted(); ok {
			return t
		}
	}
	return b.rng.Intn(len(b.sp.Txs))
}

func (b *builder) postStopOps() {
	n := 1 + b.rng.Intn(3)
	for i := 0; i < n; i++ {
		if b.rng.Intn(2) == 0 {
			b.add(Step{Op: "submit", Tx: b.rng.Intn(len(b.sp.Txs)), Async: true})
		} else {
			b.add(Step{Op: "confirm", Tx: b.confirmTarget(), Async: true})
			b.sp.ConfirmTimings["after-stop"] = true
		}
	}
	b.add(Step{Op: "join"})
}

// Gen produces case number i of the case list for the given seed.
func Gen(seed int64, i int) *Spec {
	rng := rand.New(rand.NewSource(seed*1000003 + int64(i)*7919 + 17))
	sp := &Spec{Seed: seed, Case: i,
		ConfirmTimings: map[string]bool{}, TriggerKinds: map[string]bool{}}
	sp.Shape = Shapes[rng.Intn(len(Shapes))]
	sp.Tick = rng.Intn(8) == 0
	sp.IntervalMs = 15 + rng.Intn(25)
	sp.MapCustom = rng.Intn(4) == 0
	sp.Txs = genDAG(rng, sp.Shape)
	n := len(sp.Txs)
	allAccept := rng.Intn(5) == 0 // some schedules with every tx accepted: full-DAG rounds
	for t := range sp.Txs {
		if allAccept {
			sp.Txs[t].Init = OutOK
			if rng.Intn(3) == 0 {
				sp.Txs[t].Init = OutMempool
			}
		} else {
			sp.Txs[t].Init = pickOutcome(rng, sp.MapCustom)
		}
		k := rng.Intn(4)
		for j := 0; j < k; j++ {
			sp.Txs[t].Rounds = append(sp.Txs[t].Rounds, pickRoundOutcome(rng, sp.MapCustom))
		}
	}
	plans := []string{"end", "end", "end", "idle-mid", "idle-mid", "during-hold", "during-hold",
		"racing", "racing", "after-trigger", "inithold"}
	sp.StopPlan = plans[rng.Intn(len(plans))]

	b := &builder{rng: rng, sp: sp, pend: map[int]bool{}, rb: make([]int, n)}

	// Phase A: submissions in random (also child-before-parent) order.
	order := rng.Perm(n)
	var late []int
	for _, t := range order {
		if n > 1 && rng.Float64() < 0.15 {
			late = append(late, t)
			continue
		}
		b.submit(t, rng.Float64() < 0.2)
		if rng.Float64() < 0.2 {
			b.add(Step{Op: "join"})
			b.round()
		}
		if rng.Float64() < 0.08 {
			b.confirm(b.confirmTarget(), false, "between-submissions")
		}
	}
	b.add(Step{Op: "join"})

	popLate := func() (int, bool) {
		if len(late) == 0 {
			return 0, false
		}
		t := late[0]
		late = late[1:]
		return t, true
	}

	// Phase B: rounds with confirmations, holds, races.
	iters := 1 + rng.Intn(4)
	for it := 0; it < iters && !b.stopped; it++ {
		lastIter := it == iters-1
		pick := rng.Intn(100)
		switch {
		case pick < 18:
			b.round()

		case pick < 34:
			b.confirm(b.confirmTarget(), false, "between-rounds")
			b.round()

		case pick < 46 && !sp.Tick:
			// confirmation racing with the trigger.
			b.confirm(b.confirmTarget(), true, "racing-trigger")
			b.add(Step{Op: "block", Async: true})
			sp.TriggerKinds["racing"] = true
			b.add(Step{Op: "join"})
			b.add(Step{Op: "settle"})
			b.modelRound()

		case pick < 72 && len(b.pend) > 0:
			// hold a round open in its k-th callback.
			k := rng.Intn(3)
			if k >= len(b.pend) {
				k = len(b.pend) - 1
			}
			b.add(Step{Op: "hold", K: k})
			if sp.Tick {
				sp.TriggerKinds["tick"] = true
			} else {
				b.add(Step{Op: "block"})
				sp.TriggerKinds["idle"] = true
			}
			b.add(Step{Op: "waitheld"})
			nops := 1 + rng.Intn(3)
			for o := 0; o < nops; o++ {
				switch r := rng.Intn(10); {
				case r < 4 && !sp.Tick:
					b.add(Step{Op: "block"})
					sp.TriggerKinds["busy"] = true
				case r < 7:
					b.confirm(b.confirmTarget(), false, "during-round")
				default:
					if t, ok := popLate(); ok {
						b.submit(t, false)
					} else if t, ok := b.anySubmitted(); ok && rng.Intn(2) == 0 {
						b.submit(t, false) // resubmission
					}
				}
			}
			if sp.StopPlan == "during-hold" && lastIter {
				b.add(Step{Op: "stop", Async: true})
				b.stopped = true
				if rng.Intn(2) == 0 {
					b.postStopOpsNoJoin()
				}
				b.add(Step{Op: "release"})
				b.add(Step{Op: "join"})
				b.postStopOps()
			} else {
				b.add(Step{Op: "release"})
				b.add(Step{Op: "settle"})
				b.modelRound()
			}

		case pick < 82:
			if t, ok := popLate(); ok {
				b.submit(t, false)
			}
			b.round()

		case pick < 90 && !sp.Tick:
			// two block events back to back, the second may find the
			// first round still running.
			b.add(Step{Op: "block"})
			b.add(Step{Op: "block"})
			sp.TriggerKinds["double"] = true
			b.add(Step{Op: "settle"})
			b.modelRound()

		default:
			// hold the handler inside an initial broadcast.
			t, ok := popLate()
			if !ok {
				t = rng.Intn(n) // resubmission of anything
			}
			b.add(Step{Op: "holdinit", Tx: t})
			b.submit(t, true)
			b.add(Step{Op: "waitheld"})
			switch rng.Intn(4) {
			case 0:
				b.confirm(b.confirmTarget(), true, "handler-busy")
			case 1, 2:
				// The very transaction whose first announcement is in
				// flight is reported confirmed meanwhile.
				b.confirm(t, true, "own-initial-broadcast-in-flight")
			}
			if !sp.Tick && rng.Intn(2) == 0 {
				b.add(Step{Op: "block", Async: true})
				sp.TriggerKinds["racing"] = true
			}
			if sp.StopPlan == "inithold" && lastIter {
				b.add(Step{Op: "stop", Async: true})
				b.stopped = true
				b.postStopOpsNoJoin()
			}
			b.add(Step{Op: "release"})
			b.add(Step{Op: "join"})
			if !b.stopped {
				b.add(Step{Op: "settle"})
				b.modelRound()
			} else {
				b.postStopOps()
			}
		}
	}

	// Stop plan.
	if !b.stopped {
		switch sp.StopPlan {
		case "idle-mid":
			b.add(Step{Op: "stop"})
			b.stopped = true
			b.postStopOps()
		case "racing":
			if !sp.Tick && rng.Intn(2) == 0 {
				b.add(Step{Op: "block", Async: true})
				sp.TriggerKinds["racing"] = true
			}
			if rng.Intn(2) == 0 {
				b.confirm(b.confirmTarget(), true, "racing-stop")
			}
			if rng.Intn(2) == 0 {
				b.submit(rng.Intn(n), true)
			}
			b.add(Step{Op: "stop", Async: true})
			b.stopped = true
			if rng.Intn(2) == 0 {
				b.confirm(b.confirmTarget(), true, "racing-stop")
			}
			b.add(Step{Op: "join"})
			if rng.Intn(2) == 0 {
				b.postStopOps()
			}
		case "after-trigger":
			if !sp.Tick {
				b.add(Step{Op: "block"})
				sp.TriggerKinds["idle"] = true
			}
			b.add(Step{Op: "stop"})
			b.stopped = true
			b.postStopOps()
		default:
			// "end" (and hold plans whose hold never happened): the
			// driver stops the broadcaster when the steps are
			// exhausted; sometimes exercise calls after that.
			if sp.StopPlan != "end" {
				sp.StopPlan = "end"
			}
			if rng.Intn(3) == 0 {
				b.add(Step{Op: "stop"})
				b.stopped = true
				b.postStopOps()
			}
		}
	}
	return sp
}

func (b *builder) postStopOpsNoJoin() {
	n := 1 + b.rng.Intn(2)
	for i := 0; i < n; i++ {
		if b.rng.Intn(2) == 0 {
			b.add(Step{Op: "submit", Tx: b.rng.Intn(len(b.sp.Txs)), Async: true})
		} else {
			b.add(Step{Op: "confirm", Tx: b.confirmTarget(), Async: true})
			b.sp.ConfirmTimings["racing-stop"] = true
		}
	}
}

func nBucket(n int) string {
	switch {
	case n == 1:
		return "1"
	case n <= 3:
		return "2-3"
	case n <= 6:
		return "4-6"
	}
	return "7-12"
}

func setString(m map[string]bool) string {
	if len(m) == 0 {
		return "none"
	}
	ks := make([]string, 0, len(m))
	for k := range m {
		ks = append(ks, k)
	}
	sort.Strings(ks)
	return strings.Join(ks, "+")
}

// Fingerprint is the normalised shape of a schedule: DAG shape class, number
// of transactions (bucketed), outcome mix, trigger kinds, stop timing and
// confirmation timing.
func (sp *Spec) Fingerprint() string {
	mix := map[string]bool{}
	for _, t := range sp.Txs {
		switch t.Init.Class(sp.MapCustom) {
		case ClassAccept:
			if t.Init == OutOK {
				mix["acc"] = true
			} else {
				mix["mem"] = true
			}
		case ClassConfirmed:
			mix["iconf"] = true
		default:
			mix["rej"] = true
		}
		for _, o := range t.Rounds {
			switch o.Class(sp.MapCustom) {
			case ClassConfirmed:
				mix["rconf"] = true
			case ClassReject:
				mix["rrej"] = true
			}
		}
	}
	if sp.MapCustom {
		mix["mapped"] = true
	}
	fp := fmt.Sprintf("%s/n=%s/out=%s/trig=%s/stop=%s/conf=%s",
		sp.Shape, nBucket(len(sp.Txs)), setString(mix), setString(sp.TriggerKinds),
		sp.StopPlan, setString(sp.ConfirmTimings))
	if sp.Busy != nil {
		fp += sp.busyFingerprint()
	}
	return fp
}
