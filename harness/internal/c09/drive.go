package c09

import (
	"bytes"
	"errors"
	"fmt"
	"regexp"
	"runtime"
	"strings"
	"sync"
	"sync/atomic"
	"time"

	"github.com/btcsuite/btcd/address/v2"
	"github.com/btcsuite/btcd/btcjson"
	"github.com/btcsuite/btcd/btcutil/v2"
	"github.com/btcsuite/btcd/chainhash/v2"
	"github.com/btcsuite/btcd/rpcclient"
	"github.com/btcsuite/btcd/txscript/v2"
	"github.com/btcsuite/btcd/wire/v2"
	"github.com/lightninglabs/neutrino"
	"github.com/lightninglabs/neutrino/headerfs"

	"verif/internal/chaingen"
)

// Watchdogs (never deciding a violation by themselves).
const (
	paceTimeout   = 3 * time.Second  // pacing waits: on expiry the script simply goes on
	strictTimeout = 30 * time.Second // a wait whose expiry triggers the stuck analysis
	finalTimeout  = 60 * time.Second
)

// Result is everything one execution produced.
type Result struct {
	Plan         *Plan
	Log          []Ev
	Trace        []string
	Violation    *Violation
	Inconclusive string
	Broken       string // harness precondition failed
	Stats        WalkStats

	Exited  bool
	ExitErr string

	// measured shape
	Phase       string // family + "/parked" when a gate actually parked the rescan during a chain change
	ForkRel     string // deepest relation of a fork point to the caller's position: none|above-cur|at-cur|below-cur|below-start
	DepthBucket string
	FailKind    string
	UpdShape    string
	Reorgs      int
	ReorgsByRel map[string]int
	Parks       int
	Lagged      int // batches made visible before their notifications were dispatched
	Retries     int
	Updates     int
	Rewinds     int
	Subscribes  int
	Steps       int
	Nontrivial  bool

	// family stale-rewind: measured when the judged Update was sent
	StaleRel   string // relation fork/rewind/caller height, "" = caller's block was on the best chain
	StaleDepth int    // blocks the caller held that were off the best chain
}

// Fingerprint is the normalised shape of the case.
func (r *Result) Fingerprint() string {
	fp := fmt.Sprintf("%s|fork=%s|depth=%s|fail=%s|upd=%s|start=%s/%s|end=%s",
		r.Phase, r.ForkRel, r.DepthBucket, r.FailKind, r.UpdShape, r.Plan.StartKind, r.Plan.StartTimeK, r.Plan.EndKind)
	if sp := r.Plan.Stale; sp != nil {
		rel := r.StaleRel
		if rel == "" {
			rel = "on-best-chain"
		}
		fp += fmt.Sprintf("|at-update=%s|ntfn=%s", rel, r.Plan.Ntfn)
		if sp.Mode == "queued" {
			fp += "|flush=" + sp.Flush
		}
	}
	if sp := r.Plan.Opaque; sp != nil {
		fp += fmt.Sprintf("|opaque=%s+%s|silent=%v|reorg=%v|ntfn=%s", shapeName(sp.ShapeA), shapeName(sp.ShapeB), sp.Silent, sp.Reorg, r.Plan.Ntfn)
	}
	return fp
}

type runner struct {
	p   *Plan
	lg  *Log
	ch  *Chain
	rs  *neutrino.Rescan
	res *Result

	quit     chan struct{}
	updCh    chan *UpdSpec
	pending  atomic.Int64
	started  bool
	parkedOK bool // the armed gate has the rescan goroutine parked
	armed    bool
	dirty    bool // a silent rewind was issued: "last connect names the tip" no longer proves quiescence
	failKind map[string]bool
	updKinds map[string]bool
	maxRel   int
	updGid   atomic.Value // string: goroutine id of the goroutine that calls Rescan.Update
}

func (p *Plan) addr(k WatchKey) (address.Address, error) {
	h := address.Hash160(p.G.Keys()[k.Key].Pub)
	var (
		a   address.Address
		err error
	)
	if k.Legacy {
		a, err = address.NewAddressPubKeyHash(h, p.G.P)
	} else {
		a, err = address.NewAddressWitnessPubKeyHash(h, p.G.P)
	}
	if err != nil {
		return nil, err
	}
	s, err := txscript.PayToAddrScript(a)
	if err != nil {
		return nil, err
	}
	if !bytes.Equal(s, p.script(k)) {
		return nil, fmt.Errorf("address of key %d does not reproduce the generator's script", k.Key)
	}
	return a, nil
}

func inputOf(u chaingen.Utxo) neutrino.InputWithScript {
	return neutrino.InputWithScript{OutPoint: u.Op, PkScript: u.Script}
}

func errText(err error) string {
	switch {
	case err == nil:
		return ""
	case errors.Is(err, neutrino.ErrRescanExit):
		return "quit"
	}
	return err.Error()
}

// RunCase executes one plan against the real rescan and judges the log.
func RunCase(p *Plan) (res *Result) {
	res = &Result{Plan: p, ReorgsByRel: map[string]int{}, ForkRel: "none", DepthBucket: "0", FailKind: FailNone, UpdShape: "none"}
	lg := newLog()
	lg.curHash, lg.curHeight, lg.haveCur = p.StartNode.Hash, p.StartNode.Height, true
	x := &runner{p: p, lg: lg, res: res, quit: make(chan struct{}), updCh: make(chan *UpdSpec, 64),
		failKind: map[string]bool{}, updKinds: map[string]bool{}}
	x.ch = newChain(p.G, p.Trunk0, x.lg)
	x.ch.staleFilterServed = p.StaleFilter
	x.ch.current.Store(p.Current0)
	defer func() {
		if rec := recover(); rec != nil {
			buf := make([]byte, 1<<14)
			buf = buf[:runtime.Stack(buf, false)]
			res.Broken = fmt.Sprintf("panic in driver: %v\n%s", rec, buf)
		}
	}()

	opts, err := x.options()
	if err != nil {
		res.Broken = err.Error()
		x.ch.stop()
		return res
	}
	x.rs = neutrino.NewRescan(x.ch, opts...)

	var updWG sync.WaitGroup
	updWG.Add(1)
	go func() {
		defer updWG.Done()
		x.updGid.Store(goid())
		for u := range x.updCh {
			uo, err := x.updateOptions(u)
			if err != nil {
				x.lg.add(Ev{Kind: EvNote, Note: "update options: " + err.Error()})
				x.pending.Add(-1)
				continue
			}
			x.lg.add(Ev{Kind: EvUpdCall, Upd: u.ID, Note: u.Kind})
			err = x.rs.Update(uo...)
			x.lg.add(Ev{Kind: EvUpdRet, Upd: u.ID, Err: errText(err)})
			x.pending.Add(-1)
		}
	}()

	for _, op := range p.Ops {
		x.exec(op)
		if res.Violation != nil || res.Inconclusive != "" {
			break
		}
	}
	if res.Violation == nil && res.Inconclusive == "" {
		x.finish()
	}

	// Shut everything down.
	x.openGate()
	close(x.quit)
	close(x.updCh)
	if x.started {
		if !x.lg.waitFor(strictTimeout, func() bool { return x.lg.exited }) {
			if res.Inconclusive == "" && res.Violation == nil {
				res.Inconclusive = "rescan did not terminate after quit within the watchdog"
			}
		} else {
			done := make(chan struct{})
			go func() { x.rs.WaitForShutdown(); close(done) }()
			select {
			case <-done:
			case <-time.After(strictTimeout):
				if res.Inconclusive == "" && res.Violation == nil {
					res.Inconclusive = "WaitForShutdown did not return within the watchdog"
				}
			}
		}
	}
	x.ch.stop()
	updDone := make(chan struct{})
	go func() { updWG.Wait(); close(updDone) }()
	select {
	case <-updDone:
	case <-time.After(strictTimeout):
	}

	res.Log = x.lg.snapshot()
	res.Retries = int(x.ch.retries.Load())
	res.Subscribes = int(x.ch.subscribes.Load())
	res.Steps = int(x.ch.steps.Load())
	x.lg.mu.Lock()
	res.Exited, res.ExitErr = x.lg.exited, x.lg.exitErr
	ncb := x.lg.nCallbacks
	x.lg.mu.Unlock()
	x.shape()

	// The quit we sent ourselves is not part of the history: the log is cut
	// at the shutdown mark for the end-state check. The walk is judged even
	// when the stuck analysis already fired: a broken walk is the more
	// precise finding.
	final := x.finalNode()
	if res.Violation != nil {
		final = nil
	}
	v, st := Walk(x.walkCfg(), x.judgedLog(res.Log), final, x.endNode())
	res.Stats = st
	if v != nil && (res.Inconclusive != "" || res.Violation != nil) && strings.HasPrefix(v.Rule, "walk-ends") {
		v = nil // the end state was not reached: already reported / inconclusive
	}
	if v != nil {
		res.Violation = v
	}
	res.Nontrivial = ncb >= 3 && (res.Reorgs+res.Updates+res.Retries+res.Parks+res.Lagged > 0)
	return res
}

// judgedLog drops the harness's own shutdown (the exit caused by closing the
// quit channel at the very end).
func (x *runner) judgedLog(evs []Ev) []Ev {
	for i, e := range evs {
		if e.Kind == EvNote && e.Note == "shutdown" {
			return evs[:i]
		}
	}
	return evs
}

func (x *runner) finalNode() *chaingen.Node {
	if x.res.Inconclusive != "" {
		return nil
	}
	return x.p.FinalNode
}

func (x *runner) endNode() *chaingen.Node {
	if x.p.EndKind == "none" {
		return nil
	}
	return x.p.EndNode
}

func (x *runner) walkCfg() WalkCfg {
	p := x.p
	cfg := WalkCfg{Tree: p.G.ByHash, Start: p.StartNode, StartTime: p.StartTime, Updates: map[int]*WalkUpd{},
		Legacy: p.Ntfn == "both", Scripts: p.InitScripts}
	for _, k := range p.InitKeys {
		cfg.Addrs = append(cfg.Addrs, p.script(k))
	}
	for _, u := range p.InitInputs {
		cfg.Ops = append(cfg.Ops, u.Op)
	}
	for _, u := range p.Updates {
		wu := &WalkUpd{Rewind: int32(u.Rewind), Silent: u.Silent}
		for _, k := range u.Keys {
			wu.Addrs = append(wu.Addrs, p.script(k))
		}
		for _, in := range u.Inputs {
			wu.Ops = append(wu.Ops, in.Op)
		}
		cfg.Updates[u.ID] = wu
	}
	return cfg
}

func (x *runner) options() ([]neutrino.RescanOption, error) {
	p := x.p
	var opts []neutrino.RescanOption
	if p.StartArg != nil {
		bs := &headerfs.BlockStamp{Height: p.StartArg.Height}
		if p.StartArg.Hash != nil {
			bs.Hash = p.StartArg.Hash.Hash
		}
		opts = append(opts, neutrino.StartBlock(bs))
	}
	if p.StartTimeK != "none" {
		opts = append(opts, neutrino.StartTime(p.StartTime))
	}
	switch p.EndKind {
	case "height":
		opts = append(opts, neutrino.EndBlock(&headerfs.BlockStamp{Height: p.EndNode.Height}))
	case "hash":
		opts = append(opts, neutrino.EndBlock(&headerfs.BlockStamp{Hash: p.EndNode.Hash}))
	}
	var addrs []address.Address
	for _, k := range p.InitKeys {
		a, err := p.addr(k)
		if err != nil {
			return nil, err
		}
		addrs = append(addrs, a)
	}
	if len(addrs) > 0 {
		opts = append(opts, neutrino.WatchAddrs(addrs...))
	}
	var ins []neutrino.InputWithScript
	for _, u := range p.InitInputs {
		ins = append(ins, inputOf(u))
	}
	for _, s := range p.InitScripts {
		ins = append(ins, neutrino.InputWithScript{PkScript: s}) // zero outpoint: match spends by script
	}
	if len(ins) > 0 {
		opts = append(opts, neutrino.WatchInputs(ins...))
	}
	opts = append(opts, neutrino.QuitChan(x.quit), neutrino.NotificationHandlers(x.handlers()))
	return opts, nil
}

func (x *runner) updateOptions(u *UpdSpec) ([]neutrino.UpdateOption, error) {
	var uo []neutrino.UpdateOption
	var addrs []address.Address
	for _, k := range u.Keys {
		a, err := x.p.addr(k)
		if err != nil {
			return nil, err
		}
		addrs = append(addrs, a)
	}
	if len(addrs) > 0 {
		uo = append(uo, neutrino.AddAddrs(addrs...))
	}
	var ins []neutrino.InputWithScript
	for _, in := range u.Inputs {
		ins = append(ins, inputOf(in))
	}
	if len(ins) > 0 {
		uo = append(uo, neutrino.AddInputs(ins...))
	}
	if u.Rewind > 0 {
		uo = append(uo, neutrino.Rewind(u.Rewind))
		if u.Silent {
			uo = append(uo, neutrino.DisableDisconnectedNtfns(true))
		}
	}
	return uo, nil
}

func txHashes(txs []*btcutil.Tx) []chainhash.Hash {
	out := make([]chainhash.Hash, len(txs))
	for i, t := range txs {
		out[i] = t.MsgTx().TxHash()
	}
	return out
}

func (x *runner) handlers() rpcclient.NotificationHandlers {
	c := x.ch
	h := rpcclient.NotificationHandlers{
		OnFilteredBlockConnected: func(height int32, hdr *wire.BlockHeader, txs []*btcutil.Tx) {
			pk := c.enter("cb-connected")
			via, _ := c.via.Swap("unknown").(string)
			x.lg.add(Ev{Kind: EvConn, Height: height, Hash: hdr.BlockHash(), Prev: hdr.PrevBlock,
				Time: hdr.Timestamp.Unix(), txs: txHashes(txs), Note: "via " + via})
			c.leave("cb-connected", pk)
			c.held(hdr.BlockHash())
		},
		OnFilteredBlockDisconnected: func(height int32, hdr *wire.BlockHeader) {
			pk := c.enter("cb-disconnected")
			x.lg.add(Ev{Kind: EvDisc, Height: height, Hash: hdr.BlockHash(), Prev: hdr.PrevBlock,
				Time: hdr.Timestamp.Unix()})
			c.leave("cb-disconnected", pk)
		},
	}
	if x.p.Ntfn == "both" {
		h.OnBlockConnected = func(hash *chainhash.Hash, height int32, t time.Time) { // nolint:staticcheck
			x.lg.add(Ev{Kind: EvLConn, Height: height, Hash: *hash, Time: t.Unix()})
		}
		h.OnBlockDisconnected = func(hash *chainhash.Hash, height int32, t time.Time) { // nolint:staticcheck
			x.lg.add(Ev{Kind: EvLDisc, Height: height, Hash: *hash, Time: t.Unix()})
		}
		h.OnRecvTx = func(tx *btcutil.Tx, d *btcjson.BlockDetails) { // nolint:staticcheck
			x.lg.add(Ev{Kind: EvRecv, Height: d.Height, Note: d.Hash, txs: []chainhash.Hash{tx.MsgTx().TxHash()}})
		}
		h.OnRedeemingTx = func(tx *btcutil.Tx, d *btcjson.BlockDetails) { // nolint:staticcheck
			x.lg.add(Ev{Kind: EvRedeem, Height: d.Height, Note: d.Hash, txs: []chainhash.Hash{tx.MsgTx().TxHash()}})
		}
	}
	return h
}

func (x *runner) trace(format string, a ...any) {
	x.res.Trace = append(x.res.Trace, fmt.Sprintf(format, a...))
}

// ------------------------------------------------------------------ ops ----

func (x *runner) exec(op Op) {
	switch op.Kind {
	case OpStart:
		errc := x.rs.Start()
		x.started = true
		go func() {
			err := <-errc
			x.lg.add(Ev{Kind: EvExit, Err: errText(err)})
		}()
		x.trace("start")

	case OpGrow:
		x.trace("%s%s", op, x.where())
		x.ch.grow(op.Nodes, op.Batch)

	case OpVisible:
		x.trace("%s%s", op, x.where())
		x.ch.makeVisible(op.Nodes)
		x.res.Lagged++

	case OpNotify:
		x.trace("%s%s", op, x.where())
		x.ch.notify(op.Nodes)

	case OpRollback:
		x.noteReorg(op.N)
		x.trace("%s%s", op, x.where())
		x.ch.rollback(op.N)

	case OpRollbackQuiet:
		x.noteReorg(op.N)
		x.trace("%s%s", op, x.where())
		x.ch.rollbackQuiet(op.N)

	case OpNotifyDisc:
		n := x.ch.flushDisconnected(!op.Drop)
		x.trace("%s n=%d%s", op, n, x.where())

	case OpHold:
		x.ch.hold(op.Nodes[0])
		x.armed = true

	case OpWaitUpdBlocked:
		x.waitUpdateBlocked()

	case OpUpdate:
		if sp := x.p.Stale; sp != nil && op.Upd.ID == sp.UpdID {
			x.noteStale(op.Upd)
		}
		x.res.Updates++
		if op.Upd.Rewind > 0 {
			x.res.Rewinds++
			if op.Upd.Silent {
				x.dirty = true
			}
		}
		timing := op.Upd.Timing
		if x.parkedOK {
			timing = "parked"
		}
		k := op.Upd.Kind
		if op.Upd.Silent {
			k += "(silent)"
		}
		x.updKinds[k+"@"+timing] = true
		x.pending.Add(1)
		x.updCh <- op.Upd
		x.trace("%s%s", op, x.where())
		if op.Wait && !x.parkedOK {
			x.waitUpdates()
		}

	case OpWaitUpd:
		if !x.parkedOK {
			x.waitUpdates()
		}

	case OpSettle:
		x.openGate()
		x.settle(op.Strict && !x.dirty)

	case OpGate:
		x.ch.arm(op.K, op.After)
		x.armed = true

	case OpWaitParked:
		x.waitParked()

	case OpRelease:
		x.openGate()

	case OpFail:
		x.failKind[op.FailKind] = true
		x.ch.setFail(op.FailKind, op.Nodes[0], op.Times)
		x.trace("%s", op)

	case OpWaitFail:
		h := op.Nodes[0].Hash
		deadline := time.Now().Add(paceTimeout)
		for x.ch.failuresServed(h) == 0 && time.Now().Before(deadline) {
			if _, _, _, _, ex := x.lg.tracker(); ex {
				break
			}
			time.Sleep(2 * time.Millisecond)
		}
		x.trace("%s served=%d", op, x.ch.failuresServed(h))

	case OpSetCurrent:
		x.ch.current.Store(true)
		x.trace("set-current")

	case OpWaitIdle:
		x.waitIdle(paceTimeout)
	}
}

// where describes the caller's position relative to the visible tip at the
// moment of an op (trace only).
func (x *runner) where() string {
	_, h, have, _, _ := x.lg.tracker()
	if !have {
		h = x.p.StartNode.Height
	}
	s := fmt.Sprintf(" [caller@%d tip@%d", h, x.ch.tip().Height)
	if x.parkedOK {
		s += " parked"
	}
	return s + "]"
}

var relRank = map[string]int{"none": 0, "above-cur": 1, "at-cur": 2, "below-cur": 3, "below-start": 4}

// noteReorg measures where the fork point of a rollback lies relative to the
// block the caller was last told is current.
func (x *runner) noteReorg(depth int) {
	_, curH, have, _, _ := x.lg.tracker()
	if !have {
		curH = x.p.StartNode.Height
	}
	fork := x.ch.tip().Height - int32(depth)
	rel := "above-cur"
	switch {
	case fork < x.p.StartNode.Height && fork < curH:
		rel = "below-start"
	case fork < curH:
		rel = "below-cur"
	case fork == curH:
		rel = "at-cur"
	}
	x.res.Reorgs++
	phase := x.p.Family
	if x.parkedOK {
		phase += "/parked"
	}
	x.res.ReorgsByRel[phase+":"+rel]++
	if relRank[rel] >= x.maxRel {
		x.maxRel = relRank[rel]
		x.res.ForkRel = rel
		switch {
		case depth == 1:
			x.res.DepthBucket = "1"
		case depth <= 3:
			x.res.DepthBucket = "2-3"
		default:
			x.res.DepthBucket = "4+"
		}
	}
}

// noteStale measures, at the moment the judged Update of a stale-rewind case
// is handed to Rescan.Update, how the block the caller holds relates to the
// visible (best) chain and to the rewind height (statistics / fingerprint).
func (x *runner) noteStale(u *UpdSpec) {
	curHash, curH, have, _, _ := x.lg.tracker()
	if !have {
		curHash, curH = x.p.StartNode.Hash, x.p.StartNode.Height
	}
	n := x.p.G.ByHash[curHash]
	depth := 0
	for n != nil && !x.ch.onVisible(n.Hash) {
		n = n.Parent
		depth++
	}
	if n == nil || depth == 0 {
		x.trace("update#%d sent with the caller's block on the best chain", u.ID)
		return
	}
	fork := n.Height
	switch h := int32(u.Rewind); {
	case h > curH:
		x.res.StaleRel = relRewindAboveCur
	case h == curH:
		x.res.StaleRel = relRewindAtCur
	case h > fork:
		x.res.StaleRel = relForkBelowRewind
	default:
		x.res.StaleRel = relRewindAtFork
	}
	x.res.StaleDepth = depth
	x.trace("update#%d sent with the caller at %d on a stale branch (fork %d, %d stale blocks, rewind %d): %s",
		u.ID, curH, fork, depth, u.Rewind, x.res.StaleRel)
}

// waitUpdateBlocked waits (pacing only) until the goroutine calling
// Rescan.Update sits in Update's select, i.e. the update is on offer to the
// rescan goroutine before the gate opens.
func (x *runner) waitUpdateBlocked() {
	gid, _ := x.updGid.Load().(string)
	deadline := time.Now().Add(paceTimeout)
	for time.Now().Before(deadline) {
		if x.pending.Load() == 0 {
			x.trace("update already taken")
			return
		}
		st, fr := goroutineFrames(allStacks(), gid)
		if st == "select" && strings.Contains(fr, "(*Rescan).Update") {
			x.trace("update call parked on the update channel")
			return
		}
		time.Sleep(2 * time.Millisecond)
	}
	x.trace("update call not seen parked")
}

func (x *runner) shape() {
	r := x.res
	r.Phase = x.p.Family
	if sp := x.p.Stale; sp != nil {
		r.Phase += "/" + sp.Mode
	}
	if r.Parks > 0 {
		r.Phase += "/parked"
	}
	if r.Lagged > 0 {
		r.Phase += "/late-ntfns"
	}
	var fk []string
	for _, k := range []string{FailCFilter, FailFilterHeader, FailBlock} {
		if x.failKind[k] {
			fk = append(fk, k)
		}
	}
	if len(fk) > 0 {
		r.FailKind = strings.Join(fk, "+")
	}
	if len(x.updKinds) > 0 {
		// One representative: the "strongest" update kind of the case.
		best := ""
		for k := range x.updKinds {
			if len(k) > len(best) || (len(k) == len(best) && k > best) {
				best = k
			}
		}
		r.UpdShape = best
	}
}

func (x *runner) waitUpdates() {
	deadline := time.Now().Add(strictTimeout)
	for x.pending.Load() > 0 {
		if time.Now().After(deadline) {
			x.res.Inconclusive = "an Update call did not return within the watchdog"
			return
		}
		time.Sleep(time.Millisecond)
	}
}

func (x *runner) waitIdle(max time.Duration) {
	deadline := time.Now().Add(max)
	last, since := x.ch.steps.Load(), time.Now()
	for time.Now().Before(deadline) {
		time.Sleep(5 * time.Millisecond)
		if n := x.ch.steps.Load(); n != last {
			last, since = n, time.Now()
		} else if time.Since(since) > 80*time.Millisecond {
			return
		}
	}
}

// waitParked waits until the armed gate holds the rescan goroutine, or gives
// up when the rescan has gone quiet without reaching it.
func (x *runner) waitParked() {
	if !x.armed {
		return
	}
	last, since := x.ch.steps.Load(), time.Now()
	deadline := time.Now().Add(paceTimeout)
	for {
		select {
		case where := <-x.ch.parked:
			x.parkedOK = true
			x.res.Parks++
			x.trace("parked at %s (step %d)", where, x.ch.steps.Load())
			return
		case <-time.After(5 * time.Millisecond):
		}
		_, _, _, _, exited := x.lg.tracker()
		if n := x.ch.steps.Load(); n != last {
			last, since = n, time.Now()
		}
		if exited || time.Since(since) > 150*time.Millisecond || time.Now().After(deadline) {
			if x.ch.disarm() {
				x.armed = false
				x.trace("gate not reached")
				return
			}
			// The gate was hit while we were giving up: take it.
			where := <-x.ch.parked
			x.parkedOK = true
			x.res.Parks++
			x.trace("parked at %s (late)", where)
			return
		}
	}
}

// openGate releases a parked rescan goroutine and removes an armed gate.
func (x *runner) openGate() {
	if x.armed && !x.parkedOK {
		if !x.ch.disarm() {
			// hit in the meantime
			select {
			case <-x.ch.parked:
				x.parkedOK = true
			case <-time.After(paceTimeout):
			}
		}
	}
	if x.parkedOK {
		select {
		case x.ch.release <- struct{}{}:
			x.trace("released")
		case <-time.After(strictTimeout):
			x.res.Inconclusive = "gate release not taken"
		}
	}
	x.parkedOK, x.armed = false, false
}

// settle waits until the last connected callback names the visible tip (or
// the rescan terminated). Non-strict: pacing only. Strict: on watchdog expiry
// the goroutine-level analysis decides between "stuck behind the tip" and
// inconclusive.
func (x *runner) settle(strict bool) {
	if !x.started {
		return
	}
	tip := x.ch.tip()
	to := paceTimeout
	if strict {
		to = strictTimeout
	}
	ok := x.lg.waitFor(to, func() bool { return x.lg.exited || x.lg.curHash == tip.Hash })
	x.trace("settle(strict=%v) ok=%v%s", strict, ok, x.where())
	if !ok && strict {
		x.stuckOrInconclusive("settle", tip)
	}
}

// finish appends the fresh final block and waits for it.
func (x *runner) finish() {
	x.openGate()
	x.waitUpdates()
	if x.res.Inconclusive != "" {
		return
	}
	if !x.started {
		return
	}
	if x.p.FinalNode == nil {
		// End block: the rescan terminates by itself.
		if !x.lg.waitFor(finalTimeout, func() bool { return x.lg.exited }) {
			x.stuckOrInconclusive("end-block", x.p.EndNode)
		}
		x.lg.add(Ev{Kind: EvNote, Note: "shutdown"})
		return
	}
	if x.ch.tip() != x.p.FinalNode.Parent {
		x.res.Broken = "script did not end on the planned tip"
		return
	}
	x.trace("final grow%s", x.where())
	x.ch.grow([]*chaingen.Node{x.p.FinalNode}, 1)
	f := x.p.FinalNode.Hash
	if !x.lg.waitFor(finalTimeout, func() bool { return x.lg.exited || x.lg.lastConn == f }) {
		x.stuckOrInconclusive("final", x.p.FinalNode)
	}
	// Let a racing duplicate notification be consumed before shutdown so
	// the log ends quiescent.
	x.waitIdle(time.Second)
	x.lg.add(Ev{Kind: EvNote, Note: "shutdown"})
}

var (
	reGoHeader = regexp.MustCompile(`^goroutine (\d+) \[([^\]]*)\]:`)
	reArgs     = regexp.MustCompile(`\(0x[0-9a-f?, x.{}]*\)|\(\.\.\.\)`)
	reOff      = regexp.MustCompile(` \+0x[0-9a-f]+`)
)

func allStacks() string {
	buf := make([]byte, 1<<20)
	for {
		n := runtime.Stack(buf, true)
		if n < len(buf) {
			return string(buf[:n])
		}
		buf = make([]byte, 2*len(buf))
	}
}

// goroutineFrames returns (state, normalised frames) of goroutine id.
func goroutineFrames(dump, id string) (string, string) {
	for _, blk := range strings.Split(dump, "\n\n") {
		blk = strings.TrimSpace(blk)
		m := reGoHeader.FindStringSubmatch(blk)
		if m == nil || m[1] != id {
			continue
		}
		var fr []string
		for _, l := range strings.Split(blk, "\n")[1:] {
			if strings.HasPrefix(l, "\t") {
				fr = append(fr, strings.TrimSpace(reOff.ReplaceAllString(l, "")))
				continue
			}
			fr = append(fr, reArgs.ReplaceAllString(l, "()"))
		}
		st := m[2]
		if i := strings.Index(st, ","); i >= 0 {
			st = st[:i]
		}
		return st, strings.Join(fr, " | ")
	}
	return "", ""
}

// stuckOrInconclusive is called when a watchdog expired with the caller not
// at the awaited block. Violation only with the goroutine-level argument:
// the rescan goroutine is parked in the same select of rescan()/
// waitForBlocks() in two dumps 2 s apart, made no ChainSource call in
// between, and the harness has nothing in flight.
func (x *runner) stuckOrInconclusive(what string, want *chaingen.Node) {
	gid, _ := x.ch.gid.Load().(string)
	s1 := x.ch.steps.Load()
	d1 := allStacks()
	time.Sleep(2 * time.Second)
	d2 := allStacks()
	s2 := x.ch.steps.Load()
	st1, f1 := goroutineFrames(d1, gid)
	st2, f2 := goroutineFrames(d2, gid)
	curHash, curH, _, _, exited := x.lg.tracker()
	idle := gid != "" && f1 != "" && f1 == f2 && s1 == s2 && !exited &&
		(st1 == "select" || st1 == "chan receive") && st1 == st2 &&
		(strings.Contains(f1, "(*rescanState).rescan") || strings.Contains(f1, "(*rescanState).waitForBlocks")) &&
		!strings.Contains(f1, "c09.(*Chain)") && x.pending.Load() == 0
	if idle {
		x.res.Violation = &Violation{
			Rule:  "walk-stuck-behind-tip",
			Shape: what,
			Text: fmt.Sprintf("%s: chain static at %s (height %d), caller last told %s (height %d); rescan goroutine %s parked [%s] in two dumps 2 s apart with no ChainSource call in between: %s",
				what, short(want.Hash), want.Height, short(curHash), curH, gid, st1, f1),
		}
		return
	}
	x.res.Inconclusive = fmt.Sprintf("%s watchdog: rescan not provably idle (state %q/%q, steps %d->%d)", what, st1, st2, s1, s2)
}
