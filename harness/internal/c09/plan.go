package c09

import (
	"fmt"
	"math/rand"
	"time"

	"github.com/btcsuite/btcd/wire/v2"

	"verif/internal/chaingen"
)

// Families: the phase of the rescan at which the chain is made to change.
const (
	FamCurrent     = "current"      // following notifications at the tip
	FamCatchup     = "catchup"      // parked in the middle of the height walk
	FamBeforeStart = "before-start" // parked in waitForBlocks (start height / IsCurrent)
	FamRetry       = "retry"        // blocks sitting in the retry queue / fetch failures
	FamStale       = "stale-rewind" // Update+Rewind applied while the caller's current block is off the best chain (stale.go)
)

// OpKind is one step of a case script.
type OpKind string

const (
	OpStart      OpKind = "start"       // Rescan.Start()
	OpGrow       OpKind = "grow"        // extend the visible chain (Nodes, Batch)
	OpRollback   OpKind = "rollback"    // remove N blocks from the visible tip
	OpVisible    OpKind = "visible"     // make Nodes visible (filter headers written) WITHOUT notifying yet
	OpNotify     OpKind = "notify"      // send the Connected notifications of Nodes made visible earlier
	OpUpdate     OpKind = "update"      // Rescan.Update (asynchronous; Wait => wait for its return)
	OpSettle     OpKind = "settle"      // pace: wait until the last connect names the visible tip
	OpGate       OpKind = "gate"        // arm a gate K steps ahead
	OpWaitParked OpKind = "wait-parked" // wait until the rescan goroutine sits in the gate
	OpRelease    OpKind = "release"     // open the gate
	OpFail       OpKind = "fail"        // script Times failures of FailKind for Nodes[0]
	OpWaitFail   OpKind = "wait-fail"   // wait until Nodes[0] has been failed at least once
	OpSetCurrent OpKind = "set-current" // IsCurrent() := true
	OpWaitIdle   OpKind = "wait-idle"   // wait until the rescan makes no more ChainSource calls
	OpWaitUpd    OpKind = "wait-updates"

	OpRollbackQuiet  OpKind = "rollback-quiet"      // remove N blocks from the visible tip, Disconnected notifications kept back
	OpNotifyDisc     OpKind = "notify-disconnected" // dispatch (or, Drop, discard) the notifications kept back
	OpHold           OpKind = "hold"                // park the rescan inside the connected callback of Nodes[0]
	OpWaitUpdBlocked OpKind = "wait-update-blocked" // wait until the pending Update call is parked on the rescan's update channel
)

// UpdSpec is one planned Rescan.Update.
type UpdSpec struct {
	ID      int
	Keys    []WatchKey      // AddAddrs
	Inputs  []chaingen.Utxo // AddInputs
	Rewind  uint32          // 0 = none
	Silent  bool            // DisableDisconnectedNtfns(true)
	Kind    string          // addrs | inputs | rewind | addrs+rewind | inputs+rewind
	Timing  string          // settled | racing | parked
	Relaxed bool            // planned while a gate is (possibly) parked
}

// WatchKey names one script of the generator's key pool.
type WatchKey struct {
	Key    int
	Legacy bool // P2PKH instead of P2WPKH
}

// Op is one script step.
type Op struct {
	Kind     OpKind
	Nodes    []*chaingen.Node
	N        int
	Batch    int
	Upd      *UpdSpec
	Wait     bool
	K        int
	After    bool
	FailKind string
	Times    int
	Strict   bool
	Drop     bool
}

func (o Op) String() string {
	switch o.Kind {
	case OpGrow:
		return fmt.Sprintf("grow(%d..%d,batch=%d)", o.Nodes[0].Height, o.Nodes[len(o.Nodes)-1].Height, o.Batch)
	case OpRollback:
		return fmt.Sprintf("rollback(%d)", o.N)
	case OpVisible:
		return fmt.Sprintf("visible(%d..%d)", o.Nodes[0].Height, o.Nodes[len(o.Nodes)-1].Height)
	case OpNotify:
		return fmt.Sprintf("notify(%d..%d)", o.Nodes[0].Height, o.Nodes[len(o.Nodes)-1].Height)
	case OpUpdate:
		return fmt.Sprintf("update#%d(%s,rewind=%d,silent=%v,wait=%v)", o.Upd.ID, o.Upd.Kind, o.Upd.Rewind, o.Upd.Silent, o.Wait)
	case OpGate:
		return fmt.Sprintf("gate(+%d,after=%v)", o.K, o.After)
	case OpFail:
		return fmt.Sprintf("fail(%s,h=%d,x%d)", o.FailKind, o.Nodes[0].Height, o.Times)
	case OpWaitFail:
		return fmt.Sprintf("wait-fail(h=%d)", o.Nodes[0].Height)
	case OpSettle:
		return fmt.Sprintf("settle(strict=%v)", o.Strict)
	case OpRollbackQuiet:
		return fmt.Sprintf("rollback-quiet(%d)", o.N)
	case OpNotifyDisc:
		return fmt.Sprintf("notify-disconnected(drop=%v)", o.Drop)
	case OpHold:
		return fmt.Sprintf("hold(cb-connected h=%d)", o.Nodes[0].Height)
	}
	return string(o.Kind)
}

// Plan is one case: a pure function of (seed, index).
type Plan struct {
	Index int
	Seed  int64

	Family      string
	StartKind   string // genesis | height | hash | best | stale-hash
	StartTime   time.Time
	StartTimeK  string // none | mid
	EndKind     string // none | height | hash
	Ntfn        string // filtered | both
	StaleFilter bool
	Pace        chaingen.Pace
	Current0    bool // IsCurrent at start

	G         *chaingen.Gen
	Trunk0    *chaingen.Node // visible tip when the rescan starts
	StartNode *chaingen.Node // the block the oracle starts from
	StartArg  *StartArg
	EndNode   *chaingen.Node
	FinalNode *chaingen.Node // fresh block appended at the very end (nil with an end block)

	InitKeys    []WatchKey
	InitInputs  []chaingen.Utxo
	InitScripts [][]byte // zero-outpoint inputs: spends matched by script

	Ops     []Op
	Updates []*UpdSpec
	Stale   *StaleSpec  // family stale-rewind only
	Opaque  *OpaqueSpec // family opaque-spend only
	// OpaquePct > 0: the history was generated with that share of inputs from
	// which the spent script cannot be recovered (chaingen OpaqueSpendPct).
	OpaquePct int

	// planning state
	rng     *rand.Rand
	simTip  *chaingen.Node
	used    map[WatchKey]bool
	usedOps map[wire.OutPoint]bool
}

// StartArg is what is handed to neutrino.StartBlock (nil = option absent).
type StartArg struct {
	Hash   *chaingen.Node // nil = zero hash
	Height int32
}

func (p *Plan) script(k WatchKey) []byte {
	if k.Legacy {
		return p.G.Keys()[k.Key].P2PKH
	}
	return p.G.Keys()[k.Key].P2WPKH
}

var genesisTime = time.Unix(1_700_000_000, 0)

// MakePlan builds case number idx of the run with the given seed.
func MakePlan(seed int64, idx int) *Plan {
	if idx >= OpaqueBase {
		return makeOpaquePlan(seed, idx-OpaqueBase)
	}
	if idx >= StaleBase {
		return makeStalePlan(seed, idx-StaleBase)
	}
	rng := rand.New(rand.NewSource(seed*1_000_003 + int64(idx)*7919 + 17))
	p := &Plan{Index: idx, Seed: seed, rng: rng, used: map[WatchKey]bool{}, usedOps: map[wire.OutPoint]bool{}}

	switch r := idx % 20; {
	case r < 7:
		p.Family = FamCatchup
	case r < 12:
		p.Family = FamRetry
	case r < 17:
		p.Family = FamCurrent
	default:
		p.Family = FamBeforeStart
	}
	p.Pace = chaingen.PaceNormal
	if rng.Intn(5) == 0 {
		p.Pace = chaingen.PaceMixed
	}
	// Every fifth history: 35% of the inputs do not let the spent script be
	// recovered (no extra draw from rng: the other histories are unchanged).
	if idx%5 == 3 {
		p.OpaquePct = 35
	}
	p.G = chaingen.NewGen(chaingen.Config{
		Seed: rng.Int63(), Preset: chaingen.PresetNoRetarget,
		GenesisTime: genesisTime, Now: genesisTime.Add(30 * 24 * time.Hour), WithBlocks: true,
		OpaqueSpendPct: p.OpaquePct,
	})
	p.Ntfn = "filtered"
	if rng.Intn(3) == 0 {
		p.Ntfn = "both"
	}
	p.StaleFilter = rng.Intn(2) == 0
	p.Current0 = true

	var l0 int
	switch p.Family {
	case FamCatchup:
		l0 = 12 + rng.Intn(17)
	case FamRetry, FamBeforeStart:
		l0 = 4 + rng.Intn(7)
	default:
		l0 = 5 + rng.Intn(11)
	}
	trunk := p.G.Extend(p.G.Genesis, l0, p.Pace)
	p.Trunk0 = trunk[l0-1]
	p.simTip = p.Trunk0

	p.pickStart(trunk)
	p.pickWatch()
	p.pickEnd(trunk)

	switch p.Family {
	case FamCurrent:
		p.planCurrent()
	case FamCatchup:
		p.planCatchup()
	case FamBeforeStart:
		p.planBeforeStart()
	case FamRetry:
		p.planRetry()
	}

	p.pickStartTime()

	// Ending: every update returned, then one FRESH block; the case is over
	// when that block has been connected (or the rescan terminated).
	p.add(Op{Kind: OpWaitUpd})
	if p.EndKind == "none" {
		f := p.G.Extend(p.simTip, 1, p.Pace)
		p.FinalNode = f[0]
		p.simTip = f[0]
	}
	return p
}

func (p *Plan) add(o Op) { p.Ops = append(p.Ops, o) }

func (p *Plan) pickStart(trunk []*chaingen.Node) {
	rng := p.rng
	l0 := len(trunk)
	maxStart := l0 - 3
	if p.Family == FamCatchup {
		maxStart = l0 - 8
	}
	if maxStart < 1 {
		maxStart = 1
	}
	s := 1 + rng.Intn(maxStart)
	node := p.Trunk0.Ancestor(int32(s))
	switch r := rng.Intn(10); {
	case r < 3:
		p.StartKind = "genesis"
		p.StartArg = &StartArg{}
		p.StartNode = p.G.Genesis
	case r < 6:
		p.StartKind = "height"
		p.StartArg = &StartArg{Height: int32(s)}
		p.StartNode = node
	case r < 8:
		p.StartKind = "hash"
		// The height given with a known hash is ignored by the code.
		p.StartArg = &StartArg{Hash: node, Height: 0}
		p.StartNode = node
	case r < 9:
		// A hash the chain does not know (a block of a side branch) plus a
		// height: the documented fallback is the height.
		p.StartKind = "stale-hash"
		side := p.G.Extend(node.Parent, 1, p.Pace)
		p.StartArg = &StartArg{Hash: side[0], Height: int32(s)}
		p.StartNode = node
	default:
		if p.Family == FamCatchup {
			p.StartKind = "height"
			p.StartArg = &StartArg{Height: int32(s)}
			p.StartNode = node
			break
		}
		p.StartKind = "best"
		p.StartArg = nil
		p.StartNode = p.Trunk0
	}
	if p.Family == FamBeforeStart && rng.Intn(2) == 0 {
		// Start at (or right below) the tip so that a small reorg removes
		// the start block while the rescan is still waiting.
		if rng.Intn(2) == 0 {
			p.StartKind = "best"
			p.StartArg = nil
			p.StartNode = p.Trunk0
		} else {
			p.StartKind = "hash"
			n := p.Trunk0.Ancestor(p.Trunk0.Height - int32(rng.Intn(2)))
			p.StartArg = &StartArg{Hash: n}
			p.StartNode = n
		}
	}
}

func (p *Plan) freshKey() (WatchKey, bool) {
	for tries := 0; tries < 40; tries++ {
		k := WatchKey{Key: p.rng.Intn(len(p.G.Keys())), Legacy: p.rng.Intn(5) == 0}
		if !p.used[k] {
			p.used[k] = true
			return k, true
		}
	}
	return WatchKey{}, false
}

func (p *Plan) freshUtxos(at *chaingen.Node, n int) []chaingen.Utxo {
	var out []chaingen.Utxo
	us := p.G.Utxos(at)
	for _, i := range p.rng.Perm(len(us)) {
		if len(out) == n {
			break
		}
		u := us[i]
		if p.usedOps[u.Op] {
			continue
		}
		p.usedOps[u.Op] = true
		out = append(out, u)
	}
	return out
}

func (p *Plan) pickWatch() {
	rng := p.rng
	if rng.Intn(20) == 0 {
		return // empty watch list: the walk alone is judged
	}
	for i, n := 0, 2+rng.Intn(4); i < n; i++ {
		if k, ok := p.freshKey(); ok {
			p.InitKeys = append(p.InitKeys, k)
		}
	}
	if rng.Intn(3) != 0 {
		p.InitInputs = p.freshUtxos(p.StartNode, 1+rng.Intn(2))
	}
	if rng.Intn(6) == 0 {
		if k, ok := p.freshKey(); ok {
			p.InitScripts = append(p.InitScripts, p.script(k))
		}
	}
}

// pickStartTime runs after the script is planned: the start time lies just
// before the timestamp of some block of the final branch above the start
// block, so the switch can trip during catch-up as well as at the tip. With
// the mixed pace (non-monotonic timestamps) it is used more often: that is
// where "first block to trip the switch" differs from "every later block".
func (p *Plan) pickStartTime() {
	p.StartTimeK = "none"
	odds := 4
	if p.Pace == chaingen.PaceMixed {
		odds = 2
	}
	if p.Family == FamRetry || p.rng.Intn(odds) != 0 {
		return
	}
	lo, hi := int(p.StartNode.Height)+1, int(p.simTip.Height)
	if hi <= lo {
		return
	}
	m := p.simTip.Ancestor(int32(lo + p.rng.Intn(hi-lo)))
	if m == nil {
		return
	}
	p.StartTimeK = "mid"
	p.StartTime = m.Hdr.Timestamp.Add(-time.Second)
}

func (p *Plan) pickEnd(trunk []*chaingen.Node) {
	p.EndKind = "none"
	if p.Family == FamRetry || p.Family == FamBeforeStart || p.rng.Intn(8) != 0 {
		return
	}
	lo, hi := int(p.StartNode.Height)+2, len(trunk)
	if hi <= lo {
		return
	}
	p.EndNode = p.Trunk0.Ancestor(int32(lo + p.rng.Intn(hi-lo+1)))
	if p.EndNode == nil {
		return
	}
	if p.rng.Intn(2) == 0 {
		p.EndKind = "height"
	} else {
		p.EndKind = "hash"
	}
}

// ------------------------------------------------------------- op makers ----

func (p *Plan) opGrow(n int) Op {
	nodes := p.G.Extend(p.simTip, n, p.Pace)
	p.simTip = nodes[n-1]
	b := 1
	if p.rng.Intn(2) == 0 {
		b = 1 + p.rng.Intn(n)
	}
	return Op{Kind: OpGrow, Nodes: nodes, Batch: b}
}

// opsReorg rolls back depth blocks and extends the fork point by more blocks
// than were removed (constant difficulty: heavier = longer).
func (p *Plan) opsReorg(depth int) (Op, Op) {
	if int32(depth) > p.simTip.Height {
		depth = int(p.simTip.Height)
	}
	if depth < 1 {
		depth = 1
	}
	fork := p.simTip.Ancestor(p.simTip.Height - int32(depth))
	m := depth + 1 + p.rng.Intn(3)
	nodes := p.G.Extend(fork, m, p.Pace)
	p.simTip = nodes[m-1]
	b := 1
	if p.rng.Intn(2) == 0 {
		b = 1 + p.rng.Intn(m)
	}
	return Op{Kind: OpRollback, N: depth}, Op{Kind: OpGrow, Nodes: nodes, Batch: b}
}

func (p *Plan) opUpdate(kind string, wait bool, timing string) Op {
	rng := p.rng
	u := &UpdSpec{ID: len(p.Updates) + 1, Kind: kind, Timing: timing}
	addAddrs := kind == "addrs" || kind == "addrs+rewind"
	addInputs := kind == "inputs" || kind == "inputs+rewind"
	rewind := kind == "rewind" || kind == "addrs+rewind" || kind == "inputs+rewind"
	if addAddrs {
		for i, n := 0, 1+rng.Intn(2); i < n; i++ {
			if k, ok := p.freshKey(); ok {
				u.Keys = append(u.Keys, k)
			}
		}
	}
	if addInputs {
		at := p.simTip
		if rewind && at.Height > 4 {
			at = at.Ancestor(at.Height - int32(1+rng.Intn(4)))
		}
		u.Inputs = p.freshUtxos(at, 1+rng.Intn(2))
	}
	if rewind {
		h := int(p.simTip.Height)
		switch r := rng.Intn(10); {
		case r == 0:
			u.Rewind = uint32(h + 1 + rng.Intn(3)) // above everything: documented no-op
		case r == 1 && p.StartNode.Height > 1:
			u.Rewind = uint32(1 + rng.Intn(int(p.StartNode.Height))) // at or below the start block
		default:
			d := 1 + rng.Intn(6)
			if d >= h {
				d = h - 1
			}
			if d < 1 {
				d = 1
			}
			u.Rewind = uint32(h - d)
		}
		if u.Rewind == 0 {
			u.Rewind = 1
		}
		u.Silent = rng.Intn(5) < 2
	}
	p.Updates = append(p.Updates, u)
	return Op{Kind: OpUpdate, Upd: u, Wait: wait}
}

// lateNotify dispatches the notifications of blocks the rescan has already
// reached by height; half of the time a further batch has been written by
// then, so the stale notifications arrive while the chain is already longer.
func (p *Plan) lateNotify(nodes []*chaingen.Node) {
	if p.rng.Intn(2) == 0 {
		g := p.opGrow(1 + p.rng.Intn(2))
		p.add(Op{Kind: OpVisible, Nodes: g.Nodes})
		nodes = append(append([]*chaingen.Node(nil), nodes...), g.Nodes...)
	}
	p.add(Op{Kind: OpNotify, Nodes: nodes})
}

func (p *Plan) randUpdateKind() string {
	return []string{"addrs", "inputs", "rewind", "addrs+rewind", "addrs+rewind", "inputs+rewind"}[p.rng.Intn(6)]
}

// ------------------------------------------------------------- families ----

// planCurrent: the rescan follows notifications; growth, reorganisations and
// updates arrive either one at a time (settled) or back to back (racing).
func (p *Plan) planCurrent() {
	rng := p.rng
	p.add(Op{Kind: OpStart})
	p.add(Op{Kind: OpSettle})
	p.add(Op{Kind: OpWaitIdle}) // subscribed: really following notifications
	racing := rng.Intn(2) == 0
	for i, n := 0, 3+rng.Intn(4); i < n; i++ {
		switch r := rng.Intn(10); {
		case r < 3:
			p.add(p.opGrow(1 + rng.Intn(3)))
		case r < 7:
			a, b := p.opsReorg(1 + rng.Intn(4))
			p.add(a)
			if rng.Intn(4) == 0 {
				// An update lands in the middle of the reorganisation.
				p.add(p.opUpdate(p.randUpdateKind(), false, "racing"))
			}
			p.add(b)
		case r < 8:
			// A rewind sends the rescan back to walking by height; new
			// filter headers are written meanwhile and their notifications
			// are dispatched only after the rescan has re-subscribed.
			p.add(p.opUpdate([]string{"rewind", "addrs+rewind"}[rng.Intn(2)], true, "settled"))
			g := p.opGrow(1 + rng.Intn(3))
			p.add(Op{Kind: OpVisible, Nodes: g.Nodes})
			p.add(Op{Kind: OpSettle})
			p.add(Op{Kind: OpWaitIdle})
			p.lateNotify(g.Nodes)
		default:
			if racing {
				p.add(p.opUpdate(p.randUpdateKind(), false, "racing"))
			} else {
				p.add(p.opUpdate(p.randUpdateKind(), true, "settled"))
			}
		}
		if !racing {
			p.add(Op{Kind: OpWaitUpd})
			p.add(Op{Kind: OpSettle})
		}
	}
	p.add(Op{Kind: OpWaitUpd})
	p.add(Op{Kind: OpSettle})
}

// planCatchup: the rescan goroutine is parked at a chosen ChainSource call /
// callback in the middle of its walk by height, the chain changes, the gate
// opens.
func (p *Plan) planCatchup() {
	rng := p.rng
	span := int(p.Trunk0.Height - p.StartNode.Height)
	k := 4 + rng.Intn(4*span+1)
	p.add(Op{Kind: OpGate, K: k, After: rng.Intn(2) == 0})
	p.add(Op{Kind: OpStart})
	rounds := 1 + rng.Intn(2)
	for r := 0; r < rounds; r++ {
		p.add(Op{Kind: OpWaitParked})
		switch x := rng.Intn(10); {
		case x < 1:
			p.add(p.opGrow(1 + rng.Intn(3)))
		case x < 3:
			// Filter headers of new blocks are written while the rescan
			// walks by height; it reaches them, subscribes, and only then
			// are their notifications dispatched (duplicates).
			g := p.opGrow(1 + rng.Intn(3))
			p.add(Op{Kind: OpVisible, Nodes: g.Nodes})
			p.add(Op{Kind: OpRelease})
			p.add(Op{Kind: OpSettle})
			p.add(Op{Kind: OpWaitIdle})
			p.lateNotify(g.Nodes)
		case x < 9:
			// Fork anywhere from below the start block up to just under the
			// tip: below / at / above the rescan's position is measured at
			// run time.
			lo := int(p.StartNode.Height) - 2
			if lo < 0 {
				lo = 0
			}
			hi := int(p.simTip.Height) - 1
			f := lo
			if hi > lo {
				f = lo + rng.Intn(hi-lo+1)
			}
			a, b := p.opsReorg(int(p.simTip.Height) - f)
			p.add(a)
			if rng.Intn(3) == 0 {
				// Let the rescan run on the rolled-back chain.
				p.add(Op{Kind: OpRelease})
				p.add(b)
				p.add(Op{Kind: OpGate, K: 1 + rng.Intn(8), After: rng.Intn(2) == 0})
				p.add(Op{Kind: OpWaitParked})
			} else {
				p.add(b)
			}
		default:
		}
		if rng.Intn(3) == 0 {
			o := p.opUpdate(p.randUpdateKind(), false, "parked")
			o.Upd.Relaxed = true
			p.add(o)
		}
		p.add(Op{Kind: OpRelease})
		if r+1 < rounds {
			p.add(Op{Kind: OpGate, K: 1 + rng.Intn(12), After: rng.Intn(2) == 0})
		}
	}
	p.add(Op{Kind: OpWaitUpd})
	p.add(Op{Kind: OpSettle})
}

// planBeforeStart: the chain changes while the rescan is still inside
// waitForBlocks (start height not reached / backend not current).
func (p *Plan) planBeforeStart() {
	rng := p.rng
	if p.StartNode.Height >= p.Trunk0.Height-1 && rng.Intn(2) == 0 {
		// Variant b: park right after the start block was resolved, remove
		// it, let the rescan wait for its start height on the new branch.
		// Steps of newRescanState: a nil start block costs BestBlock +
		// GetBlockHeader, a known hash one GetBlockHeader. The gate sits on
		// the next step: the first BestBlock of waitForBlocks.
		k := 2
		if p.StartArg == nil {
			k = 3
		}
		p.add(Op{Kind: OpGate, K: k, After: rng.Intn(2) == 0})
		p.add(Op{Kind: OpStart})
		p.add(Op{Kind: OpWaitParked})
		a, b := p.opsReorg(int(p.Trunk0.Height-p.StartNode.Height) + 1 + rng.Intn(2))
		p.add(a)
		if rng.Intn(2) == 0 {
			p.add(Op{Kind: OpRelease})
			p.add(Op{Kind: OpWaitIdle})
			p.add(b)
		} else {
			p.add(b)
			p.add(Op{Kind: OpRelease})
		}
		p.add(Op{Kind: OpSettle})
		return
	}
	// Variant a: the backend is not current; the rescan subscribes and waits.
	p.Current0 = false
	p.add(Op{Kind: OpStart})
	p.add(Op{Kind: OpWaitIdle})
	for i, n := 0, 1+rng.Intn(3); i < n; i++ {
		switch r := rng.Intn(10); {
		case r < 3:
			p.add(p.opGrow(1 + rng.Intn(2)))
		case r < 7:
			d := 1 + rng.Intn(3)
			if rng.Intn(2) == 0 {
				d = int(p.simTip.Height-p.StartNode.Height) + 1 // takes the start block with it
			}
			a, b := p.opsReorg(d)
			p.add(a)
			p.add(b)
		default:
			p.add(p.opUpdate(p.randUpdateKind(), true, "settled"))
		}
	}
	p.add(Op{Kind: OpSetCurrent})
	p.add(p.opGrow(1))
	p.add(Op{Kind: OpWaitUpd})
	p.add(Op{Kind: OpSettle})
	if rng.Intn(2) == 0 {
		a, b := p.opsReorg(1 + rng.Intn(3))
		p.add(a)
		p.add(b)
		p.add(Op{Kind: OpSettle})
	}
}

// planRetry: blocks arrive whose filter / filter header / block cannot be
// fetched for a while; the chain changes while they wait.
func (p *Plan) planRetry() {
	rng := p.rng
	p.add(Op{Kind: OpStart})
	p.add(Op{Kind: OpSettle, Strict: true})
	p.add(Op{Kind: OpWaitIdle})
	for round, rounds := 0, 1+rng.Intn(2); round < rounds; round++ {
		n := 1 + rng.Intn(3)
		g := p.opGrow(n)
		g.Batch = 1
		victim := g.Nodes[rng.Intn(n)]
		kind := []string{FailCFilter, FailCFilter, FailCFilter, FailFilterHeader, FailBlock}[rng.Intn(5)]
		times := 1
		switch kind {
		case FailCFilter:
			times = 1 + rng.Intn(3)
		case FailFilterHeader:
			times = 1 + rng.Intn(2)
		case FailBlock:
			if rng.Intn(6) == 0 {
				times = 2 // second failure hits the catch-up path: rescan ends with an error
			}
		}
		p.add(Op{Kind: OpFail, Nodes: []*chaingen.Node{victim}, FailKind: kind, Times: times})
		p.add(g)
		p.add(Op{Kind: OpWaitFail, Nodes: []*chaingen.Node{victim}})
		switch r := rng.Intn(10); {
		case r < 2:
		case r < 4:
			p.add(p.opGrow(1 + rng.Intn(2))) // stashed behind the waiting block
		case r < 8:
			// Disconnect the waiting block(s), possibly the current block too.
			a, b := p.opsReorg(1 + rng.Intn(n+2))
			p.add(a)
			p.add(b)
		default:
			p.add(p.opUpdate(p.randUpdateKind(), false, "racing"))
		}
		p.add(Op{Kind: OpWaitUpd})
		p.add(Op{Kind: OpSettle, Strict: true})
	}
}
