package c09

import (
	"fmt"
	"os"
	"runtime"
	"sort"
	"strings"
	"sync"

	"verif/internal/evid"
)

// MinDistinct is the floor on distinct non-trivial shapes of the component
// part (quick tier).
const MinDistinct = 40

// Counts of the two tiers (cases, never durations).
const (
	QuickCases    = 150
	ThoroughCases = 9000
)

// componentRule describes how the component-level cases are generated (the L2
// part appends its own description to it: evid keeps one rule text per run).
const componentRule = "component: case i of seed s is a pure function plan(s,i): a chaingen block tree (no-retarget preset, blocks with " +
	"payments to / spends from the key pool, create-and-spend in one block), a start option (genesis/height/hash/unknown hash/best), " +
	"optional start time / end block, watched addresses, outpoints and spend-by-script inputs, and a script of one of four families that " +
	"changes the visible chain (growth, rollback highest-first + longer branch, batched filter-header writes) while the real rescan is " +
	"(a) following notifications, (b) parked by a gate at a chosen ChainSource call / callback of its walk by height, (c) still inside " +
	"waitForBlocks, (d) holding blocks whose filter / filter header / block fetch was scripted to fail; Updates (AddAddrs, AddInputs, " +
	"Rewind with and without DisableDisconnectedNtfns) are issued settled, racing or while parked. Fingerprint = (family+whether a gate " +
	"parked the rescan, deepest fork relative to the caller's position, its depth bucket, failure kinds, strongest update kind@timing, " +
	"start kind/start time, end kind). Non-trivial = at least 3 block callbacks observed and at least one reorg, update, forced retry or park. " +
	"Family stale-rewind (stale.go; the first 4 cases do not depend on the seed): Update(Rewind(h)[, DisableDisconnectedNtfns(true)]) is applied while " +
	"the block the caller holds is OFF the best chain: the chain source reorganises from fork point f and (queued) all notifications of the " +
	"reorganisation are kept back while the idle rescan takes the Update, then flow at once / after the rescan went quiet / never; (racing) the " +
	"rescan is parked in the tip block's connected callback, notifications pile up in its subscription, the Update call waits on the update " +
	"channel, the gate opens; (catchup, catchup-after-rewind) the same while parked in the middle of a walk by height; crossed with " +
	"f<h<cur, h<=f, h==cur, h>cur and silent / notifying rewinds; its fingerprint adds the measured relation at the moment the Update was sent. " +
	"Family opaque-spend (opaque.go; the first case does not depend on the seed): watched OUTPOINTS (given at the start, added by an Update, learnt " +
	"from a payment to a watched address) are spent through inputs from which txscript.ComputePkScript cannot recover the spent script (empty " +
	"signature script and witness; signature script not push-only; one that does not parse; key-path-looking witness), the spends met by the walk " +
	"by height, by notification, again after an Update with Rewind (silent / notifying) and on the longer branch of a reorganisation; every fifth " +
	"history of the four older families is generated with 35% such inputs. The reference (spends a then-watched outpoint) never looks at scripts."

type witness struct {
	Case        int      `json:"case"`
	Seed        int64    `json:"seed"`
	Family      string   `json:"family"`
	Fingerprint string   `json:"fingerprint"`
	Start       string   `json:"start"`
	Watch       string   `json:"watch"`
	Script      []string `json:"script"`
	Trace       []string `json:"trace"`
	Exit        string   `json:"rescan_exit,omitempty"`
	Log         []Ev     `json:"log"`
}

func describe(res *Result) witness {
	p := res.Plan
	w := witness{Case: p.Index, Seed: p.Seed, Family: p.Family, Fingerprint: res.Fingerprint(), Trace: res.Trace}
	w.Start = fmt.Sprintf("%s start=%d(%s) trunk0=%d startTime=%s end=%s ntfn=%s staleFilterServed=%v current0=%v",
		p.StartKind, p.StartNode.Height, short(p.StartNode.Hash), p.Trunk0.Height, p.StartTimeK, p.EndKind, p.Ntfn, p.StaleFilter, p.Current0)
	if p.Stale != nil {
		w.Start += " | stale-rewind: " + p.Stale.String()
	}
	if p.Opaque != nil {
		w.Start += " | opaque-spend: " + p.Opaque.String()
	}
	if p.OpaquePct > 0 {
		w.Start += fmt.Sprintf(" | %d%% of the generated inputs unrecoverable", p.OpaquePct)
	}
	w.Watch = fmt.Sprintf("addrs=%v inputs=%d byScript=%d", p.InitKeys, len(p.InitInputs), len(p.InitScripts))
	for _, o := range p.Ops {
		w.Script = append(w.Script, o.String())
	}
	if res.Exited {
		w.Exit = "err=" + res.ExitErr
	}
	// Informational marks and long prefixes are trimmed from the witness.
	evs := res.Log
	if len(evs) > 400 {
		evs = evs[len(evs)-400:]
	}
	w.Log = evs
	return w
}

func exitKind(s string) string {
	switch {
	case s == "", s == "quit":
		return s
	case strings.Contains(s, "unable to register block subscription"):
		return "subscribe-above-best-height"
	case strings.Contains(s, "scripted fetch failure"):
		return "fetch-failure-during-catchup"
	case strings.Contains(s, "not found"):
		return "header-not-found"
	case strings.Contains(s, "couldn't get"):
		return "block-unavailable"
	}
	return "other"
}

// Component runs the component-level histories and reports into r.
func Component(r *evid.Run) {
	r.Rule(componentRule)
	r.Assume("the chaingen tree, its ground-truth BIP158 filters and the recorded previous-output scripts are correct (cross-checked against btcd in chaingen's own tests)")
	r.Assume("the harness ChainSource is a faithful stand-in for ChainService: headers by hash only for the current chain, blocks only for known headers, " +
		"Disconnected highest-first after each store rollback, Connected after the (batched) filter-header write, NotificationsSinceHeight as blockManager's")
	r.Assume("reorganisations end on a strictly longer branch (constant difficulty: only a longer branch is heavier)")
	r.Assume("a rescan that terminates with an error handed to its caller has made no further promise; such cases are counted, not judged beyond the callbacks already delivered")
	r.Assume("block notifications the harness keeps back after changing the visible chain stand for notifications still queued in the rescan's subscription " +
		"(the stores change before a subscriber consumes the notification; Go's select may take a ready Update before a ready notification)")

	n := r.Pick(QuickCases, ThoroughCases)
	workers := runtime.GOMAXPROCS(0)
	if workers > 16 {
		workers = 16
	}
	indices := make([]int, n)
	for i := range indices {
		indices[i] = i
	}
	// Family stale-rewind: its own index range (StaleBase+j), fixed cases first.
	ns := r.Pick(QuickStale, ThoroughStale)
	if v := os.Getenv("C09_STALE_N"); v != "" {
		// Development aid only (never set by the registered commands): run
		// more cases of the family without the rest of the thorough tier.
		fmt.Sscanf(v, "%d", &ns)
	}
	for j := 0; j < ns; j++ {
		indices = append(indices, StaleBase+j)
	}
	// Family opaque-spend: its own index range (OpaqueBase+j), fixed case first.
	for j, no := 0, r.Pick(QuickOpaque, ThoroughOpaque); j < no; j++ {
		indices = append(indices, OpaqueBase+j)
	}
	if v := os.Getenv("C09_ONLY"); v != "" {
		// Reproduction aid: run the single case named in a witness
		// (C09_ONLY=<case> VERIF_SEED=<seed> ./check C09 <tier>) and print
		// its script, trace and log.
		var idx int
		fmt.Sscanf(v, "%d", &idx)
		indices = []int{idx}
		res := RunCase(MakePlan(r.Seed, idx))
		d := describe(res)
		fmt.Printf("case %d %s\n  %s\n  %s\n", idx, d.Fingerprint, d.Start, d.Watch)
		for _, t := range res.Trace {
			fmt.Println("   ", t)
		}
		for _, e := range res.Log {
			fmt.Printf("    %4d %-9s h=%d %s prev=%s txs=%v upd=%d err=%q %s\n", e.Seq, e.Kind, e.Height, e.HashS, e.PrevS, e.Txs, e.Upd, e.Err, e.Note)
		}
		fmt.Printf("  violation=%+v inconclusive=%q broken=%q exit=%v/%q\n", res.Violation, res.Inconclusive, res.Broken, res.Exited, res.ExitErr)
	}

	jobs := make(chan int)
	var wg sync.WaitGroup
	var mu sync.Mutex
	exitKinds := map[string]int{}
	reorgRel := map[string]int{}
	families := map[string]int{}
	staleAt := map[string]int{}
	staleOut := map[string]int{}
	var results []*Result
	for w := 0; w < workers; w++ {
		wg.Add(1)
		go func() {
			defer wg.Done()
			for i := range jobs {
				res := RunCase(MakePlan(r.Seed, i))
				mu.Lock()
				results = append(results, res)
				mu.Unlock()
			}
		}()
	}
	for _, i := range indices {
		jobs <- i
	}
	close(jobs)
	wg.Wait()
	sort.Slice(results, func(i, j int) bool { return results[i].Plan.Index < results[j].Plan.Index })

	for _, res := range results {
		p := res.Plan
		if res.Broken != "" {
			fmt.Fprintf(os.Stderr, "C09 case %d: harness broken: %s\n", p.Index, res.Broken)
			r.Inconclusive("harness-broken")
			r.Case(res.Fingerprint(), false)
			continue
		}
		fp := res.Fingerprint()
		r.Case(fp, res.Nontrivial)
		families[p.Family]++
		if res.Inconclusive != "" {
			r.Inconclusive(strings.SplitN(res.Inconclusive, ":", 2)[0])
		}
		st := res.Stats
		r.Count("callbacks_connected", int64(st.Connected))
		r.Count("callbacks_disconnected", int64(st.Disconnected))
		r.Count("txs_delivered", int64(st.TxDelivered))
		r.Count("relevant_txs_expected", int64(st.TxExpected))
		r.Count("relevant_txs_paying_watched_addr", int64(st.TxPays))
		r.Count("relevant_txs_spending_watched_outpoint", int64(st.TxSpends))
		r.Count("relevant_txs_only_via_outpoint_from_earlier_match", int64(st.TxFromGrown))
		r.Count("relevant_txs_only_via_update", int64(st.TxFromUpdate))
		r.Count("blocks_connected_after_filter_reported_absent", int64(st.AbsentFilterBlocks))
		r.Count("relevant_txs_spending_watched_outpoint_via_unrecoverable_input", int64(st.TxSpendsOpaque))
		r.Count("relevant_txs_spending_outpoint_learnt_from_address_via_unrecoverable_input", int64(st.TxSpendsOpaqueGrown))
		if p.OpaquePct > 0 {
			r.Count("histories_generated_with_unrecoverable_inputs", 1)
		}
		if op := p.Opaque; op != nil {
			r.Count("opaque_spend_cases", 1)
			r.Count("opaque_spend_forced_spends_planned", int64(op.Planned))
			r.Count("opaque_spend_forced_spends_of_learnt_outpoints_planned", int64(op.GrownSpent))
			if op.Missed > 0 {
				r.Count("opaque_spend_forced_spends_not_placed", int64(op.Missed))
			}
			if op.Fixed {
				r.Count("opaque_spend_fixed_cases", 1)
				r.Count("opaque_spend_fixed_case_delivered_unrecoverable_spends", int64(st.TxSpendsOpaque))
			}
		}
		r.Count("updates", int64(res.Updates))
		r.Count("rewinds", int64(res.Rewinds))
		r.Count("reorgs_injected", int64(res.Reorgs))
		r.Count("gate_parks", int64(res.Parks))
		r.Count("batches_visible_before_notified", int64(res.Lagged))
		r.Count("retries_forced", int64(res.Retries))
		r.Count("subscriptions_made", int64(res.Subscribes))
		r.Count("chainsource_calls_and_callbacks", int64(res.Steps))
		if st.ScanningSwitched && p.StartTimeK == "mid" {
			r.Count("start_time_switch_observed", 1)
		}
		for k, v := range res.ReorgsByRel {
			reorgRel[k] += v
		}
		if res.Exited {
			exitKinds[exitKind(res.ExitErr)]++
		}
		if sp := p.Stale; sp != nil {
			r.Count("stale_rewind_cases", 1)
			if sp.Fixed {
				r.Count("stale_rewind_fixed_cases", 1)
			}
			rel := res.StaleRel
			if rel == "" {
				rel = "caller-on-best-chain"
			}
			silent := map[bool]string{true: "silent", false: "notifying"}[sp.Silent]
			staleAt[sp.Mode+":"+rel+":"+silent]++
			out := "walk-completed-on-final-tip"
			if res.Exited && res.ExitErr != "quit" && res.ExitErr != "" {
				out = "rescan-error-exit:" + exitKind(res.ExitErr)
			}
			if res.Violation != nil {
				out = "violation"
			}
			staleOut[rel+":"+silent+":"+out]++
			if res.StaleRel != "" {
				r.Count("stale_rewind_updates_sent_while_callers_block_off_best_chain", 1)
				r.Count("stale_rewind_blocks_held_off_best_chain", int64(res.StaleDepth))
				if res.Exited && res.ExitErr != "quit" && res.ExitErr != "" {
					r.Count("stale_rewind_error_exits", 1)
				}
			}
			if res.StaleRel == relForkBelowRewind {
				r.Count("stale_rewind_fork_below_rewind_below_caller", 1)
				if sp.Silent {
					r.Count("stale_rewind_fork_below_rewind_below_caller_silent", 1)
				}
			}
		}
		if st.MaxWorlds > 1 {
			r.Count("cases_with_update_concurrent_to_callbacks", 1)
		}
		if res.Violation == nil && res.Inconclusive == "" {
			r.Sample(map[string]any{"case": p.Index, "fingerprint": fp, "script": describe(res).Script,
				"connected": st.Connected, "disconnected": st.Disconnected, "txs": st.TxDelivered, "final_height": st.FinalHeight,
				"rescan_exit": map[bool]string{true: "err=" + res.ExitErr, false: "running until quit"}[res.Exited && res.ExitErr != "quit"]})
		}
		if v := res.Violation; v != nil {
			// Signature = oracle rule + shape of the failing observation
			// (relation of the block to the caller's position, how the
			// rescan obtained it). Phase / fork position / failure kinds
			// of the case are in the text and the fingerprint.
			sig := evid.Sig(v.Rule, v.Shape)
			r.Violation(sig, fmt.Sprintf("case %d [%s]: %s", p.Index, fp, v.Text), describe(res))
		}
	}
	r.Set("reorgs_by_phase_and_fork_position", reorgRel)
	r.Set("rescan_terminations", exitKinds)
	r.Set("cases_by_family", families)
	r.Set("stale_rewind_by_mode_relation_at_update", staleAt)
	r.Set("stale_rewind_outcomes", staleOut)
}
