package c09

// L2 family "l2-persist": a rescan that is served from the PERSISTED filter
// store. The complete client runs with Config.PersistToDisk (as lnd and
// btcwallet run it), so every filter a rescan fetches from the peers in an
// optimistic batch is handed to the filter store through the batch writer. A
// FIRST rescan over the chain fills the store; the scenario waits (bounded,
// polling the store through ChainService.FilterDB) until the writer has
// drained; then the in-memory filter cache is made cold, either by restarting
// the client on the same data directory or by running with a filter cache of a
// few dozen bytes (entries are evicted as fast as they arrive), or both; a
// SECOND rescan over (part of) the same range follows, optionally with an
// Update(Rewind) that walks the range once more, while the peers still serve
// every filter and block honestly (a client that distrusts its store can
// re-fetch). Both rescans are judged by the unchanged reference walk (walk.go)
// against the generator's ground truth: a valid walk, and with every connected
// block exactly its relevant transactions. Only what the rescan REPORTS is
// judged; where a filter came from is measured for the evidence only.

import (
	"fmt"
	"math/rand"
	"os"
	"runtime"
	"sort"
	"strings"
	"sync"
	"time"

	"github.com/btcsuite/btcd/address/v2"
	"github.com/btcsuite/btcd/btcutil/v2"
	"github.com/btcsuite/btcd/chainhash/v2"
	"github.com/btcsuite/btcd/rpcclient"
	"github.com/btcsuite/btcd/wire/v2"
	"github.com/lightninglabs/neutrino"
	"github.com/lightninglabs/neutrino/filterdb"
	"github.com/lightninglabs/neutrino/headerfs"

	"verif/internal/chaingen"
	"verif/internal/evid"
	"verif/internal/l2"
	"verif/internal/netsim"
)

// Sizes of the family (scenario counts, never durations). The first
// L2PersistFixed scenarios are seed-independent.
const (
	L2PersistQuick       = 4
	L2PersistThorough    = 60
	L2PersistFixed       = 2
	L2PersistMinDistinct = 2
	L2Persist            = "l2-persist"
)

const l2PersistRule = " || L2 family l2-persist (scenarios appended after the ones above; the first 2 are seed-independent): a chain of 40-260 blocks, " +
	"1-2 honest peers, the complete client with PersistToDisk and a default or tiny (30-630 byte) filter cache; FIRST rescan (start genesis/mid, " +
	"EndBlock=tip or following) fills the filter store through the batch writer; the store is polled (bounded) until every filter of the walked " +
	"range is readable; then the filter cache is made cold (client restarted on the same data directory | tiny cache so entries were evicted | both), " +
	"optionally 1-3 new blocks are revealed (while the client is down or live); SECOND rescan starting at or above the first one's start block with " +
	"the same or a fresh watch list: EndBlock=tip | following + one fresh block | following, then Update(AddAddrs/AddInputs + Rewind to a seeded height " +
	"of the stored range, with and without DisableDisconnectedNtfns) + one fresh block. Peers stay honest throughout. Walk judges each rescan's log " +
	"against the generator's tree. Fingerprint = (cold kind, first start/mode, second start/mode, growth, watch same/fresh, whether the peers were " +
	"asked for stored filters again). Non-trivial = both rescans ran to their end without an error exit and the second delivered at least one " +
	"relevant transaction with a block whose filter was readable from the persisted store when it began. Counters prefixed l2p_."

// L2Dispatch maps a scenario index of the tier's list to its family: the
// scenarios of l2.go first, then the l2-persist family.
func L2Dispatch(r *evid.Run) l2.ScenarioFunc {
	nOld := r.Pick(L2QuickScenarios, L2ThoroughScenarios)
	nPersist := r.Pick(L2PersistQuick, L2PersistThorough)
	return func(seed int64, k int, res *l2.Result) {
		switch {
		case k < nOld:
			L2Scenario(seed, k, res)
		case k < nOld+nPersist:
			L2PersistScenario(seed, k-nOld, res)
		default:
			// Family l2-stale-rewind (l2.go, planStale).
			L2Scenario(seed, l2StaleBase+k-nOld-nPersist, res)
		}
	}
}

// ---------------------------------------------------------------------------
// Plan.

type pPhase struct {
	Name      string // first | second
	StartKind string // genesis | mid
	Mode      string // end | follow | rewind
	start     *chaingen.Node
	p         *Plan    // watched items (and the update) of this rescan
	upd       *UpdSpec // rewind mode
}

type pPlan struct {
	Seed       int64
	K          int
	Fixed      bool
	ChainLen   int
	Peers      int
	Cold       string // restart | evict | restart+evict
	CacheBytes uint64 // 0 = the client's default
	Grow       int    // blocks revealed between the two rescans
	GrowDown   bool   // ... while the client is stopped (restart kinds only)
	SameWatch  bool

	w      *l2.World
	tip0   *chaingen.Node // tip during the first rescan
	tip1   *chaingen.Node // tip when the second rescan starts
	final  *chaingen.Node // fresh block revealed at the end of a following second rescan
	A, B   *pPhase
	script []string
}

func (pl *pPlan) say(format string, a ...any) { pl.script = append(pl.script, fmt.Sprintf(format, a...)) }

func (pl *pPlan) restarts() bool { return strings.HasPrefix(pl.Cold, "restart") }

func persistMakePlan(seed int64, k int) *pPlan {
	src := seed*1_000_003 + int64(k)*7919 + 4242
	fixed := k < L2PersistFixed
	if fixed {
		src = 770_000 + int64(k) // seed-independent
	}
	rng := rand.New(rand.NewSource(src))
	pl := &pPlan{Seed: seed, K: k, Fixed: fixed}
	pl.A = &pPhase{Name: "first"}
	pl.B = &pPhase{Name: "second"}

	var aStart, bStart int // heights; -1 = seeded
	switch k {
	case 0:
		// Fixed: one peer, 60 blocks, both rescans genesis -> tip with the same
		// watch list, the client restarted in between.
		pl.ChainLen, pl.Peers, pl.Cold, pl.CacheBytes, pl.Grow, pl.SameWatch = 60, 1, "restart", 0, 0, true
		pl.A.StartKind, pl.A.Mode, pl.B.StartKind, pl.B.Mode = "genesis", "end", "genesis", "end"
	case 1:
		// Fixed: two peers, 90 blocks, a 150-byte filter cache and no restart;
		// the second rescan watches fresh keys, follows the tip and is then
		// rewound (with disconnect notifications) into the stored range.
		pl.ChainLen, pl.Peers, pl.Cold, pl.CacheBytes, pl.Grow, pl.SameWatch = 90, 2, "evict", 150, 0, false
		pl.A.StartKind, pl.A.Mode, pl.B.StartKind, pl.B.Mode = "genesis", "follow", "mid", "rewind"
		bStart = 40
	default:
		pl.ChainLen = 40 + rng.Intn(221)
		pl.Peers = 1 + rng.Intn(2)
		pl.Cold = []string{"restart", "restart", "evict", "restart+evict"}[rng.Intn(4)]
		if pl.Cold != "restart" {
			pl.CacheBytes = uint64(30 + rng.Intn(601))
		}
		pl.Grow = []int{0, 0, 1, 2, 3}[rng.Intn(5)]
		pl.GrowDown = pl.restarts() && rng.Intn(2) == 0
		pl.SameWatch = rng.Intn(2) == 0
		pl.A.StartKind = []string{"genesis", "genesis", "mid"}[rng.Intn(3)]
		pl.A.Mode = []string{"end", "follow"}[rng.Intn(2)]
		pl.B.StartKind = []string{"genesis", "mid", "mid"}[rng.Intn(3)]
		pl.B.Mode = []string{"end", "follow", "rewind", "rewind"}[rng.Intn(4)]
		aStart, bStart = -1, -1
	}

	span := time.Duration(pl.ChainLen+400) * 6 * time.Second
	if span < 2*time.Hour {
		span = 2 * time.Hour
	}
	w := l2.NewWorld(l2.Config{Seed: src + 900_000, Preset: chaingen.PresetNoRetarget, SpacingSec: 4, GenesisAgo: span})
	pl.w = w
	g := w.G
	trunk := g.Extend(g.Genesis, pl.ChainLen, chaingen.PaceNormal)
	pl.tip0 = trunk[pl.ChainLen-1]
	pl.tip1 = pl.tip0
	if pl.Grow > 0 {
		ext := g.Extend(pl.tip0, pl.Grow, chaingen.PaceNormal)
		pl.tip1 = ext[len(ext)-1]
	}

	// Start blocks. The second rescan starts at or above the first one's start
	// block: everything it walks up to tip0 was fetched (and handed to the
	// store) by the first.
	if pl.A.StartKind == "genesis" {
		pl.A.start = g.Genesis
	} else {
		if aStart < 0 {
			aStart = 1 + rng.Intn(pl.ChainLen/2)
		}
		pl.A.start = pl.tip0.Ancestor(int32(aStart))
	}
	if pl.B.StartKind == "genesis" && pl.A.start.Height > 0 {
		pl.B.StartKind = "mid"
		bStart = int(pl.A.start.Height)
	}
	if pl.B.StartKind == "genesis" {
		pl.B.start = g.Genesis
	} else {
		lo, hi := int(pl.A.start.Height), int(pl.tip0.Height)-8
		if bStart <= 0 {
			bStart = lo
			if hi > lo {
				bStart = lo + rng.Intn(hi-lo+1)
			}
		}
		pl.B.start = pl.tip0.Ancestor(int32(bStart))
	}

	// Watch lists: a good part of the key pool, so that most blocks of the
	// range carry a relevant transaction.
	mk := func(ph *pPhase, tip *chaingen.Node) {
		ph.p = &Plan{G: g, rng: rng, used: map[WatchKey]bool{}, usedOps: map[wire.OutPoint]bool{}, simTip: tip, StartNode: ph.start}
	}
	mk(pl.A, pl.tip0)
	mk(pl.B, pl.tip1)
	pick := func(ph *pPhase) {
		for i, n := 0, 3+rng.Intn(3); i < n; i++ {
			if kk, ok := ph.p.freshKey(); ok {
				ph.p.InitKeys = append(ph.p.InitKeys, kk)
			}
		}
	}
	if k == 0 {
		// Fixed: six named keys of the pool (five P2WPKH, one P2PKH).
		for _, kk := range []WatchKey{{Key: 1}, {Key: 4}, {Key: 7}, {Key: 10}, {Key: 13}, {Key: 2, Legacy: true}} {
			pl.A.p.used[kk] = true
			pl.A.p.InitKeys = append(pl.A.p.InitKeys, kk)
		}
	} else {
		pick(pl.A)
	}
	if pl.SameWatch {
		for _, kk := range pl.A.p.InitKeys {
			pl.B.p.used[kk] = true
			pl.B.p.InitKeys = append(pl.B.p.InitKeys, kk)
		}
	} else {
		pick(pl.B)
	}
	for _, ph := range []*pPhase{pl.A, pl.B} {
		if ph.start.Height > 0 && (fixed || rng.Intn(4) != 0) {
			ph.p.InitInputs = ph.p.freshUtxos(ph.start, 1+rng.Intn(3))
		}
	}
	if !fixed && rng.Intn(6) == 0 {
		if kk, ok := pl.B.p.freshKey(); ok {
			pl.B.p.InitScripts = append(pl.B.p.InitScripts, pl.B.p.script(kk))
		}
	}

	// The update of a rewound second rescan: new items plus a rewind to a
	// seeded height of the range the first rescan stored.
	if pl.B.Mode == "rewind" {
		kind := "addrs+rewind"
		silent := false
		lo, hi := int(pl.A.start.Height), int(pl.tip1.Height)-2
		if lo < 1 {
			lo = 1
		}
		to := lo
		if !fixed {
			kind = []string{"addrs+rewind", "addrs+rewind", "inputs+rewind", "rewind"}[rng.Intn(4)]
			silent = rng.Intn(4) == 0
			if hi > lo {
				to = lo + rng.Intn(hi-lo+1)
			}
		} else {
			to = 12
		}
		o := pl.B.p.opUpdate(kind, true, "settled")
		o.Upd.Rewind, o.Upd.Silent = uint32(to), silent
		pl.B.upd = o.Upd
	}
	if pl.B.Mode != "end" {
		pl.final = g.Extend(pl.tip1, 1, chaingen.PaceNormal)[0]
	}

	cache := "default"
	if pl.CacheBytes > 0 {
		cache = fmt.Sprintf("%dB", pl.CacheBytes)
	}
	pl.say("chain=%d peers=%d persist-to-disk filter-cache=%s", pl.ChainLen, pl.Peers, cache)
	pl.say("first rescan: start=%s@%d mode=%s watch=%v inputs=%d", pl.A.StartKind, pl.A.start.Height, pl.A.Mode, pl.A.p.InitKeys, len(pl.A.p.InitInputs))
	pl.say("wait until the store holds the filters of heights %d..%d", pl.A.start.Height+1, pl.tip0.Height)
	pl.say("cold=%s grow=+%d (while-down=%v)", pl.Cold, pl.Grow, pl.GrowDown)
	s := fmt.Sprintf("second rescan: start=%s@%d mode=%s watch=%v inputs=%d by-script=%d", pl.B.StartKind, pl.B.start.Height, pl.B.Mode,
		pl.B.p.InitKeys, len(pl.B.p.InitInputs), len(pl.B.p.InitScripts))
	if u := pl.B.upd; u != nil {
		s += fmt.Sprintf("; at tip: update#%d(%s,rewind=%d,silent=%v)", u.ID, u.Kind, u.Rewind, u.Silent)
	}
	if pl.final != nil {
		s += fmt.Sprintf("; then fresh block %d", pl.final.Height)
	}
	pl.say("%s", s)
	return pl
}

// ---------------------------------------------------------------------------
// Execution.

type pRun struct {
	pl    *pPlan
	w     *l2.World
	live  sync.Map // *netsim.Peer -> *netsim.Conn on which a post-handshake message was seen
	trace []string
}

func (x *pRun) tracef(format string, a ...any) { x.trace = append(x.trace, fmt.Sprintf(format, a...)) }

func (x *pRun) announce(n *chaingen.Node) int {
	k := 0
	for _, p := range x.w.Peers {
		c := p.Conn()
		if c == nil || c.Dead() {
			continue
		}
		if v, ok := x.live.Load(p); !ok || v.(*netsim.Conn) != c {
			continue
		}
		p.AnnounceInv(n)
		k++
	}
	return k
}

// reveal moves every peer's view to n; connected peers announce it.
func (x *pRun) reveal(n *chaingen.Node, announce bool) {
	for _, p := range x.w.Peers {
		p.View.SetTip(n)
	}
	k := 0
	if announce {
		k = x.announce(n)
	}
	x.tracef("honest tip -> %d (%s), announced by %d peers", n.Height, short(n.Hash), k)
}

// awaitClient waits (pacing) until the client reports n, re-announcing every 2 s.
func (x *pRun) awaitClient(n *chaingen.Node, d time.Duration) bool {
	deadline := time.Now().Add(d)
	last := time.Now()
	for time.Now().Before(deadline) {
		if x.w.SyncedTo(n) {
			return true
		}
		if time.Since(last) > 2*time.Second {
			last = time.Now()
			x.announce(n)
		}
		time.Sleep(5 * time.Millisecond)
	}
	x.tracef("client did not report height %d within %v", n.Height, d)
	return false
}

// inStore reads the persisted filter store (not the cache) for the blocks of
// the path ]from, to]: which are readable, and (diagnostics for the witness
// only, never judged) which of those differ from the bytes the peers served.
func (x *pRun) inStore(from, to *chaingen.Node) (have map[chainhash.Hash]bool, differ []int32) {
	have = map[chainhash.Hash]bool{}
	path := to.Path()
	for h := from.Height + 1; h <= to.Height; h++ {
		n := path[h]
		f, err := x.w.Svc.FilterDB.FetchFilter(&n.Hash, filterdb.RegularFilter)
		if err != nil {
			if err != filterdb.ErrFilterNotFound {
				have[n.Hash] = true // something is stored under the key
				differ = append(differ, h)
			}
			continue
		}
		have[n.Hash] = true
		var b []byte
		if f != nil {
			b, _ = f.NBytes()
		}
		if string(b) != string(n.FilterBytes) {
			differ = append(differ, h)
		}
	}
	return have, differ
}

func (x *pRun) cfilterMsgs() int {
	n := 0
	for _, e := range x.w.Log.Snapshot() {
		if e.Dir == "tx" && e.Cmd == "cfilter" {
			n++
		}
	}
	return n
}

// pOutcome is what one rescan of the scenario produced.
type pOutcome struct {
	evs     []Ev
	viol    *Violation
	st      WalkStats
	incon   string
	exited  bool // before the harness asked it to quit
	exitErr string
}

func (x *pRun) rescanOptions(ph *pPhase, lg *Log, quit chan struct{}, end *chaingen.Node) ([]neutrino.RescanOption, error) {
	p := ph.p
	opts := []neutrino.RescanOption{neutrino.StartBlock(&headerfs.BlockStamp{Height: ph.start.Height})}
	if end != nil {
		opts = append(opts, neutrino.EndBlock(&headerfs.BlockStamp{Height: end.Height}))
	}
	var addrs []address.Address
	for _, k := range p.InitKeys {
		a, err := p.addr(k)
		if err != nil {
			return nil, err
		}
		addrs = append(addrs, a)
	}
	if len(addrs) > 0 {
		opts = append(opts, neutrino.WatchAddrs(addrs...))
	}
	var ins []neutrino.InputWithScript
	for _, u := range p.InitInputs {
		ins = append(ins, inputOf(u))
	}
	for _, s := range p.InitScripts {
		ins = append(ins, neutrino.InputWithScript{PkScript: s})
	}
	if len(ins) > 0 {
		opts = append(opts, neutrino.WatchInputs(ins...))
	}
	h := rpcclient.NotificationHandlers{
		OnFilteredBlockConnected: func(height int32, hdr *wire.BlockHeader, txs []*btcutil.Tx) {
			lg.add(Ev{Kind: EvConn, Height: height, Hash: hdr.BlockHash(), Prev: hdr.PrevBlock,
				Time: hdr.Timestamp.Unix(), txs: txHashes(txs), Note: "via l2-persist"})
		},
		OnFilteredBlockDisconnected: func(height int32, hdr *wire.BlockHeader) {
			lg.add(Ev{Kind: EvDisc, Height: height, Hash: hdr.BlockHash(), Prev: hdr.PrevBlock, Time: hdr.Timestamp.Unix()})
		},
	}
	return append(opts, neutrino.QuitChan(quit), neutrino.NotificationHandlers(h)), nil
}

func updateOptionsOf(p *Plan, u *UpdSpec) ([]neutrino.UpdateOption, error) {
	var uo []neutrino.UpdateOption
	var addrs []address.Address
	for _, k := range u.Keys {
		a, err := p.addr(k)
		if err != nil {
			return nil, err
		}
		addrs = append(addrs, a)
	}
	if len(addrs) > 0 {
		uo = append(uo, neutrino.AddAddrs(addrs...))
	}
	var ins []neutrino.InputWithScript
	for _, in := range u.Inputs {
		ins = append(ins, inputOf(in))
	}
	if len(ins) > 0 {
		uo = append(uo, neutrino.AddInputs(ins...))
	}
	if u.Rewind > 0 {
		uo = append(uo, neutrino.Rewind(u.Rewind))
		if u.Silent {
			uo = append(uo, neutrino.DisableDisconnectedNtfns(true))
		}
	}
	return uo, nil
}

// runRescan runs one rescan of the scenario to its end and judges its log.
// tip is the static honest tip while it catches up.
func (x *pRun) runRescan(ph *pPhase, tip *chaingen.Node) *pOutcome {
	out := &pOutcome{}
	lg := newLog()
	lg.curHash, lg.curHeight, lg.haveCur = ph.start.Hash, ph.start.Height, true
	quit := make(chan struct{})
	var end *chaingen.Node
	if ph.Mode == "end" {
		end = tip
	}
	opts, err := x.rescanOptions(ph, lg, quit, end)
	if err != nil {
		out.incon = "harness: " + err.Error()
		return out
	}
	rs := neutrino.NewRescan(&neutrino.RescanChainSource{ChainService: x.w.Svc}, opts...)
	errc := rs.Start()
	go func() {
		err := <-errc
		lg.add(Ev{Kind: EvExit, Err: errText(err)})
	}()
	x.tracef("%s rescan started at height %d, mode %s", ph.Name, ph.start.Height, ph.Mode)

	atTip := func(n *chaingen.Node) bool {
		return lg.waitFor(90*time.Second, func() bool { return lg.exited || lg.lastConn == n.Hash })
	}
	var final *chaingen.Node
	switch ph.Mode {
	case "end":
		if !lg.waitFor(90*time.Second, func() bool { return lg.exited }) {
			out.incon = ph.Name + " rescan: end block not reached within the watchdog"
		}
	default:
		if !atTip(tip) {
			out.incon = ph.Name + " rescan: tip not reached within the watchdog"
			break
		}
		x.tracef("%s rescan reached the tip (%d)", ph.Name, tip.Height)
		final = tip
		if _, _, _, _, ex := lg.tracker(); ph.upd != nil && !ex {
			u := ph.upd
			uo, err := updateOptionsOf(ph.p, u)
			if err != nil {
				out.incon = "harness: " + err.Error()
				break
			}
			lg.add(Ev{Kind: EvUpdCall, Upd: u.ID, Note: u.Kind})
			done := make(chan error, 1)
			go func() { done <- rs.Update(uo...) }()
			select {
			case err := <-done:
				lg.add(Ev{Kind: EvUpdRet, Upd: u.ID, Err: errText(err)})
				x.tracef("update#%d(%s,rewind=%d,silent=%v) returned %q", u.ID, u.Kind, u.Rewind, u.Silent, errText(err))
			case <-time.After(30 * time.Second):
				out.incon = ph.Name + " rescan: Update did not return within the watchdog"
			}
		}
		if out.incon == "" && ph.Name == "second" && x.pl.final != nil {
			// One fresh block: the rescan is done with everything before it
			// once it has connected this one.
			final = x.pl.final
			x.reveal(final, true)
			switch {
			case !x.awaitClient(final, 60*time.Second):
				out.incon = "client did not report the honest tip within the watchdog (C04's subject)"
			case !atTip(final):
				out.incon = ph.Name + " rescan: fresh block not connected within the watchdog"
			}
		}
		// Let trailing callbacks (there should be none) arrive.
		last, since := lg.length(), time.Now()
		for time.Since(since) < 150*time.Millisecond {
			time.Sleep(5 * time.Millisecond)
			if n := lg.length(); n != last {
				last, since = n, time.Now()
			}
		}
	}

	lg.add(Ev{Kind: EvNote, Note: "shutdown"})
	close(quit)
	if !lg.waitFor(30*time.Second, func() bool { return lg.exited }) {
		if out.incon == "" {
			out.incon = ph.Name + " rescan did not terminate after quit within the watchdog"
		}
	} else {
		done := make(chan struct{})
		go func() { rs.WaitForShutdown(); close(done) }()
		select {
		case <-done:
		case <-time.After(30 * time.Second):
			if out.incon == "" {
				out.incon = "WaitForShutdown did not return within the watchdog"
			}
		}
	}

	out.evs = lg.snapshot()
	judged := out.evs
	for i, e := range out.evs {
		if e.Kind == EvNote && e.Note == "shutdown" {
			judged = out.evs[:i]
			break
		}
	}
	for _, e := range judged {
		if e.Kind == EvExit {
			out.exited, out.exitErr = true, e.Err
		}
	}
	p := ph.p
	cfg := WalkCfg{Tree: x.w.G.ByHash, Start: ph.start, Updates: map[int]*WalkUpd{}, Scripts: p.InitScripts}
	for _, kk := range p.InitKeys {
		cfg.Addrs = append(cfg.Addrs, p.script(kk))
	}
	for _, u := range p.InitInputs {
		cfg.Ops = append(cfg.Ops, u.Op)
	}
	for _, u := range p.Updates {
		wu := &WalkUpd{Rewind: int32(u.Rewind), Silent: u.Silent}
		for _, kk := range u.Keys {
			wu.Addrs = append(wu.Addrs, p.script(kk))
		}
		for _, in := range u.Inputs {
			wu.Ops = append(wu.Ops, in.Op)
		}
		cfg.Updates[u.ID] = wu
	}
	if out.incon != "" {
		final = nil
	}
	v, st := Walk(cfg, judged, final, end)
	if v != nil && out.incon != "" && strings.HasPrefix(v.Rule, "walk-ends") {
		v = nil
	}
	out.viol, out.st = v, st
	x.tracef("%s rescan: connected=%d disconnected=%d txs=%d exit=%v/%q inconclusive=%q", ph.Name, st.Connected, st.Disconnected,
		st.TxDelivered, out.exited, out.exitErr, out.incon)
	return out
}

type pWitness struct {
	Scenario    int      `json:"scenario"`
	Seed        int64    `json:"seed"`
	Fixed       bool     `json:"seed_independent"`
	Fingerprint string   `json:"fingerprint"`
	Script      []string `json:"script"`
	Trace       []string `json:"trace"`
	Rescan      string   `json:"violating_rescan,omitempty"`
	StoreInfo   string   `json:"store_info_not_judged"`
	FirstLog    []Ev     `json:"first_rescan_log_tail"`
	SecondLog   []Ev     `json:"second_rescan_log_tail"`
	Net         []string `json:"net_log_tail"`
}

func tailEvs(evs []Ev, n int) []Ev {
	if len(evs) > n {
		return evs[len(evs)-n:]
	}
	return evs
}

// L2PersistScenario runs scenario k of the l2-persist family in this (child)
// process.
func L2PersistScenario(seed int64, k int, res *l2.Result) {
	defer func() {
		if rec := recover(); rec != nil {
			buf := make([]byte, 1<<14)
			buf = buf[:runtime.Stack(buf, false)]
			fmt.Fprintf(os.Stderr, "C09 l2-persist scenario %d: harness panic: %v\n%s\n", k, rec, buf)
			res.Nontrivial = false
			res.Inconcl("l2-persist: harness panic")
		}
	}()
	pl := persistMakePlan(seed, k)
	w := pl.w
	defer w.Cleanup()
	res.Name = fmt.Sprintf("c09-l2-persist-%d", k)
	res.Fingerprint = L2Persist + "|not-started"
	x := &pRun{pl: pl, w: w}

	for i := 0; i < pl.Peers; i++ {
		p := w.AddPeer(pl.tip0)
		p.OnMsg = func(p *netsim.Peer, m wire.Message) bool {
			if c := p.Conn(); c != nil {
				x.live.Store(p, c)
			}
			return false
		}
	}
	copts := l2.ClientOpts{PersistToDisk: true, FilterCache: pl.CacheBytes}
	if err := w.StartClient(nil, copts); err != nil {
		res.Inconcl("l2-persist: client start failed")
		return
	}
	defer func() {
		if ok, _ := w.StopClient(60 * time.Second); !ok {
			res.Inconcl("l2-persist: Stop did not return within 60s (C17's subject)")
		}
	}()
	if !l2.WaitFor(60*time.Second, func() bool { return w.SyncedTo(pl.tip0) }) {
		res.Inconcl("l2-persist: initial sync not reached (C04's subject)")
		return
	}

	// First rescan: fills the filter store through the batch writer.
	a := x.runRescan(pl.A, pl.tip0)
	msgsA := x.cfilterMsgs()

	// Wait (pacing, bounded) until the writer has drained: every filter of the
	// walked range is readable from the store.
	want := int(pl.tip0.Height - pl.A.start.Height)
	var stored map[chainhash.Hash]bool
	var differ []int32
	l2.WaitFor(20*time.Second, func() bool {
		stored, differ = x.inStore(pl.A.start, pl.tip0)
		return len(stored) >= want
	})
	x.tracef("store holds %d of %d filters of the first rescan's range", len(stored), want)

	// Make the filter cache cold.
	restarted := false
	if pl.restarts() {
		if ok, _ := w.StopClient(60 * time.Second); !ok {
			res.Inconcl("l2-persist: Stop did not return within 60s (C17's subject)")
			return
		}
		if pl.Grow > 0 && pl.GrowDown {
			x.reveal(pl.tip1, false)
		}
		o := copts
		o.Dir = w.Dir
		if err := w.StartClient(nil, o); err != nil {
			res.Inconcl("l2-persist: client restart failed")
			return
		}
		restarted = true
		x.tracef("client restarted on the same data directory")
		base := pl.tip0
		if pl.GrowDown {
			base = pl.tip1
		}
		if !l2.WaitFor(60*time.Second, func() bool { return w.SyncedTo(base) }) {
			res.Inconcl("l2-persist: sync after restart not reached (C04's subject)")
			return
		}
	}
	if pl.tip1 != pl.tip0 && !w.SyncedTo(pl.tip1) {
		x.reveal(pl.tip1, true)
		if !x.awaitClient(pl.tip1, 60*time.Second) {
			res.Inconcl("l2-persist: client did not report the honest tip within the watchdog (C04's subject)")
			return
		}
	}
	// What the second rescan will find: persisted filters and cache entries.
	stored, differ = x.inStore(pl.A.start, pl.tip0)
	cacheLen := w.Svc.FilterCache.Len()
	msgs0 := x.cfilterMsgs()

	b := x.runRescan(pl.B, pl.tip1)
	msgsB := x.cfilterMsgs() - msgs0

	// Measurements (evidence only).
	storedRelevant, storedWalked := 0, 0
	seen := map[chainhash.Hash]bool{}
	for _, e := range b.evs {
		if e.Kind != EvConn || !stored[e.Hash] {
			continue
		}
		if !seen[e.Hash] {
			seen[e.Hash] = true
			storedWalked++
		}
		if len(e.txs) > 0 {
			storedRelevant++
		}
	}
	fresh := int(pl.tip1.Height - pl.tip0.Height)
	if pl.final != nil {
		fresh++
	}
	served := "store"
	if msgsB > fresh {
		served = "store+peers-asked-again"
	}
	bm := pl.B.Mode
	if u := pl.B.upd; u != nil {
		bm += "(" + u.Kind
		if u.Silent {
			bm += ",silent"
		}
		bm += ")"
	}
	watch := "fresh"
	if pl.SameWatch {
		watch = "same"
	}
	growth := "none"
	if pl.Grow > 0 {
		growth = map[bool]string{true: "while-down", false: "live"}[pl.GrowDown]
	}
	exitOf := func(o *pOutcome) string {
		if !o.exited {
			return "running"
		}
		return l2ExitKind(o.exitErr)
	}
	res.Fingerprint = fmt.Sprintf("%s|cold=%s|first=%s/%s|second=%s/%s|growth=%s|watch=%s|filters=%s|exit=%s,%s",
		L2Persist, pl.Cold, pl.A.StartKind, pl.A.Mode, pl.B.StartKind, bm, growth, watch, served, exitOf(a), exitOf(b))
	errExit := func(o *pOutcome) bool { return o.exited && o.exitErr != "" && o.exitErr != "quit" }
	incon := a.incon
	if incon == "" {
		incon = b.incon
	}
	res.Nontrivial = incon == "" && !errExit(a) && !errExit(b) && b.st.Connected >= 3 && storedRelevant > 0

	res.Count("l2p_scenarios", 1)
	res.Count("l2p_cold_"+strings.ReplaceAll(pl.Cold, "+", "_and_"), 1)
	if restarted {
		res.Count("l2p_client_restarts_on_same_directory", 1)
	}
	res.Count("l2p_first_rescan_blocks_connected", int64(a.st.Connected))
	res.Count("l2p_first_rescan_relevant_txs_delivered", int64(a.st.TxDelivered))
	res.Count("l2p_first_rescan_cfilter_msgs_from_peers", int64(msgsA))
	res.Count("l2p_filters_expected_in_store", int64(want))
	res.Count("l2p_filters_readable_from_store_before_second_rescan", int64(len(stored)))
	res.Count("l2p_filter_cache_entries_before_second_rescan", int64(cacheLen))
	res.Count("l2p_second_rescan_blocks_connected", int64(b.st.Connected))
	res.Count("l2p_second_rescan_blocks_disconnected", int64(b.st.Disconnected))
	res.Count("l2p_second_rescan_relevant_txs_expected", int64(b.st.TxExpected))
	res.Count("l2p_second_rescan_relevant_txs_delivered", int64(b.st.TxDelivered))
	res.Count("l2p_second_rescan_relevant_txs_only_via_update", int64(b.st.TxFromUpdate))
	res.Count("l2p_second_rescan_blocks_with_persisted_filter", int64(storedWalked))
	res.Count("l2p_second_rescan_relevant_block_callbacks_with_persisted_filter", int64(storedRelevant))
	res.Count("l2p_second_rescan_cfilter_msgs_from_peers", int64(msgsB))
	if pl.B.upd != nil {
		res.Count("l2p_updates_with_rewind_into_stored_range", 1)
	}
	if errExit(a) || errExit(b) {
		res.Count("l2p_rescan_error_exits", 1)
	}
	res.Count("l2p_net_events_logged", w.Log.Len())
	if res.Nontrivial {
		res.Mark(fmt.Sprintf("%s/relevant-block-served-from-persisted-store/cold=%s/second=%s", L2Persist, pl.Cold, pl.B.Mode))
	}
	if incon != "" {
		res.Inconcl("l2-persist: " + strings.SplitN(incon, ":", 2)[0])
	}

	storeInfo := fmt.Sprintf("before the second rescan: %d of %d filters of heights %d..%d readable from the store, %d filter cache entries",
		len(stored), want, pl.A.start.Height+1, pl.tip0.Height, cacheLen)
	if len(differ) > 0 {
		sort.Slice(differ, func(i, j int) bool { return differ[i] < differ[j] })
		d := differ
		if len(d) > 40 {
			d = d[:40]
		}
		storeInfo += fmt.Sprintf("; stored bytes differ from the bytes the peers served at %d heights (first: %v)", len(differ), d)
	}
	wit := func(which string) pWitness {
		return pWitness{Scenario: k, Seed: seed, Fixed: pl.Fixed, Fingerprint: res.Fingerprint, Script: pl.script, Trace: x.trace, Rescan: which,
			StoreInfo: storeInfo, FirstLog: tailEvs(a.evs, 300), SecondLog: tailEvs(b.evs, 300), Net: w.Log.Tail(60)}
	}
	report := func(which string, o *pOutcome) {
		v := o.viol
		if v == nil {
			return
		}
		src := "filter-not-persisted"
		if which == "first" {
			src = "while-filling-the-store"
		}
		if strings.HasPrefix(v.Rule, "walk-ends") {
			src = "end-of-walk"
		} else if which == "second" {
			for _, e := range o.evs {
				if e.Seq == v.Seq && (e.Kind == EvConn || e.Kind == EvDisc) && stored[e.Hash] {
					src = "filter-persisted-by-first-rescan"
				}
			}
		}
		res.Violate(evid.Sig(v.Rule, v.Shape, which+"-rescan", "cold="+pl.Cold, src),
			fmt.Sprintf("L2 persist scenario %d [%s] %s rescan: %s", k, res.Fingerprint, which, v.Text), wit(which))
	}
	report("first", a)
	report("second", b)
	if a.viol == nil && b.viol == nil && incon == "" {
		res.Sample = map[string]any{"l2_persist_scenario": k, "fingerprint": res.Fingerprint, "script": pl.script, "store": storeInfo,
			"first": map[string]int{"connected": a.st.Connected, "txs": a.st.TxDelivered},
			"second": map[string]int{"connected": b.st.Connected, "disconnected": b.st.Disconnected, "txs": b.st.TxDelivered,
				"relevant_block_callbacks_with_persisted_filter": storedRelevant, "cfilter_msgs_from_peers": msgsB}}
	}
	if os.Getenv("C09_L2_VERBOSE") != "" {
		fmt.Fprintf(os.Stderr, "persist scenario %d %s\n", k, res.Fingerprint)
		for _, s := range pl.script {
			fmt.Fprintln(os.Stderr, "   plan:", s)
		}
		for _, t := range x.trace {
			fmt.Fprintln(os.Stderr, "   ", t)
		}
		fmt.Fprintln(os.Stderr, "   ", storeInfo)
		fmt.Fprintf(os.Stderr, "  first: violation=%+v stats=%+v\n  second: violation=%+v stats=%+v\n", a.viol, a.st, b.viol, b.st)
	}
}
