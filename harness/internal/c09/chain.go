package c09

import (
	"errors"
	"fmt"
	"runtime"
	"strings"
	"sync"
	"sync/atomic"

	"github.com/btcsuite/btcd/btcutil/v2"
	"github.com/btcsuite/btcd/btcutil/v2/gcs"
	"github.com/btcsuite/btcd/chaincfg/v2"
	"github.com/btcsuite/btcd/chainhash/v2"
	"github.com/btcsuite/btcd/wire/v2"
	"github.com/lightninglabs/neutrino"
	"github.com/lightninglabs/neutrino/blockntfns"
	"github.com/lightninglabs/neutrino/headerfs"

	"verif/internal/chaingen"
)

// Failure kinds that can be scripted for a block.
const (
	FailNone         = "none"
	FailCFilter      = "cfilter"      // GetCFilter errors -> errRetryBlock -> retry queue
	FailFilterHeader = "filterheader" // GetFilterHeaderByHeight errors -> rescan falls back to catch-up
	FailBlock        = "block"        // GetBlock errors -> rescan falls back to catch-up
)

var errScripted = errors.New("c09: scripted fetch failure")

// Chain is the harness side of the world: it owns the VISIBLE chain (a path
// in the generator's tree), implements neutrino.ChainSource on top of it and
// is the blockntfns.NotificationSource of a real SubscriptionManager.
//
// Like the real ChainService it only knows block headers of the current
// chain (headerfs removes the hash index entry of a rolled-back header),
// serves blocks only for hashes whose header it has, and emits notifications
// after the stores changed: Disconnected highest-first, one store rollback per
// notification; Connected after the (possibly batched) filter-header write.
type Chain struct {
	params chaincfg.Params
	tree   map[chainhash.Hash]*chaingen.Node
	log    *Log

	mu      sync.Mutex
	path    []*chaingen.Node // visible chain, index = height
	failCF  map[chainhash.Hash]int
	failBlk map[chainhash.Hash]int
	failFH  map[chainhash.Hash]int // keyed by the hash of the block whose filter header is asked for
	served  map[chainhash.Hash]int // failures served per block hash (any kind)

	staleFilterServed bool // GetCFilter of a block not in the visible chain: serve (cache hit) or ErrHashNotFound
	current           atomic.Bool

	ntfns   chan blockntfns.BlockNtfn // unbuffered, like blockManager.blockNtfnChan
	stopped chan struct{}
	mgr     *blockntfns.SubscriptionManager

	// Gate: parks the rescan goroutine at a chosen step (ChainSource call or
	// callback) so the driver can change the world at exactly that moment.
	steps      atomic.Int64
	gateAt     atomic.Int64 // 0 = none
	gateAfter  atomic.Bool  // park after the call evaluated (stale answer) instead of before
	parked     chan string
	release    chan struct{}
	gid        atomic.Value // string: goroutine id of the rescan goroutine
	gidOnce    sync.Once
	via        atomic.Value // string: how the rescan obtained the header it is about to notify
	retries    atomic.Int64 // scripted failures served
	subscribes atomic.Int64

	// Hold: parks the rescan goroutine inside the connected callback of one
	// chosen block (same parked/release channels as the gate).
	holdConn atomic.Pointer[chainhash.Hash]

	// Disconnected notifications of quiet rollbacks: the store has changed,
	// the notifications have not been consumed by the subscriber yet.
	pendingDisc []blockntfns.BlockNtfn
}

func newChain(g *chaingen.Gen, initial *chaingen.Node, lg *Log) *Chain {
	c := &Chain{
		params:  *g.P,
		tree:    g.ByHash,
		log:     lg,
		path:    initial.Path(),
		failCF:  map[chainhash.Hash]int{},
		failBlk: map[chainhash.Hash]int{},
		failFH:  map[chainhash.Hash]int{},
		served:  map[chainhash.Hash]int{},
		ntfns:   make(chan blockntfns.BlockNtfn),
		stopped: make(chan struct{}),
		parked:  make(chan string, 1),
		release: make(chan struct{}),
	}
	c.current.Store(true)
	c.via.Store("unknown")
	c.mgr = blockntfns.NewSubscriptionManager(c)
	c.mgr.Start()
	return c
}

func (c *Chain) stop() {
	close(c.stopped)
	c.mgr.Stop()
}

// ---------------------------------------------------------------- gate ----

func goid() string {
	var buf [64]byte
	n := runtime.Stack(buf[:], false)
	f := strings.Fields(string(buf[:n]))
	if len(f) >= 2 {
		return f[1]
	}
	return ""
}

// enter is called at the start of every ChainSource method and every
// callback. It returns true when the caller must park on leave.
func (c *Chain) enter(what string) bool {
	c.gidOnce.Do(func() { c.gid.Store(goid()) })
	n := c.steps.Add(1)
	if at := c.gateAt.Load(); at != 0 && n == at {
		if c.gateAfter.Load() {
			return true
		}
		c.park(what + "/before")
	}
	return false
}

func (c *Chain) leave(what string, parkNow bool) {
	if parkNow {
		c.park(what + "/after")
	}
}

func (c *Chain) park(where string) {
	c.gateAt.Store(0)
	c.log.add(Ev{Kind: EvNote, Note: "parked " + where})
	c.parked <- where
	select {
	case <-c.release:
	case <-c.stopped:
	}
}

// arm sets the gate k steps ahead of the current step counter.
func (c *Chain) arm(k int, after bool) {
	c.gateAfter.Store(after)
	c.gateAt.Store(c.steps.Load() + int64(k))
}

// disarm removes an armed gate; it reports false when the gate was hit in
// the meantime (the caller must then treat it as parked).
func (c *Chain) disarm() bool {
	for {
		at := c.gateAt.Load()
		if at == 0 {
			if h := c.holdConn.Load(); h != nil && c.holdConn.CompareAndSwap(h, nil) {
				return true
			}
			return false
		}
		if c.gateAt.CompareAndSwap(at, 0) {
			return true
		}
	}
}

// ------------------------------------------------- visible chain changes ----

func (c *Chain) tip() *chaingen.Node {
	c.mu.Lock()
	defer c.mu.Unlock()
	return c.path[len(c.path)-1]
}

func (c *Chain) send(n blockntfns.BlockNtfn) {
	select {
	case c.ntfns <- n:
	case <-c.stopped:
	}
}

// grow makes nodes visible in batches (one filter-header write per batch) and
// then notifies each block of the batch, as writeCFHeadersMsg does.
func (c *Chain) grow(nodes []*chaingen.Node, batch int) {
	if batch < 1 {
		batch = 1
	}
	for len(nodes) > 0 {
		n := batch
		if n > len(nodes) {
			n = len(nodes)
		}
		chunk := nodes[:n]
		nodes = nodes[n:]
		c.mu.Lock()
		if chunk[0].Parent != c.path[len(c.path)-1] {
			c.mu.Unlock()
			panic("c09: grow does not extend the visible tip")
		}
		c.path = append(c.path, chunk...)
		c.mu.Unlock()
		c.log.add(Ev{Kind: EvChain, Note: fmt.Sprintf("visible +%d", n), Height: chunk[n-1].Height, Hash: chunk[n-1].Hash})
		for _, nd := range chunk {
			c.send(blockntfns.NewBlockConnected(nd.Hdr, uint32(nd.Height)))
		}
	}
}

// rollback removes the n highest visible blocks, one store rollback and one
// Disconnected notification per block, highest first (rollBackToHeight).
func (c *Chain) rollback(n int) {
	for i := 0; i < n; i++ {
		c.mu.Lock()
		if len(c.path) < 2 {
			c.mu.Unlock()
			return
		}
		top := c.path[len(c.path)-1]
		c.path = c.path[:len(c.path)-1]
		prev := c.path[len(c.path)-1]
		c.mu.Unlock()
		c.log.add(Ev{Kind: EvChain, Note: "visible -1", Height: top.Height, Hash: top.Hash})
		c.send(blockntfns.NewBlockDisconnected(top.Hdr, uint32(top.Height), prev.Hdr))
	}
}

// rollbackQuiet removes the n highest visible blocks like rollback, but keeps
// the Disconnected notifications back: from the subscriber's point of view
// they are still queued in its subscription (the stores change before the
// subscriber consumes the notification).
func (c *Chain) rollbackQuiet(n int) {
	for i := 0; i < n; i++ {
		c.mu.Lock()
		if len(c.path) < 2 {
			c.mu.Unlock()
			return
		}
		top := c.path[len(c.path)-1]
		c.path = c.path[:len(c.path)-1]
		prev := c.path[len(c.path)-1]
		c.pendingDisc = append(c.pendingDisc, blockntfns.NewBlockDisconnected(top.Hdr, uint32(top.Height), prev.Hdr))
		c.mu.Unlock()
		c.log.add(Ev{Kind: EvChain, Note: "visible -1 (notification pending)", Height: top.Height, Hash: top.Hash})
	}
}

// flushDisconnected dispatches (send=true) or discards the Disconnected
// notifications kept back by rollbackQuiet, in their original order.
func (c *Chain) flushDisconnected(send bool) int {
	c.mu.Lock()
	pend := c.pendingDisc
	c.pendingDisc = nil
	c.mu.Unlock()
	if send {
		for _, n := range pend {
			c.send(n)
		}
	}
	return len(pend)
}

// hold arms a park inside the connected callback of node n.
func (c *Chain) hold(n *chaingen.Node) {
	h := n.Hash
	c.holdConn.Store(&h)
}

// held is called by the connected callback; it parks when the block is the
// one a hold was armed for.
func (c *Chain) held(hash chainhash.Hash) {
	if h := c.holdConn.Load(); h != nil && *h == hash && c.holdConn.CompareAndSwap(h, nil) {
		c.park("cb-connected/hold")
	}
}

// onVisible reports whether the block with the given hash is on the visible
// chain.
func (c *Chain) onVisible(hash chainhash.Hash) bool {
	c.mu.Lock()
	defer c.mu.Unlock()
	return c.visibleLocked(c.tree[hash])
}

// makeVisible appends nodes to the visible chain without notifying (the
// filter-header batch has been written, the notifications are still to come).
func (c *Chain) makeVisible(nodes []*chaingen.Node) {
	c.mu.Lock()
	if nodes[0].Parent != c.path[len(c.path)-1] {
		c.mu.Unlock()
		panic("c09: makeVisible does not extend the visible tip")
	}
	c.path = append(c.path, nodes...)
	c.mu.Unlock()
	last := nodes[len(nodes)-1]
	c.log.add(Ev{Kind: EvChain, Note: fmt.Sprintf("visible +%d (notifications pending)", len(nodes)), Height: last.Height, Hash: last.Hash})
}

// notify dispatches the Connected notifications of nodes made visible before.
func (c *Chain) notify(nodes []*chaingen.Node) {
	for _, nd := range nodes {
		c.send(blockntfns.NewBlockConnected(nd.Hdr, uint32(nd.Height)))
	}
}

func (c *Chain) setFail(kind string, n *chaingen.Node, times int) {
	c.mu.Lock()
	defer c.mu.Unlock()
	switch kind {
	case FailCFilter:
		c.failCF[n.Hash] = times
	case FailBlock:
		c.failBlk[n.Hash] = times
	case FailFilterHeader:
		c.failFH[n.Hash] = times
	}
}

func (c *Chain) failuresServed(h chainhash.Hash) int {
	c.mu.Lock()
	defer c.mu.Unlock()
	return c.served[h]
}

// visibleLocked reports whether the node is on the visible chain.
func (c *Chain) visibleLocked(n *chaingen.Node) bool {
	return n != nil && int(n.Height) < len(c.path) && c.path[n.Height] == n
}

// ------------------------------------------------ neutrino.ChainSource ----

var _ neutrino.ChainSource = (*Chain)(nil)

// ChainParams returns the generator's parameters.
func (c *Chain) ChainParams() chaincfg.Params { return c.params }

// BestBlock: tip of the visible chain (headers and filter headers move
// together in this harness).
func (c *Chain) BestBlock() (*headerfs.BlockStamp, error) {
	p := c.enter("BestBlock")
	c.mu.Lock()
	t := c.path[len(c.path)-1]
	c.mu.Unlock()
	c.leave("BestBlock", p)
	return &headerfs.BlockStamp{Height: t.Height, Hash: t.Hash, Timestamp: t.Hdr.Timestamp}, nil
}

// GetBlockHeaderByHeight reads the visible chain.
func (c *Chain) GetBlockHeaderByHeight(h uint32) (*wire.BlockHeader, error) {
	p := c.enter("GetBlockHeaderByHeight")
	c.via.Store("height-walk")
	c.mu.Lock()
	var hdr *wire.BlockHeader
	if int(h) < len(c.path) {
		cp := c.path[h].Hdr
		hdr = &cp
	}
	c.mu.Unlock()
	c.leave("GetBlockHeaderByHeight", p)
	if hdr == nil {
		return nil, headerfs.ErrHeightNotFound
	}
	return hdr, nil
}

// GetBlockHeader knows only headers of the visible chain, like the header
// store whose hash index drops rolled-back headers.
func (c *Chain) GetBlockHeader(hash *chainhash.Hash) (*wire.BlockHeader, uint32, error) {
	p := c.enter("GetBlockHeader")
	c.mu.Lock()
	n := c.tree[*hash]
	ok := c.visibleLocked(n)
	c.mu.Unlock()
	c.leave("GetBlockHeader", p)
	if !ok {
		return nil, 0, headerfs.ErrHashNotFound
	}
	hdr := n.Hdr
	return &hdr, uint32(n.Height), nil
}

// GetFilterHeaderByHeight reads the visible chain; failures can be scripted
// for the block currently at that height.
func (c *Chain) GetFilterHeaderByHeight(h uint32) (*chainhash.Hash, error) {
	p := c.enter("GetFilterHeaderByHeight")
	c.via.Store("notification")
	c.mu.Lock()
	var (
		fh   *chainhash.Hash
		fail bool
	)
	if int(h) < len(c.path) {
		n := c.path[h]
		if c.failFH[n.Hash] > 0 {
			c.failFH[n.Hash]--
			c.served[n.Hash]++
			fail = true
		} else {
			cp := n.FilterHeader
			fh = &cp
		}
	}
	c.mu.Unlock()
	c.leave("GetFilterHeaderByHeight", p)
	if fail {
		c.retries.Add(1)
		return nil, errScripted
	}
	if fh == nil {
		return nil, headerfs.ErrHeightNotFound
	}
	return fh, nil
}

// GetCFilter serves the ground-truth filter of any block of the visible
// chain. For a block that is no longer in the chain it answers either from
// "the cache" or with headerfs.ErrHashNotFound (per-case choice), the two
// things the real service can do.
func (c *Chain) GetCFilter(hash chainhash.Hash, _ wire.FilterType,
	_ ...neutrino.QueryOption) (*gcs.Filter, error) {

	p := c.enter("GetCFilter")
	c.mu.Lock()
	n := c.tree[hash]
	vis := c.visibleLocked(n)
	fail := false
	if n != nil && c.failCF[hash] > 0 {
		c.failCF[hash]--
		c.served[hash]++
		fail = true
	}
	stale := c.staleFilterServed
	c.mu.Unlock()
	var (
		f   *gcs.Filter
		err error
	)
	switch {
	case fail:
		c.retries.Add(1)
		err = errScripted
	case n == nil:
		err = headerfs.ErrHashNotFound
	case !vis && !stale:
		// Logged BEFORE the call returns, so the mark precedes the
		// callback the rescan makes for this block.
		c.log.add(Ev{Kind: EvNotFound, Hash: hash, Height: n.Height})
		err = headerfs.ErrHashNotFound
	default:
		f = n.Filter
	}
	c.leave("GetCFilter", p)
	return f, err
}

// GetBlock serves the generator's block for a hash whose header is in the
// visible chain.
func (c *Chain) GetBlock(hash chainhash.Hash, _ ...neutrino.QueryOption) (*btcutil.Block, error) {
	p := c.enter("GetBlock")
	c.mu.Lock()
	n := c.tree[hash]
	vis := c.visibleLocked(n)
	fail := false
	if n != nil && c.failBlk[hash] > 0 {
		c.failBlk[hash]--
		c.served[hash]++
		fail = true
	}
	c.mu.Unlock()
	c.leave("GetBlock", p)
	switch {
	case fail:
		c.retries.Add(1)
		return nil, errScripted
	case !vis:
		return nil, fmt.Errorf("couldn't get header for block %s from database", hash)
	}
	b := btcutil.NewBlock(n.Block)
	b.SetHeight(n.Height)
	return b, nil
}

// Subscribe goes through the REAL subscription manager.
func (c *Chain) Subscribe(bestHeight uint32) (*blockntfns.Subscription, error) {
	p := c.enter("Subscribe")
	c.subscribes.Add(1)
	s, err := c.mgr.NewSubscription(bestHeight)
	c.leave("Subscribe", p)
	return s, err
}

// IsCurrent is driven by the scenario.
func (c *Chain) IsCurrent() bool {
	p := c.enter("IsCurrent")
	v := c.current.Load()
	c.leave("IsCurrent", p)
	return v
}

// ------------------------------------------ blockntfns.NotificationSource ----

var _ blockntfns.NotificationSource = (*Chain)(nil)

// Notifications is the unbuffered channel the manager reads.
func (c *Chain) Notifications() <-chan blockntfns.BlockNtfn { return c.ntfns }

// NotificationsSinceHeight mirrors blockManager.NotificationsSinceHeight over
// the visible chain.
func (c *Chain) NotificationsSinceHeight(height uint32) ([]blockntfns.BlockNtfn, uint32, error) {
	c.mu.Lock()
	defer c.mu.Unlock()
	best := uint32(len(c.path) - 1)
	if height == 0 || best == height {
		return nil, best, nil
	}
	if height > best {
		return nil, 0, fmt.Errorf("request with height %d is greater than best height known %d", height, best)
	}
	out := make([]blockntfns.BlockNtfn, 0, best-height)
	for i := height + 1; i <= best; i++ {
		out = append(out, blockntfns.NewBlockConnected(c.path[i].Hdr, i))
	}
	return out, best, nil
}
