package c09

import (
	"fmt"
	"math/rand"
	"time"

	"github.com/btcsuite/btcd/wire/v2"

	"verif/internal/chaingen"
)

// Family stale-rewind: a Rescan.Update that carries Rewind(h) — with and
// without DisableDisconnectedNtfns(true) — is applied at a moment when the
// block the caller was last told is current is NOT on the best chain any more:
// the chain source has reorganised from a fork point f, and the rescan has not
// consumed the reorganisation's notifications yet. Four ways to get there:
//
//	queued                the rescan follows notifications and is idle at the tip; the stores change
//	                      (rollback to f, longer branch written) while every notification of the
//	                      reorganisation is still queued; the Update is the only ready case of the
//	                      rescan's select; afterwards the queued notifications flow (at once, after the
//	                      rescan went quiet, or never: the cancelled subscription took them with it)
//	racing                the rescan is parked inside the connected callback of the tip block, the
//	                      reorganisation's notifications pile up in its subscription, the Update call
//	                      blocks on the update channel; on release the Go select picks between them
//	catchup               the rescan is parked inside the connected callback of a block in the middle of
//	                      its initial walk by height (no subscription yet); reorganisation; the Update is
//	                      taken by the drain loop at the top of the next iteration
//	catchup-after-rewind  the same during the walk by height that follows an earlier (settled) rewind
//
// crossed with the relation of fork point f, rewind height h and the caller's
// height c at that moment (f < h < c; h <= f, half of them with only the
// current block stale; h == c; h > c) and with silent / notifying rewinds.
//
// The oracle is the ordinary walk (walk.go): a silent rewind moves the caller
// to the ANCESTOR at height h of the block it holds, a notifying rewind
// disconnects down to it; every later connected block must be the child of the
// caller's current block. A rescan that gives up with an error has promised
// nothing more: those exits are counted, only delivered callbacks are judged.

// StaleBase is the case-index offset of the family (C09_ONLY=<StaleBase+j>).
const StaleBase = 1_000_000

// Counts of the two tiers; the first staleFixed cases do not depend on the
// run's seed.
const (
	QuickStale    = 28
	ThoroughStale = 1500
	staleFixed    = 4
)

// Relations of fork point, rewind height and the caller's height.
const (
	relForkBelowRewind = "fork<rewind<cur"
	relRewindAtFork    = "rewind<=fork<cur"
	relRewindAtCur     = "rewind==cur"
	relRewindAboveCur  = "rewind>cur"
)

// StaleSpec is the planned shape of one stale-rewind case.
type StaleSpec struct {
	Mode   string // queued | racing | catchup | catchup-after-rewind
	Rel    string
	Fork   int32  // fork point of the reorganisation
	H      uint32 // rewind height
	Cur    int32  // caller's height when the Update is sent
	Silent bool
	Flush  string // queued mode: now | late | drop
	Fixed  bool
	UpdID  int // the judged update (the last one)
}

func (s *StaleSpec) String() string {
	return fmt.Sprintf("%s %s fork=%d rewind=%d cur=%d silent=%v flush=%s fixed=%v", s.Mode, s.Rel, s.Fork, s.H, s.Cur, s.Silent, s.Flush, s.Fixed)
}

func maxInt(a, b int) int {
	if a > b {
		return a
	}
	return b
}

// between returns a value in [lo, hi] (lo when the range is empty).
func between(rng *rand.Rand, lo, hi int) int {
	if hi <= lo {
		return lo
	}
	return lo + rng.Intn(hi-lo+1)
}

func makeStalePlan(seed int64, j int) *Plan {
	src := seed*1_000_003 + int64(j)*104_729 + 99_991
	fixed := j < staleFixed
	if fixed {
		src = 0x5ca1ab1e + int64(j) // seed-independent
	}
	rng := rand.New(rand.NewSource(src))
	p := &Plan{Index: StaleBase + j, Seed: seed, rng: rng, Family: FamStale,
		used: map[WatchKey]bool{}, usedOps: map[wire.OutPoint]bool{}}
	p.Pace = chaingen.PaceNormal
	p.G = chaingen.NewGen(chaingen.Config{
		Seed: rng.Int63(), Preset: chaingen.PresetNoRetarget,
		GenesisTime: genesisTime, Now: genesisTime.Add(30 * 24 * time.Hour), WithBlocks: true,
	})
	p.Ntfn = "filtered"
	if rng.Intn(3) == 0 {
		p.Ntfn = "both"
	}
	p.StaleFilter = rng.Intn(2) == 0
	p.Current0 = true
	p.StartTimeK, p.EndKind = "none", "none"

	sp := &StaleSpec{Fixed: fixed, Silent: true, Flush: "now"}
	p.Stale = sp
	switch j {
	case 0:
		sp.Mode, sp.Rel = "queued", relForkBelowRewind
	case 1:
		sp.Mode, sp.Rel = "catchup", relForkBelowRewind
	case 2:
		// Control with a complete walk: only the current block is stale.
		sp.Mode, sp.Rel = "queued", relRewindAtFork
	case 3:
		sp.Mode, sp.Rel = "racing", relForkBelowRewind
	default:
		switch r := rng.Intn(12); {
		case r < 4:
			sp.Mode = "queued"
		case r < 7:
			sp.Mode = "catchup"
		case r < 10:
			sp.Mode = "racing"
		default:
			sp.Mode = "catchup-after-rewind"
		}
		switch r := rng.Intn(20); {
		case r < 11:
			sp.Rel = relForkBelowRewind
		case r < 16:
			sp.Rel = relRewindAtFork
		case r < 18:
			sp.Rel = relRewindAtCur
		default:
			sp.Rel = relRewindAboveCur
		}
		sp.Silent = rng.Intn(4) != 0
		sp.Flush = []string{"now", "late", "drop"}[rng.Intn(3)]
	}

	l0 := 11 + rng.Intn(6)
	trunk := p.G.Extend(p.G.Genesis, l0, p.Pace)
	p.Trunk0 = trunk[l0-1]
	p.simTip = p.Trunk0
	s := 0
	if rng.Intn(3) != 0 {
		s = 1 + rng.Intn(l0-9)
	}
	if s == 0 {
		p.StartKind, p.StartArg, p.StartNode = "genesis", &StartArg{}, p.G.Genesis
	} else {
		p.StartKind, p.StartArg, p.StartNode = "height", &StartArg{Height: int32(s)}, p.Trunk0.Ancestor(int32(s))
	}
	p.pickWatch()
	floor := maxInt(s, 1) // lowest fork point / rewind height used

	// Phase 1: bring the caller to height c with the rescan in the wanted
	// phase; T is the visible tip at that moment.
	var c, T int
	switch sp.Mode {
	case "queued":
		p.add(Op{Kind: OpStart})
		p.add(Op{Kind: OpSettle})
		p.add(Op{Kind: OpWaitIdle})
		if g := rng.Intn(3); g > 0 {
			p.add(p.opGrow(g))
			p.add(Op{Kind: OpSettle})
			p.add(Op{Kind: OpWaitIdle})
		}
		c = int(p.simTip.Height)
		T = c
	case "racing":
		p.add(Op{Kind: OpStart})
		p.add(Op{Kind: OpSettle})
		p.add(Op{Kind: OpWaitIdle})
		g := p.opGrow(1 + rng.Intn(2))
		g.Batch = 1
		p.add(Op{Kind: OpHold, Nodes: []*chaingen.Node{p.simTip}})
		p.add(g)
		p.add(Op{Kind: OpWaitParked})
		c = int(p.simTip.Height)
		T = c
	case "catchup":
		c = between(rng, s+3, l0-2)
		T = l0
		p.add(Op{Kind: OpHold, Nodes: []*chaingen.Node{p.Trunk0.Ancestor(int32(c))}})
		p.add(Op{Kind: OpStart})
		p.add(Op{Kind: OpWaitParked})
	case "catchup-after-rewind":
		h0 := between(rng, floor, l0-5)
		c = between(rng, maxInt(h0+2, s+3), l0-1)
		T = l0
		p.add(Op{Kind: OpStart})
		p.add(Op{Kind: OpSettle})
		p.add(Op{Kind: OpWaitIdle})
		p.add(Op{Kind: OpHold, Nodes: []*chaingen.Node{p.Trunk0.Ancestor(int32(c))}})
		p.add(p.staleUpdate([]string{"rewind", "addrs+rewind"}[rng.Intn(2)], uint32(h0), rng.Intn(2) == 0, nil, true, "settled"))
		p.add(Op{Kind: OpWaitParked})
	}

	// Fork point and rewind height.
	var f, h int
	switch sp.Rel {
	case relForkBelowRewind:
		f = between(rng, maxInt(floor, c-6), c-2)
		h = between(rng, f+1, c-1)
	case relRewindAtFork:
		f = c - 1
		if rng.Intn(2) == 0 && !fixed {
			f = between(rng, floor+1, c-1)
		}
		h = between(rng, floor, f)
	case relRewindAtCur:
		f = between(rng, maxInt(floor, c-6), c-1)
		h = c
	default:
		f = between(rng, maxInt(floor, c-6), c-1)
		h = c + 1 + rng.Intn(3)
	}
	sp.Fork, sp.H, sp.Cur = int32(f), uint32(h), int32(c)
	if h >= c && sp.Flush == "drop" {
		// A rewind that does not go below the caller's height keeps the
		// subscription: its queued notifications are not lost.
		sp.Flush = "late"
	}

	// Phase 2: the reorganisation the rescan does not get to see yet.
	forkNode := p.simTip.Ancestor(int32(f))
	d := T - f
	m := d + 1 + rng.Intn(3)
	branch := p.G.Extend(forkNode, m, p.Pace)
	p.simTip = branch[m-1]
	if sp.Mode == "queued" {
		p.add(Op{Kind: OpRollbackQuiet, N: d})
		p.add(Op{Kind: OpVisible, Nodes: branch})
	} else {
		b := 1
		if rng.Intn(2) == 0 {
			b = 1 + rng.Intn(m)
		}
		p.add(Op{Kind: OpRollback, N: d})
		p.add(Op{Kind: OpGrow, Nodes: branch, Batch: b})
	}

	// Phase 3: the Update.
	kind := []string{"rewind", "addrs+rewind", "addrs+rewind", "inputs+rewind"}[rng.Intn(4)]
	if sp.Mode == "queued" {
		p.add(p.staleUpdate(kind, uint32(h), sp.Silent, forkNode, true, "queued"))
		switch sp.Flush {
		case "now":
			p.add(Op{Kind: OpNotifyDisc})
			p.add(Op{Kind: OpNotify, Nodes: branch})
		case "late":
			p.add(Op{Kind: OpWaitIdle})
			p.add(Op{Kind: OpNotifyDisc})
			p.add(Op{Kind: OpNotify, Nodes: branch})
		default:
			p.add(Op{Kind: OpNotifyDisc, Drop: true})
		}
	} else {
		p.add(p.staleUpdate(kind, uint32(h), sp.Silent, forkNode, false, "parked"))
		p.add(Op{Kind: OpWaitUpdBlocked})
		p.add(Op{Kind: OpRelease})
	}
	sp.UpdID = len(p.Updates)
	p.add(Op{Kind: OpWaitUpd})
	p.add(Op{Kind: OpSettle})
	p.add(Op{Kind: OpWaitIdle})

	p.add(Op{Kind: OpWaitUpd})
	fin := p.G.Extend(p.simTip, 1, p.Pace)
	p.FinalNode = fin[0]
	p.simTip = fin[0]
	return p
}

// staleUpdate plans one Update with an exact rewind height. Outpoints added
// by it are taken from the UTXO set at the fork point, so they exist on both
// branches.
func (p *Plan) staleUpdate(kind string, rewind uint32, silent bool, utxoAt *chaingen.Node, wait bool, timing string) Op {
	u := &UpdSpec{ID: len(p.Updates) + 1, Kind: kind, Timing: timing, Rewind: rewind, Silent: silent}
	switch kind {
	case "addrs+rewind":
		for i, n := 0, 1+p.rng.Intn(2); i < n; i++ {
			if k, ok := p.freshKey(); ok {
				u.Keys = append(u.Keys, k)
			}
		}
	case "inputs+rewind":
		if utxoAt != nil {
			u.Inputs = p.freshUtxos(utxoAt, 1+p.rng.Intn(2))
		}
	}
	p.Updates = append(p.Updates, u)
	return Op{Kind: OpUpdate, Upd: u, Wait: wait}
}
