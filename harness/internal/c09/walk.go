package c09

import (
	"fmt"
	"hash/fnv"
	"sort"
	"strings"
	"time"

	"github.com/btcsuite/btcd/chainhash/v2"
	"github.com/btcsuite/btcd/txscript/v2"
	"github.com/btcsuite/btcd/wire/v2"

	"verif/internal/chaingen"
)

// The reference walk ("ref.Walk" of the design). It reads ONE ordered log and
// nothing else: no clocks, no harness state.
//
// State ("world"): the block the caller was last told is current, whether
// matching has begun (start time), and the watched addresses / outpoints.
// Because a Rescan.Update is applied by the rescan goroutine at some callback
// boundary between the harness's "about to call Update" and the first callback
// after "Update returned", the walk keeps every world that is still possible
// and a callback is accepted iff at least one world accepts it.

// WalkCfg is everything the oracle knows besides the log.
type WalkCfg struct {
	Tree      map[chainhash.Hash]*chaingen.Node
	Start     *chaingen.Node
	StartTime time.Time
	Addrs     [][]byte        // initially watched address scripts
	Ops       []wire.OutPoint // initially watched outpoints
	Scripts   [][]byte        // initially watched "spends of this script" (zero outpoint inputs)
	Updates   map[int]*WalkUpd
	Legacy    bool // legacy callbacks registered too
}

// WalkUpd is the oracle's view of one Update.
type WalkUpd struct {
	Addrs  [][]byte
	Ops    []wire.OutPoint
	Rewind int32 // 0 = none
	Silent bool
}

// Violation is the oracle's finding.
type Violation struct {
	Rule  string // oracle rule id
	Shape string // normalised shape (no hashes, no heights)
	Text  string
	Seq   int
}

// WalkStats are measured on the log.
type WalkStats struct {
	Connected, Disconnected int
	TxDelivered, TxExpected int
	TxPays, TxSpends        int
	TxFromGrown             int // relevant only because of an outpoint added by an earlier match
	TxFromUpdate            int // relevant only because of an Update
	TxSpendsOpaque          int // delivered spend of a watched OUTPOINT through an input txscript.ComputePkScript cannot recover a script from (statistics only)
	TxSpendsOpaqueGrown     int // ... where the outpoint was learnt from an earlier payment to a watched address
	SilentJumps             int
	RewindsApplied          int
	AbsentFilterBlocks      int // connected with no txs after GetCFilter answered "not in chain"
	MaxWorlds               int
	ScanningSwitched        bool
	FinalHeight             int32
}

type watch struct {
	addrs   map[string]int // script -> origin (0 initial, id = update)
	ops     map[wire.OutPoint]int
	scripts map[string]int
}

const originGrown = -1

func (w *watch) clone() *watch {
	n := &watch{addrs: make(map[string]int, len(w.addrs)), ops: make(map[wire.OutPoint]int, len(w.ops)),
		scripts: make(map[string]int, len(w.scripts))}
	for k, v := range w.addrs {
		n.addrs[k] = v
	}
	for k, v := range w.ops {
		n.ops[k] = v
	}
	for k, v := range w.scripts {
		n.scripts[k] = v
	}
	return n
}

// States of the start-time switch.
const (
	scanOff   = 0 // no block seen so far has a timestamp after the start time
	scanMaybe = 1 // only the start block has (the code evaluates it after waitForBlocks, where a rewind may have moved it)
	scanOn    = 2 // a connected block tripped the switch: it stays on
)

type world struct {
	cur          *chaingen.Node
	scanning     int
	w            *watch
	applied      int   // number of updates (in call order) applied
	rewindTarget int32 // >=0: a non-silent rewind is in progress: only disconnects until cur.Height <= target
}

func (x *world) clone() *world {
	n := *x
	n.w = x.w.clone()
	return &n
}

func (x *world) key() string {
	// Order-independent checksum of the watched items.
	var sum uint64
	mix := func(b []byte) {
		h := fnv.New64a()
		h.Write(b)
		sum ^= h.Sum64()
	}
	for s := range x.w.addrs {
		mix([]byte("a" + s))
	}
	for s := range x.w.scripts {
		mix([]byte("s" + s))
	}
	for o := range x.w.ops {
		mix([]byte(fmt.Sprintf("o%s:%d", o.Hash, o.Index)))
	}
	return fmt.Sprintf("%s|%v|%d|%d|%d/%d/%d|%x", x.cur.Hash, x.scanning, x.applied, x.rewindTarget,
		len(x.w.addrs), len(x.w.ops), len(x.w.scripts), sum)
}

type relTx struct {
	hash   chainhash.Hash
	pays   bool
	spends bool
	origin int // strongest reason: 0 initial, >0 update id, -1 grown
	// statistics only: a watched outpoint is spent through an input from
	// which the spent script cannot be recovered / one learnt from a match
	opaque, opaqueGrown bool
}

// relevant computes, from the generator's block alone, the transactions that
// pay a watched script or spend a watched outpoint / script, growing the
// watched outpoints in transaction order exactly as documented ("each time a
// transaction spends to the specified address, the outpoint is added").
func relevant(n *chaingen.Node, w *watch) []relTx {
	var out []relTx
	pi := 0
	for ti, tx := range n.Block.Transactions {
		var r relTx
		hit := false
		// The recorded origin is the most "ordinary" reason the tx is
		// relevant: initial item > item from an update > outpoint grown
		// from an earlier match (statistics and violation shapes only).
		minOrigin := func(origin int) {
			switch {
			case !hit:
				r.origin = origin
			case origin == 0:
				r.origin = 0
			case origin > 0 && r.origin == originGrown:
				r.origin = origin
			}
			hit = true
		}
		if ti > 0 {
			for _, in := range tx.TxIn {
				if o, ok := w.ops[in.PreviousOutPoint]; ok {
					r.spends = true
					minOrigin(o)
					if _, err := txscript.ComputePkScript(in.SignatureScript, in.Witness); err != nil {
						r.opaque = true
						if o == originGrown {
							r.opaqueGrown = true
						}
					}
				}
				if pi < len(n.PrevScripts) {
					// A zero-outpoint watch asks for spends OF A SCRIPT; a
					// light client has no previous outputs, so such a
					// spend is defined by what the input itself reveals:
					// it is due iff the script recoverable from the input
					// is the spent (watched) one. Outpoint watches above
					// never depend on this.
					if o, ok := w.scripts[string(n.PrevScripts[pi])]; ok {
						pk, err := txscript.ComputePkScript(in.SignatureScript, in.Witness)
						if err == nil && string(pk.Script()) == string(n.PrevScripts[pi]) {
							r.spends = true
							minOrigin(o)
						}
					}
				}
				pi++
			}
		}
		var th chainhash.Hash
		haveHash := false
		for oi, out := range tx.TxOut {
			if o, ok := w.addrs[string(out.PkScript)]; ok {
				r.pays = true
				minOrigin(o)
				if !haveHash {
					th, haveHash = tx.TxHash(), true
				}
				op := wire.OutPoint{Hash: th, Index: uint32(oi)}
				if _, dup := w.ops[op]; !dup {
					w.ops[op] = originGrown
				}
			}
		}
		if hit {
			if !haveHash {
				th = tx.TxHash()
			}
			r.hash = th
			out = append(out, r)
		}
	}
	return out
}

func sameSet(exp []relTx, got []chainhash.Hash) (missing, extra []chainhash.Hash) {
	e := map[chainhash.Hash]int{}
	for _, r := range exp {
		e[r.hash]++
	}
	g := map[chainhash.Hash]int{}
	for _, h := range got {
		g[h]++
	}
	for h, n := range e {
		if g[h] != n {
			if g[h] < n {
				missing = append(missing, h)
			} else {
				extra = append(extra, h)
			}
		}
	}
	for h := range g {
		if _, ok := e[h]; !ok {
			extra = append(extra, h)
		}
	}
	return
}

// relation names how a connected block relates to the block the caller
// believes is current.
func relation(n, cur *chaingen.Node) string {
	switch {
	case n == cur:
		return "repeats-current"
	case n.Height <= cur.Height && cur.Ancestor(n.Height) == n:
		return "repeats-ancestor"
	case n.Height > cur.Height+1 && n.Ancestor(cur.Height) == cur:
		return "skips-ahead"
	case n.Height == cur.Height+1:
		return "child-of-sibling-branch" // same height as the expected child, other parent
	case n.Height > cur.Height+1:
		return "other-branch-ahead"
	default:
		return "other-branch-behind"
	}
}

type walker struct {
	cfg      WalkCfg
	worlds   []*world
	called   []int        // update ids in call order
	returned map[int]bool // "Update returned" seen
	failed   map[int]bool // Update returned an error: never applied
	absent   map[chainhash.Hash]bool
	st       WalkStats
	exited   bool
	exitErr  string

	// legacy mirror
	fSeq, lSeq []string
	lTx        map[chainhash.Hash]bool
}

// apply returns the world after the next not-yet-applied update.
func (k *walker) apply(x *world) *world {
	id := k.called[x.applied]
	n := x.clone()
	n.applied++
	if k.failed[id] {
		return n
	}
	u := k.cfg.Updates[id]
	for _, s := range u.Addrs {
		if _, ok := n.w.addrs[string(s)]; !ok {
			n.w.addrs[string(s)] = id
		}
	}
	for _, o := range u.Ops {
		if _, ok := n.w.ops[o]; !ok {
			n.w.ops[o] = id
		}
	}
	if u.Rewind > 0 && n.cur.Height > u.Rewind {
		if u.Silent {
			n.cur = n.cur.Ancestor(u.Rewind)
			n.rewindTarget = -1
		} else {
			n.rewindTarget = u.Rewind
		}
	}
	return n
}

// candidates expands a world into the worlds possible at the next callback
// boundary: updates whose return was seen MUST have been applied, updates
// only called MAY have been.
func (k *walker) candidates(x *world) []*world {
	out := []*world{}
	cur := x
	for {
		mustApply := cur.applied < len(k.called) && (k.returned[k.called[cur.applied]] || k.failed[k.called[cur.applied]])
		if !mustApply {
			out = append(out, cur)
		}
		if cur.applied >= len(k.called) {
			break
		}
		// A non-silent rewind in progress cannot be overtaken by the next
		// update: the disconnects are emitted inside the same application.
		if cur.rewindTarget >= 0 && cur.cur.Height > cur.rewindTarget {
			if mustApply {
				out = append(out, cur) // keep: its disconnects are still due
			}
			break
		}
		cur = k.apply(cur)
	}
	return out
}

func (k *walker) dedup(ws []*world) []*world {
	seen := map[string]bool{}
	out := ws[:0]
	for _, x := range ws {
		kk := x.key()
		if !seen[kk] {
			seen[kk] = true
			out = append(out, x)
		}
	}
	if len(out) > k.st.MaxWorlds {
		k.st.MaxWorlds = len(out)
	}
	return out
}

type reject struct {
	rule, shape, text string
	rank              int // how far the world got (for choosing the report)
	applied           int // updates applied in the rejecting world (tie-break: the most-applied world is reported)
}

func (k *walker) onConn(e Ev) *Violation {
	node := k.cfg.Tree[e.Hash]
	if node == nil {
		return &Violation{Rule: "walk-connect-unknown-block", Shape: "not-in-tree", Seq: e.Seq,
			Text: fmt.Sprintf("seq %d: connected block %s (height %d) is not a block of the generator's tree", e.Seq, short(e.Hash), e.Height)}
	}
	var (
		next []*world
		rej  []reject
	)
	for _, base := range k.worlds {
		for _, x := range k.candidates(base) {
			if x == base {
				x = base.clone()
			}
			if r := k.connOne(x, node, e); r != nil {
				r.applied = x.applied
				rej = append(rej, *r)
				continue
			}
			next = append(next, x)
		}
	}
	if len(next) == 0 {
		sort.SliceStable(rej, func(i, j int) bool {
			if rej[i].rank != rej[j].rank {
				return rej[i].rank > rej[j].rank
			}
			return rej[i].applied > rej[j].applied
		})
		r := rej[0]
		via := "delivered-" + strings.ReplaceAll(e.Note, " ", "-")
		return &Violation{Rule: r.rule, Shape: r.shape + "/" + via, Text: r.text, Seq: e.Seq}
	}
	k.worlds = k.dedup(next)
	k.st.Connected++
	k.st.TxDelivered += len(e.txs)
	// Statistics from the first surviving world.
	return nil
}

func (k *walker) connOne(x *world, node *chaingen.Node, e Ev) *reject {
	if x.rewindTarget >= 0 && x.cur.Height > x.rewindTarget {
		return &reject{rule: "rewind-stops-short", shape: "non-silent", rank: 1,
			text: fmt.Sprintf("seq %d: block %d connected while the rewind to height %d had only reached height %d", e.Seq, e.Height, x.rewindTarget, x.cur.Height)}
	}
	if node.Parent != x.cur || e.Prev != x.cur.Hash {
		rel := relation(node, x.cur)
		return &reject{rule: "walk-connect-not-child", shape: rel, rank: 2,
			text: fmt.Sprintf("seq %d: connected %s (height %d, prev %s) but the caller was last told %s (height %d) is current [%s]",
				e.Seq, short(e.Hash), e.Height, short(e.Prev), short(x.cur.Hash), x.cur.Height, rel)}
	}
	if e.Height != node.Height {
		return &reject{rule: "walk-connect-wrong-height", shape: "height-differs-from-tree", rank: 2,
			text: fmt.Sprintf("seq %d: connected %s reported at height %d, its height is %d", e.Seq, short(e.Hash), e.Height, node.Height)}
	}
	x.rewindTarget = -1
	// Start time: matching is REQUIRED for this block when its own timestamp
	// is after the start time or when a block connected earlier in the walk
	// tripped the switch ("look for the first block to trip the switch ...
	// rather than checking timestamps at each block"). In the "maybe" state
	// (only the start block, or a block never notified, could have tripped
	// it) both answers are accepted.
	must := x.scanning == scanOn || k.cfg.StartTime.Before(node.Hdr.Timestamp)
	trial := x.w.clone()
	exp := relevant(node, trial)
	missing, extra := sameSet(exp, e.txs)
	equal := len(missing) == 0 && len(extra) == 0
	switch {
	case equal && len(exp) > 0:
		// Matching is evidently on: the watch list grows.
		x.w = trial
		x.scanning = scanOn
	case equal:
		// Nothing relevant, nothing delivered.
		if must {
			x.scanning = scanOn
		}
	case len(e.txs) == 0 && !must:
		// Before the start time nothing needs to be delivered.
	case len(e.txs) == 0 && k.absent[e.Hash]:
		// Documented: "Block has been reorged out from under us" — the
		// filter of a block that left the chain is treated as no match.
		if must {
			x.scanning = scanOn
		}
	default:
		return k.txReject(x, node, e, exp, missing, extra)
	}
	x.cur = node
	return nil
}

func (k *walker) txReject(x *world, node *chaingen.Node, e Ev, exp []relTx, missing, extra []chainhash.Hash) *reject {
	if len(missing) > 0 {
		var kinds []string
		seen := map[string]bool{}
		for _, m := range missing {
			for _, r := range exp {
				if r.hash != m {
					continue
				}
				why := ""
				switch {
				case r.pays && r.spends:
					why = "pays+spends"
				case r.pays:
					why = "pays"
				default:
					why = "spends"
				}
				switch {
				case r.origin == originGrown:
					why += "/outpoint-from-earlier-match"
				case r.origin > 0:
					why += "/item-from-update"
				default:
					why += "/initial-item"
				}
				if !seen[why] {
					seen[why] = true
					kinds = append(kinds, why)
				}
			}
		}
		sort.Strings(kinds)
		return &reject{rule: "relevant-tx-missed", shape: strings.Join(kinds, ","), rank: 3,
			text: fmt.Sprintf("seq %d: block %s (height %d) delivered %d txs, %d relevant expected; missing %v (%s)",
				e.Seq, short(e.Hash), e.Height, len(e.txs), len(exp), shorts(missing), strings.Join(kinds, ","))}
	}
	return &reject{rule: "irrelevant-tx-delivered", shape: "extra", rank: 3,
		text: fmt.Sprintf("seq %d: block %s (height %d) delivered txs %v that neither pay a watched script nor spend a watched outpoint",
			e.Seq, short(e.Hash), e.Height, shorts(extra))}
}

func shorts(hs []chainhash.Hash) []string {
	out := make([]string, len(hs))
	for i, h := range hs {
		out[i] = short(h)
	}
	sort.Strings(out)
	return out
}

func (k *walker) onDisc(e Ev) *Violation {
	var (
		next []*world
		rej  []reject
	)
	for _, base := range k.worlds {
		for _, x := range k.candidates(base) {
			if x == base {
				x = base.clone()
			}
			if e.Hash != x.cur.Hash || e.Height != x.cur.Height || x.cur.Parent == nil {
				rel := "unknown-block"
				if n := k.cfg.Tree[e.Hash]; n != nil {
					switch {
					case e.Hash == x.cur.Hash:
						rel = "current-block-wrong-height"
					case n.Parent == x.cur:
						rel = "child-of-current"
					case x.cur.Ancestor(n.Height) == n:
						rel = "ancestor-of-current"
					default:
						rel = "other-branch"
					}
				}
				rej = append(rej, reject{rule: "walk-disconnect-not-current", shape: rel, rank: 2,
					text: fmt.Sprintf("seq %d: disconnected %s (height %d) but the caller was last told %s (height %d) is current [%s]",
						e.Seq, short(e.Hash), e.Height, short(x.cur.Hash), x.cur.Height, rel)})
				continue
			}
			x.cur = x.cur.Parent
			if x.rewindTarget >= 0 && x.cur.Height <= x.rewindTarget {
				x.rewindTarget = -1
			}
			next = append(next, x)
		}
	}
	if len(next) == 0 {
		sort.SliceStable(rej, func(i, j int) bool { return rej[i].rank > rej[j].rank })
		r := rej[0]
		return &Violation{Rule: r.rule, Shape: r.shape, Text: r.text, Seq: e.Seq}
	}
	k.worlds = k.dedup(next)
	k.st.Disconnected++
	return nil
}

// Walk judges one log. final is the block the walk must end on when the
// rescan is still running at the end of the log (nil: not checked); end is
// the end block (nil: none).
func Walk(cfg WalkCfg, evs []Ev, final, end *chaingen.Node) (*Violation, WalkStats) {
	k := &walker{cfg: cfg, returned: map[int]bool{}, failed: map[int]bool{}, absent: map[chainhash.Hash]bool{},
		lTx: map[chainhash.Hash]bool{}}
	w0 := &watch{addrs: map[string]int{}, ops: map[wire.OutPoint]int{}, scripts: map[string]int{}}
	for _, s := range cfg.Addrs {
		w0.addrs[string(s)] = 0
	}
	for _, o := range cfg.Ops {
		w0.ops[o] = 0
	}
	for _, s := range cfg.Scripts {
		w0.scripts[string(s)] = 0
	}
	sc := scanOff
	if cfg.StartTime.Before(cfg.Start.Hdr.Timestamp) {
		sc = scanMaybe
	}
	k.worlds = []*world{{cur: cfg.Start, scanning: sc, w: w0, rewindTarget: -1}}
	k.st.MaxWorlds = 1

	for _, e := range evs {
		switch e.Kind {
		case EvUpdCall:
			k.called = append(k.called, e.Upd)
		case EvUpdRet:
			if e.Err != "" {
				k.failed[e.Upd] = true
				// Worlds that speculatively applied it are impossible.
				idx := -1
				for i, id := range k.called {
					if id == e.Upd {
						idx = i
					}
				}
				var keep []*world
				for _, x := range k.worlds {
					if x.applied <= idx {
						keep = append(keep, x)
					}
				}
				if len(keep) == 0 {
					return &Violation{Rule: "update-applied-but-refused", Shape: "update-error", Seq: e.Seq,
						Text: fmt.Sprintf("seq %d: Update #%d returned %q but the callbacks only make sense with it applied", e.Seq, e.Upd, e.Err)}, k.st
				}
				k.worlds = keep
			} else {
				k.returned[e.Upd] = true
			}
		case EvNotFound:
			k.absent[e.Hash] = true
		case EvConn:
			// Statistics: expected relevant txs under the first world before
			// the callback is consumed.
			pre := k.preStats(e)
			if v := k.onConn(e); v != nil {
				return v, k.st
			}
			k.postStats(pre, e)
			k.fSeq = append(k.fSeq, fmt.Sprintf("c/%d/%s", e.Height, e.Hash))
			if cfg.Legacy {
				if v := k.legacyTxs(e); v != nil {
					return v, k.st
				}
			}
		case EvDisc:
			if v := k.onDisc(e); v != nil {
				return v, k.st
			}
			k.fSeq = append(k.fSeq, fmt.Sprintf("d/%d/%s", e.Height, e.Hash))
		case EvLConn:
			k.lSeq = append(k.lSeq, fmt.Sprintf("c/%d/%s", e.Height, e.Hash))
		case EvLDisc:
			k.lSeq = append(k.lSeq, fmt.Sprintf("d/%d/%s", e.Height, e.Hash))
		case EvRecv, EvRedeem:
			for _, t := range e.txs {
				k.lTx[t] = true
			}
		case EvExit:
			k.exited, k.exitErr = true, e.Err
		}
	}

	// Every update whose return was seen must be applied in what remains.
	var fin []*world
	for _, base := range k.worlds {
		fin = append(fin, k.candidates(base)...)
	}
	k.worlds = k.dedup(fin)
	if len(k.worlds) > 0 {
		k.st.FinalHeight = k.worlds[0].cur.Height
	}

	if cfg.Legacy {
		if strings.Join(k.fSeq, ",") != strings.Join(k.lSeq, ",") {
			return &Violation{Rule: "legacy-callbacks-differ", Shape: "block-sequence",
				Text: fmt.Sprintf("legacy OnBlockConnected/Disconnected sequence (%d) differs from the filtered sequence (%d)", len(k.lSeq), len(k.fSeq))}, k.st
		}
	}

	cleanExit := k.exited && (k.exitErr == "" || k.exitErr == "quit")
	switch {
	case k.exited && !cleanExit:
		// Terminated with an error the caller was given: nothing more is
		// promised.
	case end != nil && k.exited && k.exitErr == "":
		ok := false
		for _, x := range k.worlds {
			if x.cur.Height == end.Height || x.cur.Hash == end.Hash {
				ok = true
			}
		}
		if !ok {
			x := k.worlds[0]
			return &Violation{Rule: "walk-ends-off-end-block", Shape: "end-block",
				Text: fmt.Sprintf("rescan finished normally with the caller at height %d (%s), end block is height %d", x.cur.Height, short(x.cur.Hash), end.Height)}, k.st
		}
	case final != nil:
		ok := false
		for _, x := range k.worlds {
			if x.cur == final && !(x.rewindTarget >= 0 && x.cur.Height > x.rewindTarget) {
				ok = true
			}
		}
		if !ok {
			x := k.worlds[0]
			shape := "behind-tip"
			if x.cur.Height >= final.Height || final.Ancestor(x.cur.Height) != x.cur {
				shape = "off-chain"
			}
			return &Violation{Rule: "walk-ends-off-tip", Shape: shape,
				Text: fmt.Sprintf("chain static, rescan quiescent: caller was last told %s (height %d), visible tip is %s (height %d)",
					short(x.cur.Hash), x.cur.Height, short(final.Hash), final.Height)}, k.st
		}
	}
	return nil, k.st
}

type preStat struct {
	exp []relTx
	ok  bool
}

// preStats evaluates, for the statistics only, the relevant set under the
// most-applied world before the callback is consumed.
func (k *walker) preStats(e Ev) preStat {
	node := k.cfg.Tree[e.Hash]
	if node == nil || len(k.worlds) == 0 {
		return preStat{}
	}
	best := k.worlds[0]
	for _, x := range k.worlds {
		if x.applied > best.applied {
			best = x
		}
	}
	if !(best.scanning == scanOn || k.cfg.StartTime.Before(node.Hdr.Timestamp)) {
		return preStat{}
	}
	return preStat{exp: relevant(node, best.w.clone()), ok: true}
}

func (k *walker) postStats(p preStat, e Ev) {
	if !p.ok {
		return
	}
	k.st.ScanningSwitched = true
	if len(e.txs) == 0 && len(p.exp) > 0 {
		if k.absent[e.Hash] {
			k.st.AbsentFilterBlocks++
		}
		return
	}
	got := map[chainhash.Hash]bool{}
	for _, t := range e.txs {
		got[t] = true
	}
	for _, r := range p.exp {
		if !got[r.hash] {
			continue
		}
		k.st.TxExpected++
		if r.pays {
			k.st.TxPays++
		}
		if r.spends {
			k.st.TxSpends++
		}
		if r.opaque {
			k.st.TxSpendsOpaque++
		}
		if r.opaqueGrown {
			k.st.TxSpendsOpaqueGrown++
		}
		switch {
		case r.origin == originGrown:
			k.st.TxFromGrown++
		case r.origin > 0:
			k.st.TxFromUpdate++
		}
	}
}

// legacyTxs: OnRecvTx / OnRedeemingTx calls made for a block precede its
// OnFilteredBlockConnected; their union must be the delivered set.
func (k *walker) legacyTxs(e Ev) *Violation {
	got := map[chainhash.Hash]bool{}
	for _, t := range e.txs {
		got[t] = true
	}
	same := len(got) == len(k.lTx)
	for t := range k.lTx {
		if !got[t] {
			same = false
		}
	}
	k.lTx = map[chainhash.Hash]bool{}
	if !same {
		return &Violation{Rule: "legacy-callbacks-differ", Shape: "tx-set", Seq: e.Seq,
			Text: fmt.Sprintf("seq %d: OnRecvTx/OnRedeemingTx calls for block %s differ from the txs of OnFilteredBlockConnected", e.Seq, short(e.Hash))}
	}
	return nil
}
