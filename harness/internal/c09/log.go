// Package c09 is the component-level scenario driver and oracle for property
// C09 (rescan callbacks form a valid walk of the block tree and miss no
// relevant transaction).
//
// It runs the REAL neutrino.Rescan over a harness ChainSource that is backed
// by a chaingen block tree and a REAL blockntfns.SubscriptionManager, drives
// seeded chain histories / fetch failures / filter updates against it, records
// ONE ordered log of everything the rescan told its caller, and lets the
// reference walk (walk.go) judge that log.
package c09

import (
	"sync"
	"time"

	"github.com/btcsuite/btcd/chainhash/v2"
)

// EvKind is the kind of one log entry.
type EvKind string

const (
	EvConn     EvKind = "conn"      // OnFilteredBlockConnected
	EvDisc     EvKind = "disc"      // OnFilteredBlockDisconnected
	EvLConn    EvKind = "lconn"     // legacy OnBlockConnected
	EvLDisc    EvKind = "ldisc"     // legacy OnBlockDisconnected
	EvRecv     EvKind = "recv"      // legacy OnRecvTx
	EvRedeem   EvKind = "redeem"    // legacy OnRedeemingTx
	EvUpdCall  EvKind = "upd-call"  // harness: about to call Rescan.Update
	EvUpdRet   EvKind = "upd-ret"   // harness: Rescan.Update returned
	EvNotFound EvKind = "cf-absent" // harness: GetCFilter answered ErrHashNotFound (block no longer in the chain)
	EvChain    EvKind = "chain"     // harness: visible chain changed (informational)
	EvExit     EvKind = "exit"      // the rescan goroutine terminated
	EvNote     EvKind = "note"      // harness: gate parked / released etc. (informational)
)

// Ev is one entry of the single ordered log of a case.
type Ev struct {
	Seq    int            `json:"seq"`
	Kind   EvKind         `json:"kind"`
	Height int32          `json:"height,omitempty"`
	Hash   chainhash.Hash `json:"-"`
	Prev   chainhash.Hash `json:"-"`
	HashS  string         `json:"hash,omitempty"`
	PrevS  string         `json:"prev,omitempty"`
	Time   int64          `json:"time,omitempty"`
	Txs    []string       `json:"txs,omitempty"`
	Upd    int            `json:"upd,omitempty"`
	Err    string         `json:"err,omitempty"`
	Note   string         `json:"note,omitempty"`

	txs []chainhash.Hash
}

// Log is the single ordered log: one mutex, one sequence counter. It also
// keeps the "what was the caller last told" tracker the driver uses to pace
// itself (never to decide a verdict).
type Log struct {
	mu   sync.Mutex
	cond *sync.Cond
	evs  []Ev

	// tracker
	lastConn   chainhash.Hash // hash of the last connected callback
	curHash    chainhash.Hash
	curHeight  int32
	haveCur    bool
	exited     bool
	exitErr    string
	nCallbacks int
	nConn      int // connected callbacks so far (pacing of the L2 scripts)
}

func newLog() *Log {
	l := &Log{}
	l.cond = sync.NewCond(&l.mu)
	return l
}

func short(h chainhash.Hash) string { return h.String()[:12] }

// add appends an entry under the log mutex.
func (l *Log) add(e Ev) int {
	l.mu.Lock()
	e.Seq = len(l.evs)
	var zero chainhash.Hash
	if e.Hash != zero {
		e.HashS = short(e.Hash)
	}
	if e.Prev != zero {
		e.PrevS = short(e.Prev)
	}
	for _, t := range e.txs {
		e.Txs = append(e.Txs, short(t))
	}
	l.evs = append(l.evs, e)
	switch e.Kind {
	case EvConn:
		l.lastConn, l.curHash, l.curHeight, l.haveCur = e.Hash, e.Hash, e.Height, true
		l.nCallbacks++
		l.nConn++
	case EvDisc:
		l.curHash, l.curHeight, l.haveCur = e.Prev, e.Height-1, true
		l.nCallbacks++
	case EvExit:
		l.exited, l.exitErr = true, e.Err
	}
	seq := e.Seq
	l.cond.Broadcast()
	l.mu.Unlock()
	return seq
}

// snapshot returns a copy of the entries.
func (l *Log) snapshot() []Ev {
	l.mu.Lock()
	defer l.mu.Unlock()
	return append([]Ev(nil), l.evs...)
}

// waitFor blocks until pred (evaluated under the log mutex) holds or the
// timeout elapses. Pacing only.
func (l *Log) waitFor(timeout time.Duration, pred func() bool) bool {
	deadline := time.Now().Add(timeout)
	stop := make(chan struct{})
	defer close(stop)
	go func() {
		t := time.NewTicker(5 * time.Millisecond)
		defer t.Stop()
		for {
			select {
			case <-stop:
				return
			case <-t.C:
				l.mu.Lock()
				l.cond.Broadcast()
				l.mu.Unlock()
			}
		}
	}()
	l.mu.Lock()
	defer l.mu.Unlock()
	for !pred() {
		if time.Now().After(deadline) {
			return false
		}
		l.cond.Wait()
	}
	return true
}

func (l *Log) tracker() (cur chainhash.Hash, height int32, have bool, lastConn chainhash.Hash, exited bool) {
	l.mu.Lock()
	defer l.mu.Unlock()
	return l.curHash, l.curHeight, l.haveCur, l.lastConn, l.exited
}

// connCount returns the number of connected callbacks logged so far.
func (l *Log) connCount() int { l.mu.Lock(); defer l.mu.Unlock(); return l.nConn }

// length returns the number of entries.
func (l *Log) length() int { l.mu.Lock(); defer l.mu.Unlock(); return len(l.evs) }
