package c09

import (
	"fmt"
	"math/rand"
	"time"

	"github.com/btcsuite/btcd/wire/v2"

	"verif/internal/chaingen"
)

// Family opaque-spend: watched OUTPOINTS (given at the start, added by an
// Update, or learnt from an earlier payment to a watched address) are spent
// through inputs from which the spent script cannot be recovered: empty
// signature script and witness, a signature script that is not push-only or
// does not parse, a key-path-looking witness. Whether a transaction spends a
// watched outpoint does not depend on any script, so the reference walk is
// unchanged: the spending transaction is due with its block. The spends arrive
// (a) during the walk by height, (b) by notification, (c) again after an
// Update with Rewind (silent or notifying), (d) in variants on the longer
// branch of a reorganisation. The other families only see such inputs in the
// share of histories generated with chaingen's OpaqueSpendPct (plan.go).

// FamOpaque names the family.
const FamOpaque = "opaque-spend"

// OpaqueBase is the case-index offset of the family (C09_ONLY=<OpaqueBase+j>).
const OpaqueBase = 2_000_000

// Counts of the two tiers; the first opaqueFixed cases do not depend on the
// run's seed.
const (
	QuickOpaque    = 14
	ThoroughOpaque = 900
	opaqueFixed    = 1
)

// OpaqueSpec is the planned shape of one opaque-spend case.
type OpaqueSpec struct {
	Fixed      bool
	ShapeA     chaingen.SpendShape // first watched outpoint of every pair
	ShapeB     chaingen.SpendShape // second
	Silent     bool                // the rewind
	Reorg      bool                // the notified spends are reorganised out and spent again on the new branch
	Planned    int                 // forced spends of watched outpoints placed in blocks
	GrownSpent int                 // of them: outpoints of payments to a watched address
	Missed     int                 // forced spends the generator could not place (harness precondition)
}

func shapeName(s chaingen.SpendShape) string {
	switch s {
	case chaingen.SpendEmpty:
		return "empty"
	case chaingen.SpendNonPush:
		return "nonpush"
	case chaingen.SpendTruncPush:
		return "truncpush"
	case chaingen.SpendKeyPath:
		return "keypath"
	}
	return "recoverable"
}

func (s *OpaqueSpec) String() string {
	return fmt.Sprintf("shapes=%s+%s silentRewind=%v reorg=%v planned=%d grownSpent=%d fixed=%v",
		shapeName(s.ShapeA), shapeName(s.ShapeB), s.Silent, s.Reorg, s.Planned, s.GrownSpent, s.Fixed)
}

type forced struct {
	u     chaingen.Utxo
	shape chaingen.SpendShape
}

// forceBlock extends the planned tip by one block that spends every given
// output with the given input shape.
func (p *Plan) forceBlock(parent *chaingen.Node, fs ...forced) *chaingen.Node {
	for _, f := range fs {
		p.G.ForceSpend(f.u, f.shape)
	}
	n := p.G.Extend(parent, 1, p.Pace)[0]
	for _, f := range fs {
		found := false
		for _, tx := range n.Block.Transactions[1:] {
			for _, in := range tx.TxIn {
				if in.PreviousOutPoint == f.u.Op {
					found = true
				}
			}
		}
		if found {
			p.Opaque.Planned++
		} else {
			p.Opaque.Missed++
		}
	}
	return n
}

// grownUtxo picks an unspent output (as of node at) that was created above
// the start block and pays a script that is, or can still be made, a watched
// ADDRESS: the rescan learns its outpoint from the paying transaction.
func (p *Plan) grownUtxo(at *chaingen.Node, allowNewKey bool) (chaingen.Utxo, bool) {
	old := map[wire.OutPoint]bool{}
	for _, u := range p.G.Utxos(p.StartNode) {
		old[u.Op] = true
	}
	watched := map[WatchKey]bool{}
	for _, k := range p.InitKeys {
		watched[k] = true
	}
	us := p.G.Utxos(at)
	for pass := 0; pass < 2; pass++ {
		for _, i := range p.rng.Perm(len(us)) {
			u := us[i]
			k := WatchKey{Key: u.Key, Legacy: u.Legacy}
			if old[u.Op] || p.usedOps[u.Op] || u.Key < 0 {
				continue
			}
			if pass == 0 && !watched[k] {
				continue
			}
			if pass == 1 {
				if !allowNewKey || p.used[k] {
					continue
				}
				p.used[k] = true
				p.InitKeys = append(p.InitKeys, k)
			}
			p.usedOps[u.Op] = true
			return u, true
		}
	}
	return chaingen.Utxo{}, false
}

func (p *Plan) inputsUpdate(ins []chaingen.Utxo) Op {
	u := &UpdSpec{ID: len(p.Updates) + 1, Kind: "inputs", Timing: "settled", Inputs: ins}
	p.Updates = append(p.Updates, u)
	return Op{Kind: OpUpdate, Upd: u, Wait: true}
}

func makeOpaquePlan(seed int64, j int) *Plan {
	src := seed*1_000_003 + int64(j)*15_485_863 + 31_337
	fixed := j < opaqueFixed
	if fixed {
		src = 0x0bac0e5 + int64(j) // seed-independent
	}
	rng := rand.New(rand.NewSource(src))
	p := &Plan{Index: OpaqueBase + j, Seed: seed, rng: rng, Family: FamOpaque,
		used: map[WatchKey]bool{}, usedOps: map[wire.OutPoint]bool{}}
	p.Pace = chaingen.PaceNormal
	sp := &OpaqueSpec{Fixed: fixed, ShapeA: chaingen.SpendEmpty, ShapeB: chaingen.SpendNonPush}
	p.Opaque = sp
	pct := 0
	if !fixed {
		// Besides the forced spends, a share of all other inputs is opaque.
		pct = 20 + rng.Intn(60)
		errShapes := []chaingen.SpendShape{chaingen.SpendEmpty, chaingen.SpendNonPush, chaingen.SpendTruncPush}
		sp.ShapeA = errShapes[rng.Intn(len(errShapes))]
		sp.ShapeB = chaingen.OpaqueShapes[rng.Intn(len(chaingen.OpaqueShapes))]
		sp.Silent = rng.Intn(2) == 0
		sp.Reorg = rng.Intn(2) == 0
	}
	p.G = chaingen.NewGen(chaingen.Config{
		Seed: rng.Int63(), Preset: chaingen.PresetNoRetarget,
		GenesisTime: genesisTime, Now: genesisTime.Add(30 * 24 * time.Hour), WithBlocks: true,
		OpaqueSpendPct: pct,
	})
	p.Ntfn = "filtered"
	if rng.Intn(3) == 0 {
		p.Ntfn = "both"
	}
	p.StaleFilter = rng.Intn(2) == 0
	p.Current0 = true
	p.StartTimeK, p.EndKind = "none", "none"

	// Chain below and around the start block.
	l0 := 6 + rng.Intn(4)
	trunk := p.G.Extend(p.G.Genesis, l0, p.Pace)
	tip := trunk[l0-1]
	s := 1 + rng.Intn(3)
	if rng.Intn(4) == 0 && !fixed {
		p.StartKind, p.StartArg, p.StartNode = "genesis", &StartArg{}, p.G.Genesis
	} else {
		p.StartKind, p.StartArg, p.StartNode = "height", &StartArg{Height: int32(s)}, tip.Ancestor(int32(s))
	}

	// (a) Spends met by the walk by height: two outpoints watched from the
	// start, one outpoint learnt from a payment to a watched address.
	if !fixed {
		for i, n := 0, rng.Intn(3); i < n; i++ {
			if k, ok := p.freshKey(); ok {
				p.InitKeys = append(p.InitKeys, k)
			}
		}
	}
	ab := p.freshUtxos(tip, 2)
	p.InitInputs = append(p.InitInputs, ab...)
	firstSpend := tip.Height + 1
	if len(ab) == 2 && (fixed || rng.Intn(2) == 0) {
		tip = p.forceBlock(tip, forced{ab[0], sp.ShapeA})
		tip = p.forceBlock(tip, forced{ab[1], sp.ShapeB})
	} else if len(ab) == 2 {
		tip = p.forceBlock(tip, forced{ab[0], sp.ShapeA}, forced{ab[1], sp.ShapeB})
	}
	if c, ok := p.grownUtxo(tip, true); ok {
		tip = p.forceBlock(tip, forced{c, sp.ShapeA})
		sp.GrownSpent++
	}
	if n := rng.Intn(3); n > 0 {
		tip = p.G.Extend(tip, n, p.Pace)[n-1]
	}
	p.Trunk0 = tip
	p.simTip = tip

	p.add(Op{Kind: OpStart})
	p.add(Op{Kind: OpSettle})
	p.add(Op{Kind: OpWaitIdle})

	// (b) Spends that arrive by notification: outpoints added by an Update,
	// and (when there is one) an outpoint learnt during the walk.
	notified := func(shA, shB chaingen.SpendShape) {
		de := p.freshUtxos(p.simTip, 2)
		if len(de) > 0 {
			p.add(p.inputsUpdate(de))
			p.add(Op{Kind: OpWaitUpd})
		}
		fs := []forced{}
		for i, u := range de {
			fs = append(fs, forced{u, []chaingen.SpendShape{shA, shB}[i%2]})
		}
		if g, ok := p.grownUtxo(p.simTip, false); ok {
			fs = append(fs, forced{g, shB})
			sp.GrownSpent++
		}
		parent := p.simTip
		n := p.forceBlock(parent, fs...)
		nodes := []*chaingen.Node{n}
		if rng.Intn(2) == 0 {
			nodes = append(nodes, p.G.Extend(n, 1, p.Pace)...)
		}
		p.simTip = nodes[len(nodes)-1]
		p.add(Op{Kind: OpGrow, Nodes: nodes, Batch: 1})
		p.add(Op{Kind: OpSettle})
		if sp.Reorg {
			// (d) The same outpoints are spent again, with the shapes
			// swapped, on the branch that replaces those blocks.
			for i := range fs {
				fs[i].shape = []chaingen.SpendShape{shB, shA}[i%2]
			}
			b := p.forceBlock(parent, fs...)
			m := len(nodes) + rng.Intn(2)
			branch := append([]*chaingen.Node{b}, p.G.Extend(b, m, p.Pace)...)
			p.simTip = branch[len(branch)-1]
			p.add(Op{Kind: OpRollback, N: len(nodes)})
			p.add(Op{Kind: OpGrow, Nodes: branch, Batch: 1 + rng.Intn(len(branch))})
			p.add(Op{Kind: OpSettle})
		}
	}
	notified(sp.ShapeA, sp.ShapeB)

	// (c) Rewind to below the first spend: all of the above is due again.
	lo := int(p.StartNode.Height) + 1
	hi := int(firstSpend) - 1
	ru := &UpdSpec{ID: len(p.Updates) + 1, Kind: "rewind", Timing: "settled",
		Rewind: uint32(between(rng, lo, hi)), Silent: sp.Silent}
	p.Updates = append(p.Updates, ru)
	p.add(Op{Kind: OpUpdate, Upd: ru, Wait: true})
	p.add(Op{Kind: OpWaitUpd})
	p.add(Op{Kind: OpSettle})
	p.add(Op{Kind: OpWaitIdle})

	// After the rewind, once more by notification with the shapes swapped.
	reorg := sp.Reorg
	sp.Reorg = reorg && rng.Intn(2) == 0
	notified(sp.ShapeB, sp.ShapeA)
	sp.Reorg = reorg

	p.add(Op{Kind: OpWaitUpd})
	fin := p.G.Extend(p.simTip, 1, p.Pace)
	p.FinalNode = fin[0]
	p.simTip = fin[0]
	return p
}
