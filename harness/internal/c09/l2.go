package c09

// L2 part of C09: the SAME oracle (Walk, walk.go) applied to the REAL client
// end to end. neutrino.NewRescan(&neutrino.RescanChainSource{ChainService})
// runs against the complete ChainService (block manager, subscription manager,
// work manager, filter/block fetching, caches, stores on disk) which talks to
// scripted wire-level peers (internal/netsim, internal/l2). The honest chain
// grows and reorganises at chosen points of the rescan's progress, peers drop
// chosen getcfilters / getdata requests, Rescan.Update is issued at chosen
// moments; every callback and every "Update called / returned" mark goes into
// ONE ordered log, which Walk judges against the generator's block tree.
//
// One child process per scenario (l2.RunScenarios); L2Scenario is the
// importable scenario function.

import (
	"fmt"
	"math/rand"
	"os"
	"runtime"
	"sort"
	"strings"
	"sync"
	"sync/atomic"
	"time"

	"github.com/btcsuite/btcd/address/v2"
	"github.com/btcsuite/btcd/btcjson"
	"github.com/btcsuite/btcd/btcutil/v2"
	"github.com/btcsuite/btcd/chainhash/v2"
	"github.com/btcsuite/btcd/rpcclient"
	"github.com/btcsuite/btcd/wire/v2"
	"github.com/lightninglabs/neutrino"
	"github.com/lightninglabs/neutrino/headerfs"

	"verif/internal/chaingen"
	"verif/internal/evid"
	"verif/internal/l2"
	"verif/internal/netsim"
)

// Sizes of the L2 part (scenario counts, never durations).
const (
	L2QuickScenarios    = 12
	L2ThoroughScenarios = 450
	// L2MinDistinct is the floor the L2 part adds to the distinct non-trivial
	// shapes of the run (quick tier).
	L2MinDistinct  = 8
	L2ChildTimeout = 200 * time.Second

	// Family l2-stale-rewind: its scenarios come after the l2-persist ones in
	// the tier's list and are planned under the indices l2StaleBase+j; the
	// first l2StaleFixed do not depend on the run's seed.
	L2StaleQuick    = 4
	L2StaleThorough = 40
	l2StaleBase     = 100_000
	l2StaleFixed    = 1
)

// L2 families: the phase of the rescan the chain changes are aimed at.
const (
	L2Current = "l2-current" // following notifications at the tip
	L2Catchup = "l2-catchup" // walking by height; parked inside a connected callback
	L2Retry   = "l2-retry"   // peers drop getcfilters / getdata: work-manager retry, retry queue, re-walk
	L2Update  = "l2-update"  // AddAddrs / AddInputs / Rewind at chosen moments of both phases
	L2Stale   = "l2-stale-rewind" // Update+Rewind offered while the caller's block is off the client's best chain
)

const l2Rule = " || L2: scenario k of seed s (one child process each) is a pure function plan(s,k): an l2.World with a chaingen chain of 80-400 " +
	"blocks (no-retarget preset; payments to / spends from the key pool), 1-3 honest wire-level peers (optionally one slow, optionally one or all " +
	"dropping chosen getcfilters/getdata requests a few times), the complete real ChainService synced to it, then " +
	"neutrino.NewRescan(&RescanChainSource{svc}) with WatchAddrs / WatchInputs (outpoints of the generator's wallet, optionally a spend-by-script " +
	"input), StartBlock genesis/mid/tip, optional StartTime and EndBlock, filtered (optionally also legacy) handlers recording into one log. " +
	"A script of steps fires at the k-th connected callback (optionally PARKING the rescan goroutine inside that callback while the step runs " +
	"and the client adopts it): growth, reorganisations of depth 1-6 to a longer branch (also twice in a row and right back to the old branch), " +
	"Update(AddAddrs/AddInputs/Rewind, with and without DisableDisconnectedNtfns) settled, racing or while parked. Families: l2-current, " +
	"l2-catchup, l2-retry, l2-update, and l2-stale-rewind (after the l2-persist scenarios; the first one does not depend on the seed): the rescan is " +
	"parked inside a connected callback in the middle of its walk by height (or, following notifications, in the callback of a fresh block), " +
	"the peers reorganise from a fork point f at least two blocks below the caller's block and the client adopts the new branch, " +
	"Update(Rewind(h)[, DisableDisconnectedNtfns(true)]) with f < h < caller's height is on offer on the update channel when the callback returns. End: every update returned, one fresh block, wait until the last connected callback names it and the client " +
	"reports it (or the rescan terminated), then Walk judges the log. L2 fingerprint = (family, start/start-time/end, parked, deepest fork " +
	"relative to the caller's position + depth bucket, drop kinds that fired, strongest update kind@timing, rescan termination kind). " +
	"L2 non-trivial = at least 3 block callbacks and at least one reorg, update, dropped request or park. Counters prefixed l2_."

// L2Describe appends the L2 part's rule and assumptions to the run.
func L2Describe(r *evid.Run) {
	r.Rule(componentRule + l2Rule + l2PersistRule)
	r.Assume("L2: the simulated peers implement the protocol subset of DESIGN appendix B and serve the generator's blocks and ground-truth filters; " +
		"client knobs (QueryTimeout etc.) are the shortened exported configuration values of internal/l2")
	r.Assume("L2: the start block handed to the oracle is the block of the initially synced chain at the start height (the rescan is created after " +
		"the client reported that chain's tip and before the first chain change is revealed)")
	r.Assume("L2: with the real ChainService GetCFilter of a block that left the chain fails with a wrapped error (never the bare ErrHashNotFound the " +
		"rescan treats as 'no match'), so the oracle's absent-filter excuse is never granted in L2; such a rescan ends with an error, which is counted")
}

// L2Run is the parent side of the L2 part: it describes the part, runs the
// tier's scenarios (one child process each, 16-wide) and folds their results
// and a few written-out scenarios into r. The caller calls r.Finish.
func L2Run(r *evid.Run) {
	L2Describe(r)
	// The scenarios of this file first, then the l2-persist family
	// (l2persist.go); L2Dispatch maps an index to its family.
	n := r.Pick(L2QuickScenarios, L2ThoroughScenarios) + r.Pick(L2PersistQuick, L2PersistThorough) + r.Pick(L2StaleQuick, L2StaleThorough)
	var mu sync.Mutex
	var samples []any
	exits := map[string]int{}
	l2.RunScenariosCB(r, n, L2ChildTimeout, L2Dispatch(r), func(res *l2.Result) {
		mu.Lock()
		defer mu.Unlock()
		if res.Sample != nil && len(samples) < 4 {
			samples = append(samples, res.Sample)
		}
		if i := strings.LastIndex(res.Fingerprint, "|exit="); i >= 0 && !strings.HasPrefix(res.Fingerprint, L2Persist) {
			exits[res.Fingerprint[i+6:]]++
		}
	})
	mu.Lock()
	defer mu.Unlock()
	r.Set("l2_samples", samples)
	r.Set("l2_rescan_state_at_end_of_script", exits)
}

// ---------------------------------------------------------------------------
// Plan.

type l2Op struct {
	Kind  string         // grow | reorg | back | update | settle | drop
	To    *chaingen.Node `json:"-"` // grow/reorg/back: the new honest tip
	Adopt bool           // wait until the client reports To before going on
	Upd   *UpdSpec       // update
	Wait  bool           // update: wait for its return
	Drop  *l2Drop        // drop
	Desc  string
}

type l2Drop struct {
	Kind  string // cfilter | block | cfbatch
	Node  *chaingen.Node
	Times int
}

type l2Step struct {
	AtConn  int            // fire once >= AtConn connected callbacks were observed (0: at once)
	Park    bool           // hold the rescan goroutine inside the triggering connected callback while Ops run
	Provoke *chaingen.Node // parked step of a rescan that is current: reveal this block first so that a callback happens
	Ops     []l2Op
}

type l2Plan struct {
	Seed       int64
	K          int
	Family     string
	ChainLen   int
	Peers      int
	Slow       bool
	DropPeers  string // none | one | all
	Announce   string // inv | headers | mixed
	Ntfn       string
	StartKind  string
	StartTimeK string
	EndKind    string
	Fixed      bool

	w       *l2.World
	p       *Plan // key / utxo / update bookkeeping shared with the component planner
	rng     *rand.Rand
	trunk   []*chaingen.Node
	tip     *chaingen.Node // planning: honest tip after the steps planned so far
	lastOld *chaingen.Node // planning: the tip replaced by the most recent reorganisation
	start   *chaingen.Node
	end     *chaingen.Node
	final   *chaingen.Node
	steps   []*l2Step
	script  []string
}

func (pl *l2Plan) say(format string, a ...any) {
	pl.script = append(pl.script, fmt.Sprintf(format, a...))
}

func (pl *l2Plan) grow(n int, adopt bool) l2Op {
	nodes := pl.w.G.Extend(pl.tip, n, chaingen.PaceNormal)
	pl.tip = nodes[len(nodes)-1]
	return l2Op{Kind: "grow", To: pl.tip, Adopt: adopt, Desc: fmt.Sprintf("grow(+%d -> %d)", n, pl.tip.Height)}
}

func (pl *l2Plan) reorg(depth int, adopt bool) l2Op {
	if depth >= int(pl.tip.Height) {
		depth = int(pl.tip.Height) - 1
	}
	if depth < 1 {
		depth = 1
	}
	f := pl.tip.Ancestor(pl.tip.Height - int32(depth))
	br := pl.w.G.Extend(f, depth+1+pl.rng.Intn(2), chaingen.PaceNormal)
	pl.lastOld = pl.tip
	pl.tip = br[len(br)-1]
	return l2Op{Kind: "reorg", To: pl.tip, Adopt: adopt, Desc: fmt.Sprintf("reorg(depth=%d fork=%d -> %d)", depth, f.Height, pl.tip.Height)}
}

// back reorganises right back onto the branch the last reorganisation left
// (extended so that it is the longer one again): blocks disconnected a moment
// ago are connected a second time.
func (pl *l2Plan) back(adopt bool) l2Op {
	if pl.lastOld == nil {
		return pl.reorg(1+pl.rng.Intn(3), adopt)
	}
	o := pl.lastOld
	need := int(pl.tip.Height-o.Height) + 1 + pl.rng.Intn(2)
	if need < 1 {
		need = 1
	}
	br := pl.w.G.Extend(o, need, chaingen.PaceNormal)
	f := chaingen.ForkPoint(o, pl.tip)
	d := pl.tip.Height - f.Height
	pl.lastOld = pl.tip
	pl.tip = br[len(br)-1]
	return l2Op{Kind: "back", To: pl.tip, Adopt: adopt, Desc: fmt.Sprintf("reorg-back(depth=%d fork=%d -> %d)", d, f.Height, pl.tip.Height)}
}

func (pl *l2Plan) update(kind string, wait bool, timing string) l2Op {
	pl.p.simTip = pl.tip
	o := pl.p.opUpdate(kind, wait, timing)
	return l2Op{Kind: "update", Upd: o.Upd, Wait: wait, Desc: o.String()}
}

func (pl *l2Plan) settle() l2Op { return l2Op{Kind: "settle", Desc: "settle"} }

func (pl *l2Plan) drop(kind string, n *chaingen.Node, times int) l2Op {
	return l2Op{Kind: "drop", Drop: &l2Drop{Kind: kind, Node: n, Times: times},
		Desc: fmt.Sprintf("drop(%s,h=%d,x%d)", kind, n.Height, times)}
}

func (pl *l2Plan) step(at int, park bool, ops ...l2Op) *l2Step {
	s := &l2Step{AtConn: at, Park: park, Ops: ops}
	pl.steps = append(pl.steps, s)
	var ds []string
	for _, o := range ops {
		ds = append(ds, o.Desc)
	}
	pl.say("at-conn>=%d park=%v: %s", at, park, strings.Join(ds, "; "))
	return s
}

func (pl *l2Plan) randUpdateKind() string {
	return []string{"addrs", "inputs", "addrs+rewind", "inputs+rewind", "rewind", "addrs"}[pl.rng.Intn(6)]
}

// chainChange plans one seed-chosen chain change (possibly compound).
func (pl *l2Plan) chainChange(adopt bool) []l2Op {
	rng := pl.rng
	switch r := rng.Intn(10); {
	case r < 2:
		return []l2Op{pl.grow(1+rng.Intn(3), adopt)}
	case r < 6:
		return []l2Op{pl.reorg(1+rng.Intn(6), adopt)}
	case r < 8: // twice in a row
		return []l2Op{pl.reorg(1+rng.Intn(4), rng.Intn(2) == 0 && adopt), pl.reorg(1+rng.Intn(6), adopt)}
	default: // and right back
		return []l2Op{pl.reorg(1+rng.Intn(4), rng.Intn(2) == 0 && adopt), pl.back(adopt)}
	}
}

// l2MakePlan builds scenario k of the seed: world, chain, peers, rescan
// options and the script. Everything (including every block revealed later) is
// generated here, before the client exists.
func l2MakePlan(seed int64, k int) *l2Plan {
	src, wseed := seed*1_000_003+int64(k)*7919+909, seed*1_000_003+int64(k)+900_000
	stale := k >= l2StaleBase
	if stale && k-l2StaleBase < l2StaleFixed {
		src, wseed = 0x5ca1e09+int64(k), 0x5ca1e0900+int64(k) // seed-independent
	}
	rng := rand.New(rand.NewSource(src))
	pl := &l2Plan{Seed: seed, K: k, rng: rng}
	switch k % 8 {
	case 0, 4:
		pl.Family = L2Current
	case 1, 5, 7:
		pl.Family = L2Catchup
	case 2, 6:
		pl.Family = L2Retry
	default:
		pl.Family = L2Update
	}
	pl.ChainLen = 80 + rng.Intn(321)
	pl.Peers = 1 + rng.Intn(3)
	pl.Slow = pl.Peers > 1 && rng.Intn(3) == 0
	pl.Announce = []string{"inv", "headers", "mixed"}[rng.Intn(3)]
	pl.Ntfn = "filtered"
	if rng.Intn(4) == 0 {
		pl.Ntfn = "both"
	}
	pl.DropPeers = "none"
	if stale {
		pl.Family, pl.ChainLen, pl.Slow = L2Stale, 80+rng.Intn(60), false
		pl.Fixed = k-l2StaleBase < l2StaleFixed
	}
	if k == 0 {
		// Fixed scenario: two peers, a rescan from mid-chain that becomes
		// current, then growth, a 2-deep reorganisation and an address
		// update with rewind, each settled.
		pl.Fixed = true
		pl.Family, pl.ChainLen, pl.Peers, pl.Slow, pl.Announce, pl.Ntfn = L2Current, 120, 2, false, "headers", "filtered"
	}

	span := time.Duration(pl.ChainLen+400) * 6 * time.Second
	if span < 2*time.Hour {
		span = 2 * time.Hour
	}
	w := l2.NewWorld(l2.Config{Seed: wseed, Preset: chaingen.PresetNoRetarget, SpacingSec: 4, GenesisAgo: span})
	pl.w = w
	g := w.G
	pl.trunk = g.Extend(g.Genesis, pl.ChainLen, chaingen.PaceNormal)
	tip0 := pl.trunk[pl.ChainLen-1]
	pl.tip = tip0
	pl.p = &Plan{G: g, rng: rng, used: map[WatchKey]bool{}, usedOps: map[wire.OutPoint]bool{}, simTip: tip0}

	// Start block.
	at := func(h int32) *chaingen.Node { return tip0.Ancestor(h) }
	switch pl.Family {
	case L2Current:
		pl.StartKind = []string{"tip", "tip", "mid", "genesis"}[rng.Intn(4)]
	case L2Catchup:
		pl.StartKind = []string{"genesis", "mid", "mid"}[rng.Intn(3)]
	case L2Stale:
		pl.StartKind = "near-tip"
	default:
		pl.StartKind = []string{"genesis", "mid", "tip"}[rng.Intn(3)]
	}
	if pl.Fixed && !stale {
		pl.StartKind = "mid"
	}
	switch pl.StartKind {
	case "genesis":
		pl.start = g.Genesis
	case "tip":
		pl.start = tip0
	case "near-tip":
		pl.start = at(tip0.Height - int32(12+rng.Intn(20)))
	default:
		lo := int32(pl.ChainLen / 3)
		hi := tip0.Height - 12
		pl.start = at(lo + int32(rng.Intn(int(hi-lo)+1)))
	}
	pl.p.StartNode = pl.start

	// Watched items: the generator's wallet as of the start block.
	for i, n := 0, 2+rng.Intn(3); i < n; i++ {
		if kk, ok := pl.p.freshKey(); ok {
			pl.p.InitKeys = append(pl.p.InitKeys, kk)
		}
	}
	if rng.Intn(4) != 0 && pl.start.Height > 0 {
		pl.p.InitInputs = pl.p.freshUtxos(pl.start, 1+rng.Intn(3))
	}
	if rng.Intn(6) == 0 {
		if kk, ok := pl.p.freshKey(); ok {
			pl.p.InitScripts = append(pl.p.InitScripts, pl.p.script(kk))
		}
	}

	// Start time: just before the timestamp of a block between start and tip.
	pl.StartTimeK = "none"
	if rng.Intn(4) == 0 && tip0.Height-pl.start.Height > 6 && !pl.Fixed {
		pl.StartTimeK = "mid"
		h := pl.start.Height + 1 + int32(rng.Intn(int(tip0.Height-pl.start.Height)-1))
		pl.p.StartTime = at(h).Hdr.Timestamp.Add(-time.Second)
	}
	pl.p.StartTimeK = pl.StartTimeK

	// End block (catch-up family only): at or a few blocks below the synced tip.
	pl.EndKind = "none"
	if pl.Family == L2Catchup && rng.Intn(4) == 0 {
		pl.EndKind = "height"
		pl.end = at(tip0.Height - int32(rng.Intn(4)))
	}

	behind := int(tip0.Height - pl.start.Height) // connected callbacks until the rescan is at the synced tip
	switch pl.Family {
	case L2Current:
		pl.planCurrent(behind)
	case L2Catchup:
		pl.planCatchup(behind)
	case L2Retry:
		pl.planRetry(behind)
	case L2Update:
		pl.planUpdate(behind)
	case L2Stale:
		pl.planStale(behind)
	}
	if pl.EndKind == "none" {
		pl.final = g.Extend(pl.tip, 1, chaingen.PaceNormal)[0]
	}
	return pl
}

func (pl *l2Plan) planCurrent(behind int) {
	rng := pl.rng
	if pl.Fixed {
		pl.step(behind, false, pl.settle(), pl.grow(2, true), pl.settle())
		pl.step(0, false, pl.reorg(2, true), pl.settle())
		u := pl.update("addrs+rewind", true, "settled")
		u.Upd.Rewind, u.Upd.Silent = uint32(pl.tip.Height-5), false
		u.Desc = fmt.Sprintf("update#%d(addrs+rewind,rewind=%d,silent=false,wait=true)", u.Upd.ID, u.Upd.Rewind)
		pl.step(0, false, u, pl.settle())
		return
	}
	pl.step(behind, false, pl.settle())
	for i, n := 0, 2+rng.Intn(4); i < n; i++ {
		adopt := rng.Intn(3) != 0
		switch r := rng.Intn(10); {
		case r < 6:
			ops := pl.chainChange(adopt)
			if rng.Intn(2) == 0 {
				ops = append(ops, pl.settle())
			}
			pl.step(0, false, ops...)
		case r < 8:
			// Park the (current) rescan inside the callback of a freshly
			// revealed block and change the chain underneath it.
			prov := pl.w.G.Extend(pl.tip, 1, chaingen.PaceNormal)[0]
			pl.tip = prov
			s := pl.step(0, true, pl.chainChange(true)...)
			s.Provoke = prov
		default:
			pl.step(0, false, pl.update(pl.randUpdateKind(), rng.Intn(2) == 0, "settled"))
		}
	}
	pl.step(0, false, pl.settle())
}

func (pl *l2Plan) planCatchup(behind int) {
	rng := pl.rng
	// Early during the walk: the chain grows above the rescan (unparked).
	if behind > 30 && rng.Intn(2) == 0 {
		pl.step(3+rng.Intn(behind/3), false, pl.grow(1+rng.Intn(2), false))
	}
	if rng.Intn(4) == 0 && behind > 40 {
		// One dropped filter batch during the walk (work-manager retry).
		pl.DropPeers = "one"
		pl.steps = append([]*l2Step{{Ops: []l2Op{pl.drop("cfbatch", pl.tip, 1)}}}, pl.steps...)
		pl.say("armed before start: drop(cfbatch,x1)")
	}
	// Near the tip: park the walk r blocks below the tip the client was
	// synced to and reorganise with a depth around r: fork above, at or
	// below the block the caller was just told about.
	r := rng.Intn(7)
	if r > behind-1 {
		r = behind - 1
	}
	at := behind - r
	if pl.end != nil {
		// Park at or below the end block so that the walk is still running.
		lim := int(pl.end.Height-pl.start.Height) - rng.Intn(3)
		if at > lim {
			at = lim
		}
		if at < 1 {
			at = 1
		}
	}
	var ops []l2Op
	switch x := rng.Intn(10); {
	case x < 5:
		ops = []l2Op{pl.reorg(1+rng.Intn(6), true)}
	case x < 7:
		ops = []l2Op{pl.reorg(1+rng.Intn(4), true), pl.reorg(1+rng.Intn(6), true)}
	case x < 9:
		ops = []l2Op{pl.reorg(1+rng.Intn(4), true), pl.back(true)}
	default:
		ops = []l2Op{pl.grow(1+rng.Intn(3), true)}
	}
	if rng.Intn(4) == 0 {
		ops = append(ops, pl.update(pl.randUpdateKind(), false, "parked"))
	}
	pl.step(at, true, ops...)
	pl.step(0, false, pl.settle())
	if pl.end == nil && rng.Intn(2) == 0 {
		pl.step(0, false, append(pl.chainChange(true), pl.settle())...)
	}
}

func (pl *l2Plan) planRetry(behind int) {
	rng := pl.rng
	pl.DropPeers = []string{"all", "all", "all", "one"}[rng.Intn(4)]
	if pl.Peers == 1 {
		pl.DropPeers = "all"
	}
	pl.step(behind, false, pl.settle())
	for i, n := 0, 1+rng.Intn(2); i < n; i++ {
		// The block(s) revealed next are the ones whose filter / block the
		// peers refuse to serve at first.
		prev := pl.tip
		var change l2Op
		if rng.Intn(3) == 0 {
			change = pl.reorg(1+rng.Intn(3), false)
		} else {
			change = pl.grow(1+rng.Intn(2), false)
		}
		f := chaingen.ForkPoint(prev, pl.tip)
		victim := pl.tip.Ancestor(f.Height + 1) // first new block
		times := 1 + rng.Intn(2)                // 2 with every peer dropping: the filter query fails -> retry queue
		kind := []string{"cfilter", "cfilter", "block"}[rng.Intn(3)]
		if kind == "block" && !pl.fetched(victim) {
			kind = "cfilter" // the rescan would never ask for this block
		}
		ops := []l2Op{pl.drop(kind, victim, times), change}
		// While the block waits: more chain changes.
		switch rng.Intn(3) {
		case 0:
			ops = append(ops, pl.grow(1, false))
		case 1:
			ops = append(ops, pl.reorg(1+rng.Intn(2), false))
		}
		ops = append(ops, pl.settle())
		pl.step(0, false, ops...)
		if rng.Intn(3) == 0 {
			pl.step(0, false, pl.update(pl.randUpdateKind(), true, "settled"), pl.settle())
		}
	}
}

// fetched reports whether the block has a transaction that is relevant under
// the initially watched items (then the rescan certainly downloads it).
func (pl *l2Plan) fetched(n *chaingen.Node) bool {
	w0 := &watch{addrs: map[string]int{}, ops: map[wire.OutPoint]int{}, scripts: map[string]int{}}
	for _, k := range pl.p.InitKeys {
		w0.addrs[string(pl.p.script(k))] = 0
	}
	for _, u := range pl.p.InitInputs {
		w0.ops[u.Op] = 0
	}
	for _, sc := range pl.p.InitScripts {
		w0.scripts[string(sc)] = 0
	}
	return len(relevant(n, w0)) > 0
}

func (pl *l2Plan) planUpdate(behind int) {
	rng := pl.rng
	if behind > 20 {
		// During the walk by height: racing and parked.
		pl.step(2+rng.Intn(behind/2), false, pl.update(pl.randUpdateKind(), false, "racing"))
		if rng.Intn(2) == 0 {
			at := behind/2 + rng.Intn(behind/2)
			ops := []l2Op{pl.update(pl.randUpdateKind(), false, "parked")}
			if rng.Intn(2) == 0 {
				ops = append(ops, pl.grow(1+rng.Intn(2), true))
			}
			pl.step(at, true, ops...)
		}
	}
	pl.step(behind, false, pl.settle())
	for i, n := 0, 2+rng.Intn(3); i < n; i++ {
		switch rng.Intn(4) {
		case 0: // settled
			pl.step(0, false, pl.update(pl.randUpdateKind(), true, "settled"), pl.settle())
		case 1: // racing with a chain change
			ops := []l2Op{pl.update(pl.randUpdateKind(), false, "racing")}
			ops = append(ops, pl.chainChange(false)...)
			pl.step(0, false, ops...)
		case 2: // rewind, then the chain changes while the rescan re-walks
			u := pl.update([]string{"addrs+rewind", "inputs+rewind", "rewind"}[rng.Intn(3)], false, "racing")
			ops := append([]l2Op{u}, pl.chainChange(true)...)
			pl.step(0, false, append(ops, pl.settle())...)
		default: // parked in the callback of a fresh block
			prov := pl.w.G.Extend(pl.tip, 1, chaingen.PaceNormal)[0]
			pl.tip = prov
			ops := []l2Op{pl.update(pl.randUpdateKind(), false, "parked")}
			if rng.Intn(2) == 0 {
				ops = append(ops, pl.reorg(1+rng.Intn(3), true))
			}
			s := pl.step(0, true, ops...)
			s.Provoke = prov
		}
	}
	pl.step(0, false, pl.settle())
}

// planStale: the caller holds a block at height c; the peers reorganise from
// fork point f <= c-2 and the client adopts the new branch while the rescan
// goroutine is parked inside the connected callback of that block; an Update
// with Rewind(h), f < h < c, is on offer when the callback returns.
func (pl *l2Plan) planStale(behind int) {
	rng := pl.rng
	mode := "catchup"
	if !pl.Fixed && rng.Intn(2) == 0 {
		mode = "current"
	}
	silent := pl.Fixed || rng.Intn(4) != 0
	kind := []string{"rewind", "addrs+rewind", "addrs+rewind", "inputs+rewind"}[rng.Intn(4)]
	upd := func(f, h int) l2Op {
		o := pl.p.staleUpdate(kind, uint32(h), silent, pl.tip.Ancestor(int32(f)), false, "parked")
		return l2Op{Kind: "update", Upd: o.Upd, Desc: o.String()}
	}
	offered := l2Op{Kind: "await-update-offered", Desc: "await-update-offered"}
	switch mode {
	case "catchup":
		r := 2 + rng.Intn(5) // parked r blocks below the synced tip
		if r > behind-4 {
			r = behind - 4
		}
		at := behind - r
		c := int(pl.start.Height) + at
		f := c - 2 - rng.Intn(4)
		if f <= int(pl.start.Height) {
			f = int(pl.start.Height) + 1
		}
		h := f + 1 + rng.Intn(c-1-f)
		u := upd(f, h)
		pl.say("mode=catchup caller=%d fork=%d rewind=%d silent=%v", c, f, h, silent)
		pl.step(at, true, pl.reorg(int(pl.tip.Height)-f, true), u, offered)
	default:
		pl.step(behind, false, pl.settle())
		prov := pl.w.G.Extend(pl.tip, 1, chaingen.PaceNormal)[0]
		pl.tip = prov
		c := int(prov.Height)
		d := 2 + rng.Intn(5)
		f := c - d
		h := f + 1 + rng.Intn(d-1)
		u := upd(f, h)
		pl.say("mode=current caller=%d fork=%d rewind=%d silent=%v", c, f, h, silent)
		s := pl.step(0, true, pl.reorg(d, true), u, offered)
		s.Provoke = prov
	}
	pl.step(0, false, pl.settle())
}

// ---------------------------------------------------------------------------
// Droppers: peers that stay silent on chosen requests a few times.

type l2Dropper struct {
	mu      sync.Mutex
	cf      map[chainhash.Hash]int // getcfilters whose stop hash is the key
	blk     map[chainhash.Hash]int // getdata for the key
	batch   int                    // getcfilters spanning more than one block
	dropped map[string]int
}

func (d *l2Dropper) arm(s *l2Drop) {
	d.mu.Lock()
	defer d.mu.Unlock()
	switch s.Kind {
	case "cfilter":
		d.cf[s.Node.Hash] += s.Times
	case "block":
		d.blk[s.Node.Hash] += s.Times
	case "cfbatch":
		d.batch += s.Times
	}
}

func (d *l2Dropper) count(kind string) int {
	d.mu.Lock()
	defer d.mu.Unlock()
	return d.dropped[kind]
}

// mutate is installed as netsim.Peer.Mutate on the dropping peers.
func (d *l2Dropper) mutate(p *netsim.Peer, req wire.Message, honest []wire.Message) []wire.Message {
	d.mu.Lock()
	defer d.mu.Unlock()
	switch t := req.(type) {
	case *wire.MsgGetCFilters:
		if d.cf[t.StopHash] > 0 {
			d.cf[t.StopHash]--
			d.dropped["cfilter"]++
			p.Log.Add(p.Addr, "ev", "drop", "getcfilters stop="+t.StopHash.String()[:8])
			return nil
		}
		if d.batch > 0 && len(honest) > 1 {
			d.batch--
			d.dropped["cfbatch"]++
			p.Log.Add(p.Addr, "ev", "drop", fmt.Sprintf("getcfilters batch of %d", len(honest)))
			return nil
		}
	case *wire.MsgGetData:
		if len(t.InvList) == 1 && d.blk[t.InvList[0].Hash] > 0 {
			d.blk[t.InvList[0].Hash]--
			d.dropped["block"]++
			p.Log.Add(p.Addr, "ev", "drop", "getdata "+t.InvList[0].Hash.String()[:8])
			return nil
		}
	}
	return honest
}

// ---------------------------------------------------------------------------
// Execution.

// l2Parker holds the park points of the script. Points with a callback count
// are armed before the rescan starts (a catch-up of a few dozen blocks takes a
// few milliseconds); the connected callback that reaches a point either parks
// there until the driver releases it (hold) or just tells the driver (soft).
type l2Parker struct {
	mu      sync.Mutex
	points  []l2Point
	fired   chan l2Fire // buffered: one entry per point
	release chan struct{}
}

type l2Point struct {
	step int
	at   int
	hold bool
}

type l2Fire struct {
	step int
	n    int
	hold bool
}

type l2Run struct {
	pl  *l2Plan
	w   *l2.World
	lg  *Log
	res *l2.Result
	rs  *neutrino.Rescan

	honest  *chaingen.Node
	live    sync.Map // *netsim.Peer -> *netsim.Conn on which a post-handshake message was seen
	annN    int
	drops   *l2Dropper
	pk      *l2Parker
	quit    chan struct{}
	updCh   chan *UpdSpec
	pending atomic.Int64

	trace    []string
	incon    string
	viol     *Violation
	reorgs   int
	grows    int
	updates  int
	rewinds  int
	parks    int
	isParked bool
	forkRel  string
	maxRel   int
	depthB   string
	relCount map[string]int
	updKinds map[string]bool
	dirty    bool

	staleSent  int // l2-stale-rewind: updates sent while the caller's block was off the client's best chain
	staleShape int // ... with fork < rewind height < caller's height
}

func (x *l2Run) tracef(format string, a ...any) {
	x.trace = append(x.trace, fmt.Sprintf(format, a...))
}

func (x *l2Run) where() string {
	_, h, have, _, _ := x.lg.tracker()
	if !have {
		h = x.pl.start.Height
	}
	bs, _ := x.w.Svc.BestBlock()
	ch := int32(-1)
	if bs != nil {
		ch = bs.Height
	}
	s := fmt.Sprintf(" [caller@%d client@%d honest@%d", h, ch, x.honest.Height)
	if x.isParked {
		s += " parked"
	}
	return s + "]"
}

func (x *l2Run) peerLive(p *netsim.Peer) bool {
	c := p.Conn()
	if c == nil || c.Dead() {
		return false
	}
	v, ok := x.live.Load(p)
	return ok && v.(*netsim.Conn) == c
}

// announce makes every peer that completed its handshake announce the honest
// tip: by inv (the client then asks for the headers) or by an unsolicited
// headers message carrying the whole new branch from the fork point on.
func (x *l2Run) announce(branch []*chaingen.Node, to *chaingen.Node, style string) int {
	n := 0
	for _, p := range x.w.Peers {
		if !x.peerLive(p) {
			continue
		}
		st := style
		if st == "mixed" {
			st = []string{"inv", "headers"}[x.annN%2]
			x.annN++
		}
		if st == "inv" || len(branch) == 0 || len(branch) > 1500 {
			p.AnnounceInv(to)
		} else {
			p.AnnounceHeaders(branch...)
		}
		n++
	}
	return n
}

// setTip reorganises / extends the honest chain: every peer's view moves to
// the new tip and the connected peers announce it.
func (x *l2Run) setTip(to *chaingen.Node, adopt bool) {
	from := x.honest
	fork := chaingen.ForkPoint(from, to)
	branch := to.Path()[fork.Height+1:]
	if depth := int(from.Height - fork.Height); depth > 0 {
		x.noteReorg(depth, fork)
	} else {
		x.grows++
	}
	for _, p := range x.w.Peers {
		p.View.SetTip(to)
	}
	x.honest = to
	x.lg.add(Ev{Kind: EvChain, Height: to.Height, Hash: to.Hash, Note: fmt.Sprintf("honest tip; fork=%d", fork.Height)})
	n := x.announce(branch, to, x.pl.Announce)
	x.tracef("honest tip -> %d (%s), fork %d, announced by %d peers%s", to.Height, short(to.Hash), fork.Height, n, x.where())
	if adopt {
		x.awaitClient(to, 20*time.Second)
	}
}

// awaitClient waits (pacing) until the client reports n as best block,
// re-announcing by inv every 2 s (a peer that reconnected meanwhile has not
// announced anything yet).
func (x *l2Run) awaitClient(n *chaingen.Node, d time.Duration) bool {
	deadline := time.Now().Add(d)
	last := time.Now()
	for time.Now().Before(deadline) {
		if x.w.SyncedTo(n) {
			return true
		}
		if time.Since(last) > 2*time.Second {
			last = time.Now()
			x.announce(nil, n, "inv")
		}
		time.Sleep(5 * time.Millisecond)
	}
	x.tracef("client did not report height %d within %v%s", n.Height, d, x.where())
	return false
}

// noteReorg measures where the fork point lies relative to the block the
// caller was last told is current.
func (x *l2Run) noteReorg(depth int, fork *chaingen.Node) {
	_, curH, have, _, _ := x.lg.tracker()
	if !have {
		curH = x.pl.start.Height
	}
	rel := "above-cur"
	switch {
	case fork.Height < x.pl.start.Height && fork.Height < curH:
		rel = "below-start"
	case fork.Height < curH:
		rel = "below-cur"
		if curH-fork.Height == 1 {
			rel = "one-below-cur"
		}
	case fork.Height == curH:
		rel = "at-cur"
	}
	x.reorgs++
	phase := "free"
	if x.isParked {
		phase = "parked"
	}
	x.relCount[phase+":"+rel]++
	rank := map[string]int{"above-cur": 1, "at-cur": 2, "one-below-cur": 3, "below-cur": 4, "below-start": 5}[rel]
	if rank >= x.maxRel {
		x.maxRel, x.forkRel = rank, rel
		switch {
		case depth == 1:
			x.depthB = "1"
		case depth <= 3:
			x.depthB = "2-3"
		default:
			x.depthB = "4+"
		}
	}
}

func (x *l2Run) options() ([]neutrino.RescanOption, error) {
	pl := x.pl
	p := pl.p
	var opts []neutrino.RescanOption
	switch pl.StartKind {
	case "tip":
		// No StartBlock: the rescan starts from the client's best block.
	default:
		opts = append(opts, neutrino.StartBlock(&headerfs.BlockStamp{Height: pl.start.Height}))
	}
	if pl.StartTimeK != "none" {
		opts = append(opts, neutrino.StartTime(p.StartTime))
	}
	if pl.end != nil {
		opts = append(opts, neutrino.EndBlock(&headerfs.BlockStamp{Height: pl.end.Height}))
	}
	var addrs []address.Address
	for _, k := range p.InitKeys {
		a, err := p.addr(k)
		if err != nil {
			return nil, err
		}
		addrs = append(addrs, a)
	}
	if len(addrs) > 0 {
		opts = append(opts, neutrino.WatchAddrs(addrs...))
	}
	var ins []neutrino.InputWithScript
	for _, u := range p.InitInputs {
		ins = append(ins, inputOf(u))
	}
	for _, s := range p.InitScripts {
		ins = append(ins, neutrino.InputWithScript{PkScript: s})
	}
	if len(ins) > 0 {
		opts = append(opts, neutrino.WatchInputs(ins...))
	}
	opts = append(opts, neutrino.QuitChan(x.quit), neutrino.NotificationHandlers(x.handlers()))
	return opts, nil
}

func (x *l2Run) updateOptions(u *UpdSpec) ([]neutrino.UpdateOption, error) {
	var uo []neutrino.UpdateOption
	var addrs []address.Address
	for _, k := range u.Keys {
		a, err := x.pl.p.addr(k)
		if err != nil {
			return nil, err
		}
		addrs = append(addrs, a)
	}
	if len(addrs) > 0 {
		uo = append(uo, neutrino.AddAddrs(addrs...))
	}
	var ins []neutrino.InputWithScript
	for _, in := range u.Inputs {
		ins = append(ins, inputOf(in))
	}
	if len(ins) > 0 {
		uo = append(uo, neutrino.AddInputs(ins...))
	}
	if u.Rewind > 0 {
		uo = append(uo, neutrino.Rewind(u.Rewind))
		if u.Silent {
			uo = append(uo, neutrino.DisableDisconnectedNtfns(true))
		}
	}
	return uo, nil
}

func (x *l2Run) handlers() rpcclient.NotificationHandlers {
	h := rpcclient.NotificationHandlers{
		OnFilteredBlockConnected: func(height int32, hdr *wire.BlockHeader, txs []*btcutil.Tx) {
			x.lg.add(Ev{Kind: EvConn, Height: height, Hash: hdr.BlockHash(), Prev: hdr.PrevBlock,
				Time: hdr.Timestamp.Unix(), txs: txHashes(txs), Note: "via l2"})
			x.maybePark()
		},
		OnFilteredBlockDisconnected: func(height int32, hdr *wire.BlockHeader) {
			x.lg.add(Ev{Kind: EvDisc, Height: height, Hash: hdr.BlockHash(), Prev: hdr.PrevBlock,
				Time: hdr.Timestamp.Unix()})
		},
	}
	if x.pl.Ntfn == "both" {
		h.OnBlockConnected = func(hash *chainhash.Hash, height int32, t time.Time) { // nolint:staticcheck
			x.lg.add(Ev{Kind: EvLConn, Height: height, Hash: *hash, Time: t.Unix()})
		}
		h.OnBlockDisconnected = func(hash *chainhash.Hash, height int32, t time.Time) { // nolint:staticcheck
			x.lg.add(Ev{Kind: EvLDisc, Height: height, Hash: *hash, Time: t.Unix()})
		}
		h.OnRecvTx = func(tx *btcutil.Tx, d *btcjson.BlockDetails) { // nolint:staticcheck
			x.lg.add(Ev{Kind: EvRecv, Height: d.Height, Note: d.Hash, txs: []chainhash.Hash{tx.MsgTx().TxHash()}})
		}
		h.OnRedeemingTx = func(tx *btcutil.Tx, d *btcjson.BlockDetails) { // nolint:staticcheck
			x.lg.add(Ev{Kind: EvRedeem, Height: d.Height, Note: d.Hash, txs: []chainhash.Hash{tx.MsgTx().TxHash()}})
		}
	}
	return h
}

// maybePark runs on the rescan goroutine, inside a connected callback.
func (x *l2Run) maybePark() {
	pk := x.pk
	n := x.lg.connCount()
	for {
		pk.mu.Lock()
		if len(pk.points) == 0 || n < pk.points[0].at {
			pk.mu.Unlock()
			return
		}
		pt := pk.points[0]
		pk.points = pk.points[1:]
		pk.mu.Unlock()
		pk.fired <- l2Fire{pt.step, n, pt.hold}
		if pt.hold {
			select {
			case <-pk.release:
			case <-time.After(40 * time.Second):
			}
		}
	}
}

// arm appends a park point (points are armed in script order).
func (x *l2Run) arm(step, at int, hold bool) {
	x.pk.mu.Lock()
	x.pk.points = append(x.pk.points, l2Point{step, at, hold})
	x.pk.mu.Unlock()
}

// disarm removes the point of a step; it returns true if it had not fired.
func (x *l2Run) disarm(step int) bool {
	x.pk.mu.Lock()
	defer x.pk.mu.Unlock()
	for i, pt := range x.pk.points {
		if pt.step == step {
			x.pk.points = append(x.pk.points[:i:i], x.pk.points[i+1:]...)
			return true
		}
	}
	return false
}

// awaitFire waits for the point of the step to fire. Points fire in script
// order; a point of an earlier step that nobody waited for is discarded.
func (x *l2Run) awaitFire(step int, d time.Duration) (l2Fire, bool) {
	deadline := time.After(d)
	quiet := time.Now()
	last := x.lg.length()
	for {
		select {
		case f := <-x.pk.fired:
			if f.step == step {
				return f, true
			}
			if f.hold { // cannot happen: a held point is always awaited
				x.pk.release <- struct{}{}
			}
		case <-deadline:
			return l2Fire{}, false
		case <-time.After(10 * time.Millisecond):
			if x.exited() {
				return l2Fire{}, false
			}
			// The rescan has gone quiet without reaching the point.
			if n := x.lg.length(); n != last {
				last, quiet = n, time.Now()
			} else if time.Since(quiet) > 3*time.Second {
				return l2Fire{}, false
			}
		}
	}
}

func (x *l2Run) exited() bool {
	_, _, _, _, ex := x.lg.tracker()
	return ex
}

func (x *l2Run) runStep(i int, s *l2Step) {
	switch {
	case s.Park || s.AtConn > 0:
		if s.AtConn == 0 {
			// A rescan that follows notifications: park in its next
			// connected callback, provoked by a fresh block.
			x.arm(i, 0, true)
			if s.Provoke != nil {
				x.setTip(s.Provoke, false)
			}
		}
		f, ok := x.awaitFire(i, 25*time.Second)
		if !ok && !x.disarm(i) {
			// Fired while we were giving up: take it.
			select {
			case f = <-x.pk.fired:
				ok = f.step == i
			case <-time.After(time.Second):
			}
		}
		switch {
		case !ok:
			x.tracef("script point of step %d not reached%s", i, x.where())
		case f.hold:
			x.parks++
			x.isParked = true
			x.tracef("parked inside connected callback #%d%s", f.n, x.where())
		default:
			x.tracef("connected callback #%d passed%s", f.n, x.where())
		}
	}
	for _, o := range s.Ops {
		x.runOp(o)
	}
	if x.isParked {
		x.isParked = false
		select {
		case x.pk.release <- struct{}{}:
			x.tracef("released")
		case <-time.After(5 * time.Second):
			x.tracef("release not taken")
		}
	}
}

func (x *l2Run) runOp(o l2Op) {
	switch o.Kind {
	case "grow", "reorg", "back":
		x.tracef("%s%s", o.Desc, x.where())
		x.setTip(o.To, o.Adopt)
	case "drop":
		x.drops.arm(o.Drop)
		x.tracef("%s", o.Desc)
	case "update":
		x.updates++
		u := o.Upd
		if u.Rewind > 0 {
			x.rewinds++
			if u.Silent {
				x.dirty = true
			}
		}
		timing := u.Timing
		if x.isParked {
			timing = "parked"
		}
		k := u.Kind
		if u.Silent {
			k += "(silent)"
		}
		x.updKinds[k+"@"+timing] = true
		if x.pl.Family == L2Stale {
			x.noteStale(u)
		}
		x.pending.Add(1)
		x.updCh <- u
		x.tracef("%s%s", o.Desc, x.where())
		if o.Wait && !x.isParked {
			x.waitUpdates(30 * time.Second)
		}
	case "await-update-offered":
		// Pacing: the Update call sits in Update's select, so the update is
		// on offer before the parked callback returns.
		deadline := time.Now().Add(5 * time.Second)
		for time.Now().Before(deadline) && x.pending.Load() > 0 {
			if updateCallParked(allStacks()) {
				x.tracef("update call parked on the update channel")
				return
			}
			time.Sleep(3 * time.Millisecond)
		}
		x.tracef("update call not seen parked (pending=%d)", x.pending.Load())
	case "settle":
		if x.isParked {
			return
		}
		tip := x.honest
		x.awaitClient(tip, 20*time.Second)
		ok := x.lg.waitFor(25*time.Second, func() bool { return x.lg.exited || x.lg.curHash == tip.Hash })
		x.tracef("settle ok=%v%s", ok, x.where())
	}
}

func (x *l2Run) waitUpdates(d time.Duration) bool {
	deadline := time.Now().Add(d)
	for x.pending.Load() > 0 {
		if time.Now().After(deadline) {
			return false
		}
		time.Sleep(time.Millisecond)
	}
	return true
}

// waitQuiet waits until the log has not grown for the given time.
func (x *l2Run) waitQuiet(quiet, max time.Duration) {
	deadline := time.Now().Add(max)
	last, since := x.lg.length(), time.Now()
	for time.Now().Before(deadline) {
		time.Sleep(5 * time.Millisecond)
		if n := x.lg.length(); n != last {
			last, since = n, time.Now()
		} else if time.Since(since) > quiet {
			return
		}
	}
}

// waitStarted waits (pacing) until the rescan goroutine has evaluated its start
// block: a callback was delivered, it terminated, or a goroutine dump shows it
// parked in the select of rescan() itself (subscribed, following notifications).
func (x *l2Run) waitStarted(d time.Duration) bool {
	deadline := time.Now().Add(d)
	for time.Now().Before(deadline) {
		if x.exited() || x.lg.connCount() > 0 {
			return true
		}
		dump := allStacks()
		if g := rescanGoroutine(dump); g != "" {
			st, f := goroutineFrames(dump, g)
			if st == "select" && !strings.Contains(f, "(*ChainService)") && !strings.Contains(f, "waitForBlocks") &&
				!strings.Contains(f, "newRescanState") {
				return true
			}
		}
		time.Sleep(5 * time.Millisecond)
	}
	return false
}

// updateCallParked reports whether a goroutine of the dump sits in the select
// of Rescan.Update.
func updateCallParked(dump string) bool {
	for _, blk := range strings.Split(dump, "\n\n") {
		blk = strings.TrimSpace(blk)
		if !strings.Contains(blk, "neutrino.(*Rescan).Update") {
			continue
		}
		if m := reGoHeader.FindStringSubmatch(blk); m != nil && strings.HasPrefix(m[2], "select") {
			return true
		}
	}
	return false
}

// noteStale measures, when an Update of the l2-stale-rewind family is handed
// to Rescan.Update, whether the block the caller holds is still known to the
// client's header store and how the rewind height relates to the fork point.
func (x *l2Run) noteStale(u *UpdSpec) {
	curHash, curH, have, _, _ := x.lg.tracker()
	if !have {
		return
	}
	n := x.w.G.ByHash[curHash]
	depth := 0
	for n != nil {
		if _, _, err := x.w.Svc.BlockHeaders.FetchHeader(&n.Hash); err == nil {
			break
		}
		n = n.Parent
		depth++
	}
	if n == nil || depth == 0 {
		x.tracef("update#%d sent with the caller's block on the client's best chain", u.ID)
		return
	}
	x.staleSent++
	if int32(u.Rewind) > n.Height && int32(u.Rewind) < curH {
		x.staleShape++
	}
	x.tracef("update#%d sent with the caller at %d off the client's best chain (fork %d, %d stale blocks, rewind %d)", u.ID, curH, n.Height, depth, u.Rewind)
}

// rescanGoroutine finds the goroutine running rescanState.rescan in a dump.
func rescanGoroutine(dump string) string {
	for _, blk := range strings.Split(dump, "\n\n") {
		blk = strings.TrimSpace(blk)
		if !strings.Contains(blk, "neutrino.(*rescanState).rescan") {
			continue
		}
		if m := reGoHeader.FindStringSubmatch(blk); m != nil {
			return m[1]
		}
	}
	return ""
}

// stuckOrInconclusive: the final watchdog expired. The client reports the
// honest tip, the rescan has not terminated and the caller is not at that
// tip. Violation only with the goroutine-level argument: the rescan goroutine
// is parked in the select of rescan() itself (not inside a query of the chain
// service, not inside the harness) in two dumps 2 s apart, the log did not
// grow in between and no Update is in flight.
func (x *l2Run) stuckOrInconclusive(what string, want *chaingen.Node) {
	n1 := x.lg.length()
	d1 := allStacks()
	time.Sleep(2 * time.Second)
	d2 := allStacks()
	n2 := x.lg.length()
	g1, g2 := rescanGoroutine(d1), rescanGoroutine(d2)
	st1, f1 := goroutineFrames(d1, g1)
	st2, f2 := goroutineFrames(d2, g2)
	curHash, curH, _, _, exited := x.lg.tracker()
	idle := g1 != "" && g1 == g2 && f1 != "" && f1 == f2 && n1 == n2 && !exited && st1 == "select" && st2 == "select" &&
		!strings.Contains(f1, "(*ChainService)") && !strings.Contains(f1, "verif/internal/c09") &&
		!strings.Contains(f1, "query.") && x.pending.Load() == 0 && x.w.SyncedTo(want)
	if idle {
		x.viol = &Violation{Rule: "walk-stuck-behind-tip", Shape: "l2-" + what,
			Text: fmt.Sprintf("%s: honest chain static at %s (height %d) and reported by the client, caller last told %s (height %d); rescan goroutine %s parked [select] in two dumps 2 s apart with no callback in between: %s",
				what, short(want.Hash), want.Height, short(curHash), curH, g1, f1)}
		return
	}
	x.incon = fmt.Sprintf("%s watchdog: rescan not provably idle (state %q/%q, log %d->%d, client at tip %v)", what, st1, st2, n1, n2, x.w.SyncedTo(want))
}

func l2ExitKind(s string) string {
	switch {
	case s == "":
		return "end-block-reached"
	case s == "quit":
		return "quit"
	case strings.Contains(s, "unable to rewind stale block"):
		return "stale-parent-unknown(reorg>=2-under-height-walk)"
	case strings.Contains(s, "unable to register block subscription"):
		return "subscribe-above-best-height"
	case strings.Contains(s, "unable to get header for start block"), strings.Contains(s, "couldn't get header for block"):
		return "block-left-chain-during-fetch"
	case strings.Contains(s, "unable to get hash for stopHeight"), strings.Contains(s, "ancestors for stopHash"), strings.Contains(s, "expected"):
		return "filter-batch-range-reorganised"
	case strings.Contains(s, "not found"), strings.Contains(s, "unable to find"), strings.Contains(s, "EOF"):
		return "header-not-found"
	case strings.Contains(s, "did not get response"), strings.Contains(s, "filter fetch failed"), strings.Contains(s, "couldn't retrieve block"),
		strings.Contains(s, "couldn't get block"):
		return "fetch-failed"
	}
	return "other"
}

type l2Witness struct {
	Scenario    int      `json:"scenario"`
	Seed        int64    `json:"seed"`
	Family      string   `json:"family"`
	Fingerprint string   `json:"fingerprint"`
	Setup       string   `json:"setup"`
	Watch       string   `json:"watch"`
	Script      []string `json:"script"`
	Trace       []string `json:"trace"`
	Exit        string   `json:"rescan_exit,omitempty"`
	Log         []Ev     `json:"log"`
	Net         []string `json:"net_log_tail"`
}

// L2Scenario runs scenario k of the seed in this (child) process.
func L2Scenario(seed int64, k int, res *l2.Result) {
	defer func() {
		if rec := recover(); rec != nil {
			buf := make([]byte, 1<<14)
			buf = buf[:runtime.Stack(buf, false)]
			fmt.Fprintf(os.Stderr, "C09 L2 scenario %d: harness panic: %v\n%s\n", k, rec, buf)
			res.Nontrivial = false
			res.Inconcl("l2: harness panic")
		}
	}()
	pl := l2MakePlan(seed, k)
	w := pl.w
	defer w.Cleanup()
	res.Name = fmt.Sprintf("c09-l2-%d", k)
	x := &l2Run{pl: pl, w: w, lg: newLog(), res: res, honest: pl.trunk[len(pl.trunk)-1],
		drops: &l2Dropper{cf: map[chainhash.Hash]int{}, blk: map[chainhash.Hash]int{}, dropped: map[string]int{}},
		pk:    &l2Parker{fired: make(chan l2Fire, len(pl.steps)+4), release: make(chan struct{})},
		quit:  make(chan struct{}), updCh: make(chan *UpdSpec, 64),
		forkRel: "none", depthB: "0", relCount: map[string]int{}, updKinds: map[string]bool{}}
	x.lg.curHash, x.lg.curHeight, x.lg.haveCur = pl.start.Hash, pl.start.Height, true

	tip0 := x.honest
	for i := 0; i < pl.Peers; i++ {
		p := w.AddPeer(tip0)
		if pl.Slow && i == pl.Peers-1 {
			p.Delay = time.Duration(15+pl.rng.Intn(30)) * time.Millisecond
		}
		if pl.DropPeers == "all" || (pl.DropPeers == "one" && i == 0) {
			p.Mutate = x.drops.mutate
		}
		p.OnMsg = func(p *netsim.Peer, m wire.Message) bool {
			if c := p.Conn(); c != nil {
				x.live.Store(p, c)
			}
			return false
		}
	}
	fp := func(ex bool, exErr string) string {
		var dk []string
		for _, kd := range []string{"cfbatch", "cfilter", "block"} {
			if x.drops.count(kd) > 0 {
				dk = append(dk, kd)
			}
		}
		fail := "none"
		if len(dk) > 0 {
			fail = strings.Join(dk, "+")
		}
		upd := "none"
		for kd := range x.updKinds {
			if upd == "none" || len(kd) > len(upd) || (len(kd) == len(upd) && kd > upd) {
				upd = kd
			}
		}
		parked := ""
		if x.parks > 0 {
			parked = "/parked"
		}
		exit := "running"
		if ex {
			exit = l2ExitKind(exErr)
		}
		return fmt.Sprintf("%s%s|fork=%s|depth=%s|drop=%s|upd=%s|start=%s/%s|end=%s|exit=%s",
			pl.Family, parked, x.forkRel, x.depthB, fail, upd, pl.StartKind, pl.StartTimeK, pl.EndKind, exit)
	}
	res.Fingerprint = pl.Family + "|not-started"

	if err := w.StartClient(nil, l2.ClientOpts{}); err != nil {
		res.Inconcl("l2: client start failed")
		return
	}
	stopped := false
	stopClient := func() {
		if stopped {
			return
		}
		stopped = true
		if ok, _ := w.StopClient(60 * time.Second); !ok {
			res.Inconcl("l2: Stop did not return within 60s (C17's subject)")
		}
	}
	defer stopClient()
	if !l2.WaitFor(60*time.Second, func() bool { return w.SyncedTo(tip0) }) {
		res.Inconcl("l2: initial sync not reached (C04's subject)")
		return
	}

	// The update goroutine: Update blocks until the rescan goroutine takes it.
	opts, err := x.options()
	if err != nil {
		res.Inconcl("l2: harness: " + err.Error())
		return
	}
	x.rs = neutrino.NewRescan(&neutrino.RescanChainSource{ChainService: w.Svc}, opts...)
	var updWG sync.WaitGroup
	updWG.Add(1)
	go func() {
		defer updWG.Done()
		for u := range x.updCh {
			uo, err := x.updateOptions(u)
			if err != nil {
				x.lg.add(Ev{Kind: EvNote, Note: "update options: " + err.Error()})
				x.pending.Add(-1)
				continue
			}
			x.lg.add(Ev{Kind: EvUpdCall, Upd: u.ID, Note: u.Kind})
			err = x.rs.Update(uo...)
			x.lg.add(Ev{Kind: EvUpdRet, Upd: u.ID, Err: errText(err)})
			x.pending.Add(-1)
		}
	}()

	// Steps that only arm droppers run before the rescan starts.
	steps := pl.steps
	for len(steps) > 0 && len(steps[0].Ops) == 1 && steps[0].Ops[0].Kind == "drop" && steps[0].AtConn == 0 && !steps[0].Park {
		x.runOp(steps[0].Ops[0])
		steps = steps[1:]
	}
	// Script points given as callback counts are armed before the rescan
	// starts.
	base := len(pl.steps) - len(steps)
	for i, s := range steps {
		if s.AtConn > 0 {
			x.arm(base+i, s.AtConn, s.Park)
		}
	}
	errc := x.rs.Start()
	go func() {
		err := <-errc
		x.lg.add(Ev{Kind: EvExit, Err: errText(err)})
	}()
	x.tracef("rescan started from %s (height %d)", pl.StartKind, pl.start.Height)
	if !x.waitStarted(15 * time.Second) {
		// The start block is evaluated by the rescan goroutine itself; a
		// chain change revealed before that would move it.
		res.Inconcl("l2: rescan goroutine not observed past its start-block evaluation")
		close(x.quit)
		close(x.updCh)
		return
	}
	for i, s := range steps {
		x.runStep(base+i, s)
	}

	// Ending.
	if !x.waitUpdates(30 * time.Second) {
		x.incon = "an Update call did not return within the watchdog"
	}
	final := pl.final
	if x.incon == "" {
		switch {
		case pl.end != nil:
			if !x.lg.waitFor(60*time.Second, func() bool { return x.lg.exited }) {
				x.stuckOrInconclusive("end-block", x.honest)
			}
		default:
			x.tracef("final block %d%s", final.Height, x.where())
			x.setTip(final, false)
			okClient := x.awaitClient(final, 60*time.Second)
			okWalk := okClient && x.lg.waitFor(60*time.Second, func() bool { return x.lg.exited || x.lg.lastConn == final.Hash })
			switch {
			case !okClient:
				x.incon = "client did not report the honest tip within the watchdog (C04's subject)"
			case !okWalk:
				x.stuckOrInconclusive("final", final)
			}
			x.waitQuiet(150*time.Millisecond, 2*time.Second)
		}
	}
	x.lg.add(Ev{Kind: EvNote, Note: "shutdown"})
	close(x.quit)
	close(x.updCh)
	if !x.lg.waitFor(30*time.Second, func() bool { return x.lg.exited }) {
		if x.incon == "" && x.viol == nil {
			x.incon = "rescan did not terminate after quit within the watchdog"
		}
	} else {
		done := make(chan struct{})
		go func() { x.rs.WaitForShutdown(); close(done) }()
		select {
		case <-done:
		case <-time.After(30 * time.Second):
			if x.incon == "" && x.viol == nil {
				x.incon = "WaitForShutdown did not return within the watchdog"
			}
		}
	}
	updDone := make(chan struct{})
	go func() { updWG.Wait(); close(updDone) }()
	select {
	case <-updDone:
	case <-time.After(30 * time.Second):
	}
	stopClient()

	// Judgement: the component's oracle, unchanged.
	evs := x.lg.snapshot()
	judged := evs
	exited, exitErr := false, ""
	for i, e := range evs {
		if e.Kind == EvNote && e.Note == "shutdown" {
			judged = evs[:i]
			break
		}
	}
	for _, e := range judged {
		if e.Kind == EvExit {
			exited, exitErr = true, e.Err
		}
	}
	cfg := WalkCfg{Tree: w.G.ByHash, Start: pl.start, StartTime: pl.p.StartTime, Updates: map[int]*WalkUpd{},
		Legacy: pl.Ntfn == "both", Scripts: pl.p.InitScripts}
	for _, kk := range pl.p.InitKeys {
		cfg.Addrs = append(cfg.Addrs, pl.p.script(kk))
	}
	for _, u := range pl.p.InitInputs {
		cfg.Ops = append(cfg.Ops, u.Op)
	}
	for _, u := range pl.p.Updates {
		wu := &WalkUpd{Rewind: int32(u.Rewind), Silent: u.Silent}
		for _, kk := range u.Keys {
			wu.Addrs = append(wu.Addrs, pl.p.script(kk))
		}
		for _, in := range u.Inputs {
			wu.Ops = append(wu.Ops, in.Op)
		}
		cfg.Updates[u.ID] = wu
	}
	wantFinal := final
	if x.incon != "" || x.viol != nil {
		wantFinal = nil
	}
	v, st := Walk(cfg, judged, wantFinal, pl.end)
	if v != nil && (x.incon != "" || x.viol != nil) && strings.HasPrefix(v.Rule, "walk-ends") {
		v = nil
	}
	if v != nil {
		x.viol = v
	}

	// Report.
	x.lg.mu.Lock()
	ncb := x.lg.nCallbacks
	x.lg.mu.Unlock()
	dropped := x.drops.count("cfilter") + x.drops.count("block") + x.drops.count("cfbatch")
	res.Fingerprint = fp(exited, exitErr)
	res.Nontrivial = ncb >= 3 && (x.reorgs+x.updates+dropped+x.parks > 0)
	res.Count("l2_scenarios", 1)
	res.Count("l2_callbacks_connected", int64(st.Connected))
	res.Count("l2_callbacks_disconnected", int64(st.Disconnected))
	res.Count("l2_txs_delivered", int64(st.TxDelivered))
	res.Count("l2_relevant_txs_expected", int64(st.TxExpected))
	res.Count("l2_relevant_txs_paying_watched_addr", int64(st.TxPays))
	res.Count("l2_relevant_txs_spending_watched_outpoint", int64(st.TxSpends))
	res.Count("l2_relevant_txs_only_via_outpoint_from_earlier_match", int64(st.TxFromGrown))
	res.Count("l2_relevant_txs_only_via_update", int64(st.TxFromUpdate))
	res.Count("l2_reorgs_revealed", int64(x.reorgs))
	res.Count("l2_growth_steps", int64(x.grows))
	res.Count("l2_updates", int64(x.updates))
	res.Count("l2_rewinds", int64(x.rewinds))
	res.Count("l2_parks_inside_callback", int64(x.parks))
	res.Count("l2_requests_dropped_cfilter", int64(x.drops.count("cfilter")))
	res.Count("l2_requests_dropped_cfilter_batch", int64(x.drops.count("cfbatch")))
	res.Count("l2_requests_dropped_getdata", int64(x.drops.count("block")))
	res.Count("l2_net_events_logged", w.Log.Len())
	if pl.Family == L2Stale {
		res.Count("l2_stale_rewind_scenarios", 1)
		res.Count("l2_stale_rewind_updates_sent_while_callers_block_off_best_chain", int64(x.staleSent))
		res.Count("l2_stale_rewind_fork_below_rewind_below_caller", int64(x.staleShape))
	}
	if st.MaxWorlds > 1 {
		res.Count("l2_scenarios_with_update_concurrent_to_callbacks", 1)
	}
	if st.ScanningSwitched && pl.StartTimeK == "mid" {
		res.Count("l2_start_time_switch_observed", 1)
	}
	var rels []string
	for r := range x.relCount {
		rels = append(rels, r)
	}
	sort.Strings(rels)
	for _, r := range rels {
		res.Count("l2_reorg_"+strings.NewReplacer(":", "_", "-", "_").Replace(r), int64(x.relCount[r]))
	}
	if exited {
		ek := l2ExitKind(exitErr)
		res.Count("l2_rescan_exit_"+strings.NewReplacer("(", "_", ")", "", ">=", "ge", "-", "_").Replace(ek), 1)
		if ek != "end-block-reached" && ek != "quit" {
			res.Count("l2_rescan_error_exits", 1)
		}
	}
	if x.incon != "" {
		res.Inconcl("l2: " + strings.SplitN(x.incon, ":", 2)[0])
	}
	wit := func() l2Witness {
		l := evs
		if len(l) > 400 {
			l = l[len(l)-400:]
		}
		ww := l2Witness{Scenario: k, Seed: seed, Family: pl.Family, Fingerprint: res.Fingerprint, Script: pl.script, Trace: x.trace, Log: l,
			Net: w.Log.Tail(80)}
		ww.Setup = fmt.Sprintf("chain=%d peers=%d slow=%v drop-peers=%s announce=%s ntfn=%s start=%s@%d(%s) startTime=%s end=%s",
			pl.ChainLen, pl.Peers, pl.Slow, pl.DropPeers, pl.Announce, pl.Ntfn, pl.StartKind, pl.start.Height, short(pl.start.Hash), pl.StartTimeK, pl.EndKind)
		if pl.end != nil {
			ww.Setup += fmt.Sprintf("@%d", pl.end.Height)
		}
		ww.Watch = fmt.Sprintf("addrs=%v inputs=%d byScript=%d", pl.p.InitKeys, len(pl.p.InitInputs), len(pl.p.InitScripts))
		if exited {
			ww.Exit = "err=" + exitErr
		}
		return ww
	}
	if x.viol != nil {
		res.Violate(evid.Sig(x.viol.Rule, x.viol.Shape), fmt.Sprintf("L2 scenario %d [%s]: %s", k, res.Fingerprint, x.viol.Text), wit())
	} else if x.incon == "" {
		res.Sample = map[string]any{"l2_scenario": k, "fingerprint": res.Fingerprint, "script": pl.script,
			"connected": st.Connected, "disconnected": st.Disconnected, "txs": st.TxDelivered, "final_height": st.FinalHeight,
			"rescan_exit": map[bool]string{true: "err=" + exitErr, false: "running until quit"}[exited && exitErr != "quit"]}
	}
	if os.Getenv("C09_L2_VERBOSE") != "" {
		ww := wit()
		fmt.Fprintf(os.Stderr, "scenario %d %s\n  %s\n  %s\n", k, res.Fingerprint, ww.Setup, ww.Watch)
		for _, s := range pl.script {
			fmt.Fprintln(os.Stderr, "   plan:", s)
		}
		for _, t := range x.trace {
			fmt.Fprintln(os.Stderr, "   ", t)
		}
		for _, e := range evs {
			fmt.Fprintf(os.Stderr, "    %4d %-9s h=%d %s prev=%s txs=%v upd=%d err=%q %s\n", e.Seq, e.Kind, e.Height, e.HashS, e.PrevS, e.Txs, e.Upd, e.Err, e.Note)
		}
		fmt.Fprintf(os.Stderr, "  violation=%+v inconclusive=%q exit=%v/%q stats=%+v\n", x.viol, x.incon, exited, exitErr, st)
		if dl := l2.DebugLog.String(); dl != "" {
			fmt.Fprintln(os.Stderr, dl)
		}
	}
}
