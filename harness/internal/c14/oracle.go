package c14

import (
	"fmt"
	"time"

	"github.com/btcsuite/btcd/chaincfg/v2"
	"github.com/btcsuite/btcd/chainhash/v2"
	"github.com/btcsuite/btcd/wire/v2"

	"verif/internal/ref"
)

// fileView is what the import files say, read back from the bytes that were
// written: whole records after the 10-byte metadata.
type fileView struct {
	start   int // height of the first block header record
	blocks  []wire.BlockHeader
	fstart  int
	filters []chainhash.Hash
}

func (f *fileView) end() int { return f.start + len(f.blocks) - 1 }

func (f *fileView) block(h int) (*wire.BlockHeader, bool) {
	i := h - f.start
	if i < 0 || i >= len(f.blocks) {
		return nil, false
	}
	return &f.blocks[i], true
}

func (f *fileView) filter(h int) (chainhash.Hash, bool) {
	i := h - f.fstart
	if i < 0 || i >= len(f.filters) {
		return chainhash.Hash{}, false
	}
	return f.filters[i], true
}

// verdict is one forbidden observation.
type verdict struct {
	Rule string `json:"rule"`
	Text string `json:"text"`
}

// importRun is one Import call as seen by the oracle.
type importRun struct {
	ok         bool   // Import returned a nil error
	errText    string // otherwise its error
	mustFail   string // non-empty: the input is one the import has to refuse (reason)
	rbkFaulted bool   // the harness made the block rollback fail during this call
}

type oracle struct {
	p   *chaincfg.Params
	now time.Time
	// cps are the hard-coded filter-header checkpoints in force for the
	// case's network, by height (nil: none).
	cps map[int]chainhash.Hash
	// headersCompared counts block and filter header comparisons made.
	headersCompared int64
}

func sameBlock(a, b *wire.BlockHeader) bool { return a.BlockHash() == b.BlockHash() }

// evaluate compares the stores after an Import call (post) with the stores
// before it (pre) and the file.
func (o *oracle) evaluate(pre, post *snap, fv *fileView, run importRun) []verdict {
	var out []verdict
	add := func(rule, f string, a ...any) {
		for _, v := range out {
			if v.Rule == rule {
				return // one verdict per rule per call
			}
		}
		out = append(out, verdict{Rule: rule, Text: fmt.Sprintf(f, a...)})
	}
	kind := "fail"
	if run.ok {
		kind = "success"
	}

	// Both outcomes: every read of both stores works and agrees with itself.
	if len(post.Errs) > 0 {
		add(kind+"-store-unusable", "after an import that reported %s the stores cannot be read: %v", kind, post.Errs)
	}
	if len(post.Dangling) > 0 {
		add(kind+"-dangling-record", "after an import that reported %s: %v", kind, post.Dangling)
	}
	if run.ok && run.mustFail != "" {
		add("success-should-have-failed", "Import reported success although %s", run.mustFail)
	}
	if post.Blocks == nil || post.Filters == nil {
		return out
	}

	bt0, ft0, bt, ft := pre.bt(), pre.ft(), post.bt(), post.ft()
	e := fv.end()

	// Prior content is never lost or rewritten, whatever the outcome.
	if bt < bt0 || ft < ft0 {
		add(kind+"-lost-prior", "tips went down: block %d -> %d, filter %d -> %d", bt0, bt, ft0, ft)
	}
	for h := 0; h <= min(bt0, bt); h++ {
		o.headersCompared++
		if !sameBlock(&pre.Blocks[h], &post.Blocks[h]) {
			add(kind+"-prior-block-changed", "block header at height %d (existing before the import) changed: %v -> %v",
				h, pre.Blocks[h].BlockHash(), post.Blocks[h].BlockHash())
			break
		}
	}
	for h := 0; h <= min(ft0, ft); h++ {
		o.headersCompared++
		if pre.Filters[h] != post.Filters[h] {
			add(kind+"-prior-filter-changed", "filter header at height %d (existing before the import) changed", h)
			break
		}
	}

	// Whatever was added is the file's header for that height.
	for h := bt0 + 1; h <= bt; h++ {
		o.headersCompared++
		fb, okb := fv.block(h)
		if !okb {
			add(kind+"-block-not-from-file", "block store gained height %d which the file (heights %d..%d) does not cover",
				h, fv.start, e)
			break
		}
		if !sameBlock(fb, &post.Blocks[h]) {
			add(kind+"-block-not-from-file", "block store height %d holds %v but the file's header for height %d is %v",
				h, post.Blocks[h].BlockHash(), h, fb.BlockHash())
			break
		}
	}
	for h := ft0 + 1; h <= ft; h++ {
		o.headersCompared++
		ff, okf := fv.filter(h)
		if !okf {
			add(kind+"-filter-not-from-file", "filter store gained height %d which the filter file (heights %d..%d) does not cover",
				h, fv.fstart, fv.fstart+len(fv.filters)-1)
			break
		}
		if ff != post.Filters[h] {
			add(kind+"-filter-not-from-file", "filter store height %d holds %v but the file's filter header for height %d is %v",
				h, post.Filters[h], h, ff)
			break
		}
	}

	// Whatever the outcome, nothing the import added to the filter store
	// contradicts a hard-coded filter-header checkpoint (the one validation
	// filter headers get).
	for h := ft0 + 1; h <= ft; h++ {
		if want, ok := o.cps[h]; ok {
			o.headersCompared++
			if post.Filters[h] != want {
				add(kind+"-filter-contradicts-checkpoint", "the import added, at height %d, filter header %v to the filter "+
					"store although the hard-coded filter-header checkpoint for that height is %v", h, post.Filters[h], want)
				break
			}
		}
	}

	if run.ok {
		// Success: both stores reach exactly the file's last height (or
		// stay where they were if they were already beyond it).
		if want := max(bt0, e); bt != want {
			add("success-block-tip", "block tip is %d, expected %d (tip before %d, file covers %d..%d)", bt, want, bt0, fv.start, e)
		}
		if want := max(ft0, e); ft != want {
			add("success-filter-tip", "filter tip is %d, expected %d (tip before %d, file covers %d..%d)", ft, want, ft0, fv.start, e)
		}
		// Height for height the block store equals the file wherever the
		// file has a header (block headers are hash-linked, so a
		// successful import cannot leave a difference anywhere).
		for h := max(fv.start, 0); h <= min(e, bt); h++ {
			o.headersCompared++
			fb, _ := fv.block(h)
			if !sameBlock(fb, &post.Blocks[h]) {
				add("success-block-differs-from-file", "block store height %d holds %v, the file says %v", h,
					post.Blocks[h].BlockHash(), fb.BlockHash())
				break
			}
		}
		// The block headers form a valid connected chain from genesis.
		if h, rule := ref.CheckChain(o.p, post.Blocks, o.now); h != -1 {
			add("success-chain-invalid", "stored block chain breaks rule %q at height %d (tip %d)", rule, h, bt)
		}
	} else {
		// Failure: mutually consistent, nothing unvalidated.
		if ft > bt {
			add("fail-filter-above-block", "filter tip %d is above block tip %d", ft, bt)
		}
		if bt-ft > bt0-ft0 && !run.rbkFaulted {
			add("fail-stores-drifted-apart", "block tip - filter tip was %d before the failed import and is %d after it "+
				"(tips %d/%d -> %d/%d): the import's all-or-nothing batch write left one store ahead",
				bt0-ft0, bt-ft, bt0, ft0, bt, ft)
		}
		for h := bt0 + 1; h <= bt; h++ {
			if rule := ref.CheckNext(o.p, post.Blocks[:h], &post.Blocks[h], o.now); rule != "" {
				add("fail-unvalidated-block", "after a failed import the block store holds, at new height %d, a header that breaks rule %q against its stored predecessor",
					h, rule)
				break
			}
		}
	}
	return out
}

// mustFailReason derives, from the file as written and the stores before the
// import, whether the input is one that the import has to refuse.
func mustFailReason(sp *Spec, pre *snap, fv *fileView, cps map[int]chainhash.Hash) string {
	if sp.Container != "" {
		return "the import files are malformed (" + sp.Container + ")"
	}
	// A file holding an invalid header: its filter header at a height with a
	// hard-coded filter-header checkpoint is not the checkpointed one.
	if h := cpContradiction(cps, fv); h >= 0 {
		got, _ := fv.filter(h)
		return fmt.Sprintf("the file's filter header at height %d (%v) contradicts the hard-coded filter-header "+
			"checkpoint for that height (%v)", h, got, cps[h])
	}
	eff := min(pre.bt(), pre.ft())
	if fv.start > eff+1 {
		return fmt.Sprintf("the file starts at height %d, leaving a gap above the stores' common tip %d", fv.start, eff)
	}
	// The heights the importer itself promises to compare: first and last
	// overlapping height.
	if fv.start <= eff {
		ovEnd := min(eff, fv.end())
		for _, h := range []int{fv.start, ovEnd} {
			if fb, ok := fv.block(h); ok && !sameBlock(fb, &pre.Blocks[h]) {
				return fmt.Sprintf("the file's block header at overlapping height %d differs from the stored one", h)
			}
			if ff, ok := fv.filter(h); ok && ff != pre.Filters[h] {
				return fmt.Sprintf("the file's filter header at overlapping height %d differs from the stored one", h)
			}
		}
	}
	return ""
}
