package c14

import (
	"fmt"
	"math/rand"
	"sort"
	"strings"

	"github.com/btcsuite/btcd/chaincfg/v2"
	"github.com/btcsuite/btcd/chainhash/v2"
	"github.com/btcsuite/btcd/wire/v2"
	"github.com/lightninglabs/neutrino/chainsync"
)

// Family "filter-checkpoint": imports on networks that have hard-coded
// filter-header checkpoints (chainsync's table, the only thing an import can
// validate filter headers against), with and without block checkpoints in the
// chain parameters.
//
// The table is process-global and keyed by network magic. Every case of this
// family runs under a PRIVATE network magic (a copy of the world's parameters
// with another Net; the stores only read the genesis block from the
// parameters, the import files carry the case's magic), so the tables of all
// cases are installed once, before the worker pool starts, and removed after
// it has drained: no case sees another case's checkpoints, the other families
// (world magics) see none, and the table is never written while an import
// reads it.

const famCP = "filter-checkpoint"

// cpNet is the private network magic of case idx of a preset (none of the
// registered networks, nor a generated world's 0xe....... magic, is in
// 0xc0000000..0xc2ffffff).
func cpNet(preset, idx int) wire.BitcoinNet {
	return wire.BitcoinNet(0xc0000000 + uint32(preset)<<24 + uint32(idx)&0xffffff)
}

func hasInt(xs []int, x int) bool {
	for _, y := range xs {
		if y == x {
			return true
		}
	}
	return false
}

// cleanHeights sorts, de-duplicates and bounds a height list.
func cleanHeights(xs []int, lo, hi int) []int {
	var out []int
	for _, x := range xs {
		if x >= lo && x <= hi && !hasInt(out, x) {
			out = append(out, x)
		}
	}
	sort.Ints(out)
	return out
}

// caseParams are the chain parameters a case runs under.
func (w *world) caseParams(sp *Spec) *chaincfg.Params {
	if len(sp.FilterCPs) == 0 && len(sp.BlockCPs) == 0 {
		return w.g.P
	}
	p := *w.g.P
	if len(sp.FilterCPs) > 0 {
		p.Net = cpNet(w.preset, sp.Idx)
	}
	p.Checkpoints = nil
	for _, h := range cleanHeights(sp.BlockCPs, 1, len(w.hdrs)-1) {
		hash := w.hdrs[h].BlockHash()
		p.Checkpoints = append(p.Checkpoints, chaincfg.Checkpoint{Height: int32(h), Hash: &hash})
	}
	return &p
}

// cpTable is the filter-header checkpoint table of a case, by height.
func (w *world) cpTable(sp *Spec) map[int]chainhash.Hash {
	if len(sp.FilterCPs) == 0 {
		return nil
	}
	t := map[int]chainhash.Hash{}
	for _, h := range sp.FilterCPs {
		if h < 1 {
			continue
		}
		v := 0
		if hasInt(sp.FilterCPAlt, h) {
			v = 2
		}
		t[h] = w.filterHash(h, v)
	}
	return t
}

// installCheckpoints puts the tables of all given cases in force and returns
// the function removing them again.
func installCheckpoints(specs []Spec, worlds []*world) (remove func()) {
	var nets []wire.BitcoinNet
	for i := range specs {
		w := worlds[specs[i].Preset%len(worlds)]
		sp := clamp(specs[i], w)
		t := w.cpTable(&sp)
		if len(t) == 0 {
			continue
		}
		m := make(map[uint32]*chainhash.Hash, len(t))
		for h, v := range t {
			v := v
			m[uint32(h)] = &v
		}
		net := cpNet(w.preset, sp.Idx)
		chainsync.VerifSetFilterCheckpoints(net, m)
		nets = append(nets, net)
	}
	return func() {
		for _, net := range nets {
			chainsync.VerifSetFilterCheckpoints(net, nil)
		}
	}
}

// cpContradiction returns the lowest height at which the filter file, as
// written, carries a filter header that differs from a checkpoint in force
// (-1: none).
func cpContradiction(cps map[int]chainhash.Hash, fv *fileView) int {
	best := -1
	for h, want := range cps {
		if got, ok := fv.filter(h); ok && got != want && (best < 0 || h < best) {
			best = h
		}
	}
	return best
}

// specContradicts says, from the spec alone, whether the file will contradict
// one of the case's filter-header checkpoints (used for signature shapes).
func specContradicts(sp *Spec) bool {
	for _, h := range sp.FilterCPs {
		if h >= max(sp.Start, 1) && h <= sp.end() && (hasInt(sp.FilterDisagree, h) || hasInt(sp.FilterCPAlt, h)) {
			return true
		}
	}
	return false
}

// cpClass is the fingerprint component of the family: for every checkpoint its
// position relative to the file, the stores and the write batches, and whether
// the file agrees with it; plus whether the parameters have block checkpoints.
func cpClass(sp *Spec, pre *snap, fv *fileView, cps map[int]chainhash.Hash) string {
	if len(cps) == 0 {
		if len(sp.BlockCPs) > 0 {
			return "none/bcp"
		}
		return ""
	}
	hs := make([]int, 0, len(cps))
	for h := range cps {
		hs = append(hs, h)
	}
	sort.Ints(hs)
	fEnd := fv.fstart + len(fv.filters) - 1
	var parts []string
	for _, h := range hs {
		switch {
		case h < fv.fstart:
			if h <= pre.ft() {
				parts = append(parts, "below-in-store")
			} else {
				parts = append(parts, "below")
			}
			continue
		case h > fEnd:
			parts = append(parts, "above")
			continue
		}
		pos := "mid"
		switch {
		case h == fv.fstart:
			pos = "first"
		case h == fEnd:
			pos = "last"
		}
		where := "new"
		switch {
		case h <= pre.ft() && (h == fv.start || h == min(pre.ft(), fv.end())):
			where = "ov-edge"
		case h <= pre.ft():
			where = "ov-mid"
		case h == pre.ft()+1:
			where = "first-new"
		}
		bat := "one-batch"
		if b := sp.Batch; b > 0 && b < sp.Len {
			i := h - fv.start
			switch {
			case i/b == 0:
				bat = "batch0"
			case i/b == (sp.Len-1)/b:
				bat = "batchN"
			default:
				bat = "batchK"
			}
			switch {
			case i%b == 0:
				bat += "^"
			case i%b == b-1:
				bat += "$"
			}
		}
		st := "ok"
		if got, _ := fv.filter(h); got != cps[h] {
			st = "BAD"
			if hasInt(sp.FilterCPAlt, h) {
				st = "BAD-alt"
			}
		}
		parts = append(parts, pos+"/"+where+"/"+bat+"="+st)
	}
	bcp := "nobcp"
	if len(sp.BlockCPs) > 0 {
		bcp = "bcp"
	}
	return strings.Join(parts, ",") + "/" + bcp
}

// ---------------------------------------------------------------------------
// Case generation.

// cpFixed are the seed-independent scenarios of the family (all on the
// no-retarget parameter set unless said otherwise).
func cpFixed() []Spec {
	mk := func(bt, start, n, batch int, cps, alt, wrong, bcps []int) Spec {
		return Spec{Family: famCP, Preset: 0, BT: bt, FT: bt, StoreFork: -1, Start: start, Len: n, Batch: batch,
			BadIdx: -1, FilterCPs: cps, FilterCPAlt: alt, FilterDisagree: wrong, BlockCPs: bcps}
	}
	one := func(h int) []int { return []int{h} }
	specs := []Spec{
		// Fresh stores, file 1..120, one checkpoint at 50.
		mk(0, 1, 120, 0, one(50), nil, one(50), nil),                     // wrong, no block checkpoints: must fail
		mk(0, 1, 120, 0, one(50), nil, nil, nil),                         // right: imports
		mk(0, 1, 120, 0, one(50), nil, one(50), []int{30, 100}),          // wrong, with block checkpoints
		mk(0, 1, 120, 0, one(50), nil, nil, []int{30, 100}),              // right, with block checkpoints
		mk(60, 41, 80, 7, one(50), nil, one(50), nil),                    // wrong in the middle of the overlap (never sampled)
		mk(60, 61, 60, 1, one(120), nil, one(120), nil),                  // batch size 1, wrong at the file's last height
		mk(9, 10, 31, 1, []int{9, 41, 200}, []int{9, 41, 200}, nil, nil), // checkpoints just outside the file: no concern of the import
		mk(0, 1, 120, 16, []int{17, 113}, nil, one(113), nil),            // right at the first of batch 2, wrong in the last batch
		mk(60, 1, 120, 0, one(30), one(30), nil, []int{60}),              // stores and file agree, both contradict the checkpoint
		mk(0, 0, 101, 10, one(100), nil, one(100), nil),                  // file from genesis, wrong at its last height
	}
	specs[9].Preset = 1
	return specs
}

// cpSpec is a randomised case of the family.
func (sg *specGen) cpSpec(idx int) Spec {
	r := sg.rng
	w := sg.world()
	maxBT, _ := limits(w)
	top := len(w.hdrs) - 2

	bt, ft := 0, 0
	if r.Intn(5) >= 2 {
		bt, ft = sg.storeHeights(sg.storeClass(), min(maxBT, 150))
	}
	s := sg.start([]string{"0", "1", "1", "below", "below", "tip", "tip+1", "tip+1", "tip+1"}[r.Intn(9)], bt, ft)
	var n int
	switch r.Intn(4) {
	case 0:
		n = 1 + r.Intn(6)
	case 1:
		n = 40 + r.Intn(360)
	default:
		n = 2 + r.Intn(120)
	}
	if s+n-1 <= bt && r.Intn(4) > 0 {
		n = bt - s + 2 + r.Intn(60)
	}
	if s+n-1 > top {
		n = top - s + 1
	}
	e := s + n - 1
	fresh := max(0, e-ft)
	b := sg.batch(n, fresh)
	if r.Intn(5) == 0 && 2*fresh <= maxWrites {
		b = 1
	}

	// Checkpoint heights by position class.
	eff := min(bt, ft)
	ovEnd := min(eff, e)
	inFile := []string{"file-first", "file-last", "file-mid", "batch-first", "batch-last", "ov-first", "ov-last",
		"ov-mid", "first-new"}
	outside := []string{"below", "below-far", "above", "above-far"}
	height := func(class string) int {
		switch class {
		case "file-first", "ov-first":
			return s
		case "file-last":
			return e
		case "file-mid":
			if n >= 3 {
				return s + 1 + r.Intn(n-2)
			}
		case "batch-first":
			if b > 0 && b < n {
				return s + b*(1+r.Intn((n-1)/b))
			}
		case "batch-last":
			if b > 1 && b < n {
				return s + b*(1+r.Intn((n-1)/b)) - 1
			}
		case "ov-last":
			if s <= eff {
				return ovEnd
			}
		case "ov-mid":
			if s <= eff && ovEnd-s >= 2 {
				return s + 1 + r.Intn(ovEnd-s-1)
			}
		case "first-new":
			if ft+1 >= s && ft+1 <= e {
				return ft + 1
			}
		case "below":
			return s - 1
		case "below-far":
			if s >= 2 {
				return 1 + r.Intn(s-1)
			}
		case "above":
			return e + 1
		case "above-far":
			return e + 2 + r.Intn(60)
		}
		return -1
	}
	var cps, alt, wrong []int
	k := 1 + r.Intn(3)
	for try := 0; len(cps) < k && try < 30; try++ {
		var h int
		in := (len(cps) == 0 && r.Intn(8) > 0) || (len(cps) > 0 && r.Intn(2) == 0)
		if in {
			h = height(inFile[r.Intn(len(inFile))])
		} else {
			h = height(outside[r.Intn(len(outside))])
		}
		if h < 1 || hasInt(cps, h) {
			continue
		}
		cps = append(cps, h)
		if h >= s && h <= e {
			switch x := r.Intn(20); {
			case x < 9: // the file is right
			case x < 17:
				wrong = append(wrong, h)
			default:
				alt = append(alt, h)
			}
		} else if r.Intn(10) < 7 {
			// Outside the file: a value nothing agrees with.
			alt = append(alt, h)
		}
	}

	var bcps []int
	if r.Intn(2) == 0 {
		for i, nb := 0, 1+r.Intn(3); i < nb; i++ {
			switch r.Intn(3) {
			case 0:
				bcps = append(bcps, s+r.Intn(n))
			case 1:
				if len(cps) > 0 {
					bcps = append(bcps, cps[r.Intn(len(cps))])
				}
			default:
				bcps = append(bcps, 1+r.Intn(top))
			}
		}
		bcps = cleanHeights(bcps, 1, top)
	}
	return Spec{
		Idx: idx, Family: famCP, Preset: w.preset, BT: bt, FT: ft, StoreFork: -1,
		Start: s, Len: n, Batch: b, BadIdx: -1,
		FilterCPs: cleanHeights(cps, 1, 1<<30), FilterCPAlt: cleanHeights(alt, 1, 1<<30),
		FilterDisagree: cleanHeights(wrong, 0, 1<<30), BlockCPs: bcps,
	}
}

// cpSpecs is the family's case list: the fixed scenarios, then n randomised
// ones, with indices from..from+len-1. It draws from its own generator, so the
// other families' case lists do not depend on it.
func cpSpecs(seed int64, worlds []*world, from, n int) []Spec {
	sg := &specGen{rng: rand.New(rand.NewSource(seed*1000003 + 0xc14c9)), worlds: worlds}
	specs := cpFixed()
	for i := 0; i < n; i++ {
		specs = append(specs, sg.cpSpec(0))
	}
	for i := range specs {
		specs[i].Idx = from + i
	}
	return specs
}

func describeCPs(cps map[int]chainhash.Hash) string {
	hs := make([]int, 0, len(cps))
	for h := range cps {
		hs = append(hs, h)
	}
	sort.Ints(hs)
	return fmt.Sprint(hs)
}
