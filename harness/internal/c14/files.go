package c14

import (
	"bytes"
	"encoding/binary"
	"math/rand"
	"os"
	"path/filepath"

	"github.com/btcsuite/btcd/chainhash/v2"
	"github.com/btcsuite/btcd/wire/v2"
	"github.com/lightninglabs/neutrino/headerfs"
)

// Import file format (chainimport/file_source.go, headers.go): 10 bytes of
// metadata — network magic (uint32 LE), format version (1 byte, must be 0),
// header type (1 byte: 0 block, 1 regular filter), start height (uint32 LE) —
// followed by raw consecutive headers (80 bytes per block header in wire
// serialisation, 32 bytes per filter header).
const metaSize = 10

func encodeMeta(magic wire.BitcoinNet, version, htype byte, start uint32) []byte {
	b := make([]byte, metaSize)
	binary.LittleEndian.PutUint32(b[0:], uint32(magic))
	b[4] = version
	b[5] = htype
	binary.LittleEndian.PutUint32(b[6:], start)
	return b
}

// writeFiles writes the block-header and filter-header import files of a case
// and returns their paths and the view a reader of the format has of them.
// genesisFilter is the filter store's own genesis filter header (what an
// agreeing file carries at height 0).
func writeFiles(dir string, m *material, genesisFilter chainhash.Hash) (bPath, fPath string, fv *fileView, err error) {
	sp := &m.spec
	w := m.w
	rng := rand.New(rand.NewSource(int64(sp.Idx)*7919 + w.seed))

	var bBody bytes.Buffer
	for i := range m.fileBlocks {
		if err := m.fileBlocks[i].Serialize(&bBody); err != nil {
			return "", "", nil, err
		}
	}

	disagree := map[int]bool{}
	for _, h := range sp.FilterDisagree {
		disagree[h] = true
	}
	fStart, fCount := sp.Start, sp.Len
	switch sp.Container {
	case ctCountShort:
		fCount--
	case ctCountLong:
		fCount++
	case ctStartMis:
		fStart++
	}
	var fBody bytes.Buffer
	for i := 0; i < fCount; i++ {
		h := fStart + i
		var fh chainhash.Hash
		switch {
		case h == 0 && !disagree[0]:
			fh = genesisFilter
		case disagree[h]:
			fh = w.filterHash(h, 1)
		default:
			fh = w.filterHash(h, 0)
		}
		fBody.Write(fh[:])
	}

	bMagic, fMagic := m.p.Net, m.p.Net
	bType, fType := byte(headerfs.Block), byte(headerfs.RegularFilter)
	bVer := byte(0)
	switch sp.Container {
	case ctMagicBlock:
		bMagic = wire.TestNet3
	case ctMagicFilter:
		fMagic = wire.TestNet3
	case ctMagicBoth:
		bMagic, fMagic = wire.SimNet, wire.SimNet
	case ctTypeBlock:
		bType = byte(headerfs.RegularFilter)
	case ctTypeFilter:
		fType = byte(headerfs.Block)
	case ctTypeUnknown:
		bType = 7
	case ctVersion:
		bVer = 1
	}

	bFile := append(encodeMeta(bMagic, bVer, bType, uint32(sp.Start)), bBody.Bytes()...)
	fFile := append(encodeMeta(fMagic, 0, fType, uint32(fStart)), fBody.Bytes()...)

	garbage := func(n int) []byte {
		g := make([]byte, n)
		rng.Read(g)
		return g
	}
	switch sp.Container {
	case ctTruncBlock:
		bFile = bFile[:len(bFile)-1-rng.Intn(79)]
	case ctTruncFilter:
		fFile = fFile[:len(fFile)-1-rng.Intn(31)]
	case ctTruncMeta:
		bFile = bFile[:1+rng.Intn(metaSize-1)]
	case ctOnlyMeta:
		bFile = bFile[:metaSize]
	case ctEmpty:
		bFile = nil
	case ctGarbageOdd:
		bFile = append(bFile, garbage(1+rng.Intn(79))...)
	case ctGarbageWhole:
		bFile = append(bFile, garbage(80)...)
		fFile = append(fFile, garbage(32)...)
	case ctGarbageBlock:
		bFile = append(bFile, garbage(80)...)
	}

	bPath = filepath.Join(dir, "import-block-headers.bin")
	fPath = filepath.Join(dir, "import-filter-headers.bin")
	if sp.Container != ctMissingBlock {
		if err := os.WriteFile(bPath, bFile, 0o644); err != nil {
			return "", "", nil, err
		}
	}
	if sp.Container != ctMissingFilt {
		if err := os.WriteFile(fPath, fFile, 0o644); err != nil {
			return "", "", nil, err
		}
	}

	// The view: whole records after the metadata.
	fv = &fileView{start: sp.Start, fstart: fStart}
	if len(bFile) > metaSize {
		body := bFile[metaSize:]
		for len(body) >= 80 {
			var h wire.BlockHeader
			if err := h.Deserialize(bytes.NewReader(body[:80])); err != nil {
				break
			}
			fv.blocks = append(fv.blocks, h)
			body = body[80:]
		}
	}
	if len(fFile) > metaSize {
		body := fFile[metaSize:]
		for len(body) >= 32 {
			var h chainhash.Hash
			copy(h[:], body[:32])
			fv.filters = append(fv.filters, h)
			body = body[32:]
		}
	}
	return bPath, fPath, fv, nil
}
