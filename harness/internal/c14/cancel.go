package c14

import (
	"context"
	"fmt"
	"math/rand"
	"sync"
	"time"

	"github.com/btcsuite/btcd/blockchain"
	"github.com/btcsuite/btcd/chainhash/v2"
	"github.com/btcsuite/btcd/wire/v2"
	"github.com/lightninglabs/neutrino/headerfs"

	"verif/internal/chaingen"
)

// Family "cancelled": the context handed to Import (ChainService.Start's
// context) is cancelled at a chosen moment of the import, over files that are
// perfectly good and over files validation has to refuse.
//
// The import's sources are private to chainimport, but everything Import does
// with the TARGET STORES goes through the two store interfaces of its options.
// The family therefore cancels from inside wrappers of the stores: the import
// reads the target stores before validation (continuity with the tips), while
// the validator works on its first batch (predecessor of the file's first
// header; retarget ancestors), between validation and the first write (tips
// for the regions, connection of the first new header), and writes them batch
// by batch. Cancelling when the k-th such call is made puts the cancellation at
// a DETERMINISTIC moment relative to validation and to every write batch. A
// "timer" kind (cancel from another goroutine after a seeded number of
// microseconds) adds moments not tied to a store call; no verdict depends on
// when it fires.
//
// Oracle (besides everything evaluate() says about a success or a failure):
// whatever Import returns, a file that validation has to refuse (a block
// header breaking a consensus rule, a filter header contradicting a hard-coded
// checkpoint, a gap, a sampled overlap that differs) never contributes a
// header to either store: the stores hold exactly what they held before.

const famCancel = "cancelled"

// Cancellation moments (Spec.Cancel).
const (
	cxLive       = "live"               // control: the context is never cancelled
	cxBefore     = "before-call"        // cancelled before Import is called
	cxRead       = "store-read"         // when Import makes its K-th read of a target store (before it is served)
	cxBlockWrite = "block-write"        // when Import enters its K-th block-store write (before it is performed)
	cxAfterBatch = "after-filter-write" // when its K-th filter-store write has returned (= batch K is in both stores)
	cxTimer      = "timer"              // from another goroutine, K microseconds after Import was called
)

// cancelCtl cancels the import's context at the moment the spec names and
// records every call Import makes on the target stores.
type cancelCtl struct {
	mu      sync.Mutex
	kind    string
	k       int
	cancel  context.CancelFunc
	reads   int
	bWrites int
	fWrites int
	// fired: the context was cancelled while Import ran (or before);
	// writesAtFire: store writes completed by then; firedAt: the call.
	fired        bool
	writesAtFire int
	firedAt      string
	log          []string
}

func (c *cancelCtl) note(f string, a ...any) {
	if len(c.log) < 60 {
		c.log = append(c.log, fmt.Sprintf(f, a...))
	}
}

// fire cancels the context (once). Caller holds c.mu.
func (c *cancelCtl) fire(at string) {
	if c.fired {
		return
	}
	c.fired, c.firedAt, c.writesAtFire = true, at, c.bWrites+c.fWrites
	// Always recorded, even when the call log is full.
	c.log = append(c.log, fmt.Sprintf("CONTEXT CANCELLED (%s; %d block-store and %d filter-store writes made so far)",
		at, c.bWrites, c.fWrites))
	c.cancel()
}

func (c *cancelCtl) read(what string) {
	c.mu.Lock()
	c.reads++
	if c.kind == cxRead && c.reads == c.k {
		c.fire(fmt.Sprintf("at store read #%d: %s", c.reads, what))
	}
	c.note("read#%d %s", c.reads, what)
	c.mu.Unlock()
}

// written is called after a store write returned.
func (c *cancelCtl) written(filter bool, err error) {
	c.mu.Lock()
	if err == nil {
		if filter {
			c.fWrites++
			if c.kind == cxAfterBatch && c.fWrites == c.k {
				c.fire(fmt.Sprintf("after filter-store write #%d returned", c.fWrites))
			}
		} else {
			c.bWrites++
		}
	}
	c.mu.Unlock()
}

func (c *cancelCtl) enterBlockWrite(first, last int) {
	c.mu.Lock()
	if c.kind == cxBlockWrite && c.bWrites+1 == c.k {
		c.fire(fmt.Sprintf("entering block-store write #%d (heights %d..%d)", c.bWrites+1, first, last))
	}
	c.mu.Unlock()
}

type cancelBlockStore struct {
	headerfs.BlockHeaderStore
	c *cancelCtl
}

func (s *cancelBlockStore) ChainTip() (*wire.BlockHeader, uint32, error) {
	s.c.read("block.ChainTip")
	return s.BlockHeaderStore.ChainTip()
}

func (s *cancelBlockStore) LatestBlockLocator() (blockchain.BlockLocator, error) {
	s.c.read("block.LatestBlockLocator")
	return s.BlockHeaderStore.LatestBlockLocator()
}

func (s *cancelBlockStore) FetchHeaderByHeight(h uint32) (*wire.BlockHeader, error) {
	s.c.read(fmt.Sprintf("block.FetchHeaderByHeight(%d)", h))
	return s.BlockHeaderStore.FetchHeaderByHeight(h)
}

func (s *cancelBlockStore) FetchHeaderAncestors(n uint32, stop *chainhash.Hash) ([]wire.BlockHeader, uint32, error) {
	s.c.read("block.FetchHeaderAncestors")
	return s.BlockHeaderStore.FetchHeaderAncestors(n, stop)
}

func (s *cancelBlockStore) HeightFromHash(h *chainhash.Hash) (uint32, error) {
	s.c.read("block.HeightFromHash")
	return s.BlockHeaderStore.HeightFromHash(h)
}

func (s *cancelBlockStore) FetchHeader(h *chainhash.Hash) (*wire.BlockHeader, uint32, error) {
	s.c.read("block.FetchHeader")
	return s.BlockHeaderStore.FetchHeader(h)
}

func (s *cancelBlockStore) WriteHeaders(hdrs ...headerfs.BlockHeader) error {
	first, last := -1, -1
	if len(hdrs) > 0 {
		first, last = int(hdrs[0].Height), int(hdrs[len(hdrs)-1].Height)
	}
	s.c.enterBlockWrite(first, last)
	err := s.BlockHeaderStore.WriteHeaders(hdrs...)
	s.c.written(false, err)
	return err
}

type cancelFilterStore struct {
	headerfs.FilterHeaderStore
	c *cancelCtl
}

func (s *cancelFilterStore) ChainTip() (*chainhash.Hash, uint32, error) {
	s.c.read("filter.ChainTip")
	return s.FilterHeaderStore.ChainTip()
}

func (s *cancelFilterStore) FetchHeader(h *chainhash.Hash) (*chainhash.Hash, error) {
	s.c.read("filter.FetchHeader")
	return s.FilterHeaderStore.FetchHeader(h)
}

func (s *cancelFilterStore) FetchHeaderAncestors(n uint32, stop *chainhash.Hash) ([]chainhash.Hash, uint32, error) {
	s.c.read("filter.FetchHeaderAncestors")
	return s.FilterHeaderStore.FetchHeaderAncestors(n, stop)
}

func (s *cancelFilterStore) FetchHeaderByHeight(h uint32) (*chainhash.Hash, error) {
	s.c.read(fmt.Sprintf("filter.FetchHeaderByHeight(%d)", h))
	return s.FilterHeaderStore.FetchHeaderByHeight(h)
}

func (s *cancelFilterStore) WriteHeaders(hdrs ...headerfs.FilterHeader) error {
	err := s.FilterHeaderStore.WriteHeaders(hdrs...)
	s.c.written(true, err)
	return err
}

// cancelRun is what the family observed about one Import call under a
// cancellable context.
type cancelRun struct {
	ctl *cancelCtl
	ctx context.Context
	bs  headerfs.BlockHeaderStore
	fs  headerfs.FilterHeaderStore
}

// newCancelRun wraps the stores and arms the cancellation of sp.
func newCancelRun(sp *Spec, bs headerfs.BlockHeaderStore, fs headerfs.FilterHeaderStore) *cancelRun {
	ctx, cancel := context.WithCancel(context.Background())
	c := &cancelCtl{kind: sp.Cancel, k: sp.CancelK, cancel: cancel}
	cr := &cancelRun{ctl: c, ctx: ctx, bs: &cancelBlockStore{bs, c}, fs: &cancelFilterStore{fs, c}}
	if sp.Cancel == cxBefore {
		c.mu.Lock()
		c.fire("before Import was called")
		c.mu.Unlock()
	}
	return cr
}

// startTimer arms the timer kind; the returned function stops it and reports
// nothing (whether it fired is in the ctl).
func (cr *cancelRun) startTimer() (stop func()) {
	c := cr.ctl
	if c.kind != cxTimer {
		return func() {}
	}
	done := make(chan struct{})
	var wg sync.WaitGroup
	wg.Add(1)
	go func() {
		defer wg.Done()
		select {
		case <-time.After(time.Duration(c.k) * time.Microsecond):
			c.mu.Lock()
			c.fire("from another goroutine while Import ran")
			c.mu.Unlock()
		case <-done:
		}
	}()
	return func() { close(done); wg.Wait() }
}

// phase is the observed position of the cancellation relative to the import's
// writes (a fingerprint component, never an oracle input).
func (cr *cancelRun) phase() string {
	c := cr.ctl
	c.mu.Lock()
	defer c.mu.Unlock()
	switch {
	case !c.fired:
		return "never"
	case c.kind == cxBefore:
		return "pre-call"
	case c.writesAtFire == 0 && c.bWrites+c.fWrites == 0:
		return "no-write-at-all"
	case c.writesAtFire == 0:
		return "before-first-write"
	case c.writesAtFire < c.bWrites+c.fWrites:
		return "mid-writes"
	default:
		return "after-last-write-made"
	}
}

// refusable says why validation has to refuse the case's files ("" if it has
// not): derived from the files as written and the stores before the import.
func refusable(sp *Spec, mustFail string) string {
	if mustFail != "" {
		return mustFail
	}
	if sp.BadRule != "" {
		return fmt.Sprintf("the file's block header at height %d breaks consensus rule %q", sp.Start+sp.BadIdx, sp.BadRule)
	}
	return ""
}

// cancelVerdicts is the family's own rule, for any outcome of Import.
func cancelVerdicts(sp *Spec, pre, post *snap, why string, result string) []verdict {
	if why == "" || post.Blocks == nil || post.Filters == nil {
		return nil
	}
	if sameSnap(pre, post) {
		return nil
	}
	return []verdict{{Rule: "refused-file-contributed", Text: fmt.Sprintf(
		"%s, so validation has to refuse these files; yet after Import returned (%s) the stores hold headers they did "+
			"not hold before: block tip %d -> %d, filter tip %d -> %d", why, result, pre.bt(), post.bt(), pre.ft(), post.ft())}}
}

// dropRules removes the named rules from vs.
func dropRules(vs []verdict, rules ...string) []verdict {
	kept := vs[:0]
	for _, v := range vs {
		drop := false
		for _, r := range rules {
			drop = drop || v.Rule == r
		}
		if !drop {
			kept = append(kept, v)
		}
	}
	return kept
}

// defectPos classifies where the file's defect sits relative to the first
// write batch of the import (fingerprint component).
func defectPos(sp *Spec, pre *snap) string {
	h := -1
	kind := ""
	switch {
	case sp.BadRule != "":
		h, kind = sp.Start+sp.BadIdx, "blk"
	case len(sp.FilterCPs) > 0 && specContradicts(sp):
		kind = "cp"
		for _, x := range sp.FilterCPs {
			if x >= max(sp.Start, 1) && x <= sp.end() && (hasInt(sp.FilterDisagree, x) || hasInt(sp.FilterCPAlt, x)) {
				h = x
				break
			}
		}
	case sp.StoreFork >= 0:
		return "overlap-block-differs"
	case len(sp.FilterDisagree) > 0:
		return "overlap-filter-differs"
	case sp.Start > min(pre.bt(), pre.ft())+1:
		return "gap"
	default:
		return "valid"
	}
	firstNew := pre.ft() + 1
	b := sp.Batch
	if b <= 0 {
		b = 1 << 20
	}
	switch {
	case h < firstNew:
		return kind + "@overlap"
	case h == firstNew:
		return kind + "@first-new"
	case h < firstNew+b && h == sp.end():
		return kind + "@batch1-last-of-file"
	case h < firstNew+b:
		return kind + "@batch1"
	case h < firstNew+2*b:
		return kind + "@batch2"
	default:
		return kind + "@later"
	}
}

// ---------------------------------------------------------------------------
// Case generation.

// cxFixed are the seed-independent scenarios (no-retarget parameters).
func cxFixed() []Spec {
	mk := func(bt, ft, start, n, batch int, cancel string, k int) Spec {
		return Spec{Family: famCancel, Preset: 0, BT: bt, FT: ft, StoreFork: -1, Start: start, Len: n, Batch: batch,
			BadIdx: -1, Cancel: cancel, CancelK: k}
	}
	bad := func(sp Spec, rule string, idx int) Spec { sp.BadRule, sp.BadIdx = rule, idx; return sp }
	cp := func(sp Spec, h int) Spec { sp.FilterCPs, sp.FilterDisagree = []int{h}, []int{h}; return sp }
	return []Spec{
		// Fresh stores, file 1..12 whose header at height 3 does not connect;
		// cancelled before the call: several write batches / one write batch.
		bad(mk(0, 0, 1, 12, 4, cxBefore, 0), "link", 2),
		bad(mk(0, 0, 1, 12, 0, cxBefore, 0), "link", 2),
		// The same with a good file (nothing stored, retry imports all).
		mk(0, 0, 1, 12, 4, cxBefore, 0),
		// Bad proof of work in the second write batch.
		bad(mk(0, 0, 1, 12, 4, cxBefore, 0), "pow", 6),
		// Stores at 20, file 11..40 (overlap 11..20), batches of 8: cancelled
		// while the validator looks up the predecessor of the file's first
		// header (its first batch, file heights 11..18, gets validated, the
		// rest does not); height 23 (first write batch 21..28) is invalid.
		bad(mk(20, 20, 11, 30, 8, cxRead, 8), "link", 12),
		// Filter header contradicting a hard-coded checkpoint in the first
		// write batch.
		cp(mk(0, 0, 1, 40, 16, cxBefore, 0), 9),
		// Block store ahead (30/20): the filter store is caught up from the
		// file first; the file's filter header at 25 contradicts a checkpoint.
		cp(mk(30, 20, 1, 50, 8, cxBefore, 0), 25),
		// Good file: cancelled between the write batches, and after the last.
		mk(0, 0, 1, 12, 4, cxAfterBatch, 1),
		mk(0, 0, 1, 12, 4, cxAfterBatch, 3),
		// Good file, cancelled on entering the first write.
		mk(10, 10, 11, 20, 2, cxBlockWrite, 1),
		// A bad header and a live context: the plain refusal.
		bad(mk(0, 0, 1, 12, 4, cxLive, 0), "link", 2),
	}
}

// cxSpec is a randomised case of the family.
func (sg *specGen) cxSpec() Spec {
	r := sg.rng
	w := sg.world()
	top := len(w.hdrs) - 2

	// Store pre-state: empty, equal tips, block store ahead.
	bt, ft := 0, 0
	switch x := r.Intn(20); {
	case x < 7:
	case x < 15:
		bt, ft = sg.storeHeights("equal", 60)
	case x < 18:
		bt, ft = sg.storeHeights("ahead1", 60)
	default:
		bt, ft = sg.storeHeights("aheadN", 60)
	}
	s := sg.start([]string{"tip+1", "tip+1", "tip+1", "below", "below", "0", "1", "tip"}[r.Intn(8)], bt, ft)
	b := []int{1, 2, 4, 0, 4, 2, 7, 16}[r.Intn(8)]
	n := 2 + r.Intn(40)
	if r.Intn(4) == 0 {
		n = 40 + r.Intn(260)
	}
	if s+n-1 <= bt {
		n = bt - s + 2 + r.Intn(30)
	}
	if s+n-1 > top {
		n = top - s + 1
	}
	fresh := max(1, s+n-1-ft)
	if b > 0 && 2*((fresh+b-1)/b) > maxWrites/2 {
		b = 16
	}
	sp := Spec{Idx: 0, Family: famCancel, Preset: w.preset, BT: bt, FT: ft, StoreFork: -1,
		Start: s, Len: n, Batch: b, BadIdx: -1}

	// Defect, positioned relative to the first write batch (which starts at
	// the first height new to the filter store).
	bb := b
	if bb <= 0 || bb > n {
		bb = n
	}
	f := max(0, ft+1-s) // file index of the first new height
	pos := func() int {
		var i int
		switch x := r.Intn(10); {
		case x < 5: // inside the first write batch
			i = f + r.Intn(bb)
		case x < 7: // second write batch
			i = f + bb + r.Intn(bb)
		case x < 8:
			i = n - 1
		case x < 9 && f > 0: // in the overlap
			i = r.Intn(f)
		default:
			i = r.Intn(n)
		}
		return max(0, min(i, n-1))
	}
	switch x := r.Intn(20); {
	case x < 5: // good file
	case x < 14:
		sp.BadRule, sp.BadIdx = chaingen.AllRules[r.Intn(len(chaingen.AllRules))], pos()
	case x < 18:
		h := max(1, s+pos())
		sp.FilterCPs = []int{h}
		if r.Intn(4) == 0 {
			sp.FilterCPAlt = []int{h}
		} else {
			sp.FilterDisagree = []int{h}
		}
		if r.Intn(2) == 0 {
			sp.BlockCPs = []int{max(1, s+r.Intn(n))}
		}
	case x < 19: // sampled overlap differs
		if ov := min(ft, s+n-1); s <= ov && ov >= 1 {
			if r.Intn(2) == 0 && bt >= ov {
				sp.StoreFork = ov - 1
			} else {
				sp.FilterDisagree = []int{ov}
			}
		}
	default: // gap
		sp.Start = min(ft+2+r.Intn(3), top-n)
	}

	nb := (fresh + bb - 1) / bb
	good := sp.BadRule == "" && len(sp.FilterCPs) == 0 && sp.StoreFork < 0 && len(sp.FilterDisagree) == 0 &&
		sp.Start <= ft+1
	readK := func() int {
		if r.Intn(2) == 0 {
			// Median-time and retarget look-ups make the validator read
			// the target store many times per header.
			return 8 + r.Intn(150)
		}
		return 1 + r.Intn(12)
	}
	afterK := func() int {
		if r.Intn(3) == 0 {
			return nb
		}
		return 1 + r.Intn(nb)
	}
	x := r.Intn(20)
	switch {
	case good && x < 2, !good && x < 7:
		sp.Cancel = cxBefore
	case good && x < 6, !good && x < 16:
		sp.Cancel, sp.CancelK = cxRead, readK()
	case good && x < 10, !good && x < 17:
		// On files that have to be refused no write is ever made, so the
		// write-bound moments mostly go to good files.
		sp.Cancel, sp.CancelK = cxBlockWrite, 1+r.Intn(nb)
	case good && x < 17, !good && x < 18:
		sp.Cancel, sp.CancelK = cxAfterBatch, afterK()
	case x < 19:
		sp.Cancel, sp.CancelK = cxTimer, r.Intn(1500)
	default:
		sp.Cancel = cxLive
	}
	return sp
}

// cxSpecs is the family's case list: the fixed scenarios, then n randomised
// ones, with indices from..; it draws from its own generator.
func cxSpecs(seed int64, worlds []*world, from, n int) []Spec {
	sg := &specGen{rng: rand.New(rand.NewSource(seed*1000003 + 0xca9ce1)), worlds: worlds}
	specs := cxFixed()
	for i := 0; i < n; i++ {
		specs = append(specs, sg.cxSpec())
	}
	for i := range specs {
		specs[i].Idx = from + i
	}
	return specs
}
