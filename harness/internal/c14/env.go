// Package c14 is the runtime monitor for property C14 ("header import leaves
// the stores equal to the file, or consistent on failure"). It drives the REAL
// chainimport entry point (NewHeadersImport + Import, exactly as
// neutrino.ChainService.Start does) against REAL headerfs block and filter
// header stores on one shared bbolt database, with import files written in the
// import file format, and compares the full contents of both stores before and
// after every Import call with a reference description of what the import was
// allowed to do.
package c14

import (
	"fmt"
	"io"
	"os"
	"path/filepath"
	"time"

	"github.com/btcsuite/btcd/chaincfg/v2"
	"github.com/btcsuite/btcd/chainhash/v2"
	"github.com/btcsuite/btcd/wire/v2"
	"github.com/btcsuite/btcwallet/walletdb"
	_ "github.com/btcsuite/btcwallet/walletdb/bdb" // bbolt driver
	"github.com/lightninglabs/neutrino/headerfs"
)

var storeFiles = []string{"neutrino.db", "block_headers.bin", "reg_filter_headers.bin"}

// makeTemplate creates, once per parameter set, a directory holding a database
// and both stores initialised with their genesis entries (the one expensive
// store creation: 65 536 index sub-buckets). Cases start from a copy of it.
func makeTemplate(dir string, p *chaincfg.Params) error {
	if err := os.MkdirAll(dir, 0o755); err != nil {
		return err
	}
	db, err := walletdb.Create("bdb", filepath.Join(dir, storeFiles[0]), true, 10*time.Second, false)
	if err != nil {
		return err
	}
	if _, err := headerfs.NewBlockHeaderStore(dir, db, p); err != nil {
		db.Close()
		return err
	}
	if _, err := headerfs.NewFilterHeaderStore(dir, db, headerfs.RegularFilter, p, nil); err != nil {
		db.Close()
		return err
	}
	return db.Close()
}

func copyFile(src, dst string) error {
	in, err := os.Open(src)
	if err != nil {
		return err
	}
	defer in.Close()
	out, err := os.OpenFile(dst, os.O_WRONLY|os.O_CREATE|os.O_TRUNC, 0o644)
	if err != nil {
		return err
	}
	if _, err := io.Copy(out, in); err != nil {
		out.Close()
		return err
	}
	return out.Close()
}

func copyTemplate(tmpl, dir string) error {
	if err := os.MkdirAll(dir, 0o755); err != nil {
		return err
	}
	for _, n := range storeFiles {
		if err := copyFile(filepath.Join(tmpl, n), filepath.Join(dir, n)); err != nil {
			return err
		}
	}
	return nil
}

// stores is one opened pair of real stores over one shared bbolt database, as
// neutrino opens them. The stores have no Close of their own; their flat-file
// descriptors are released by the os.File finalizers once the pair is dropped.
type stores struct {
	db walletdb.DB
	bs headerfs.BlockHeaderStore
	fs headerfs.FilterHeaderStore
}

func openStores(dir string, p *chaincfg.Params) (*stores, error) {
	db, err := walletdb.Open("bdb", filepath.Join(dir, storeFiles[0]), true, 10*time.Second, false)
	if err != nil {
		return nil, err
	}
	bs, err := headerfs.NewBlockHeaderStore(dir, db, p)
	if err != nil {
		db.Close()
		return nil, fmt.Errorf("NewBlockHeaderStore: %w", err)
	}
	fs, err := headerfs.NewFilterHeaderStore(dir, db, headerfs.RegularFilter, p, nil)
	if err != nil {
		db.Close()
		return nil, fmt.Errorf("NewFilterHeaderStore: %w", err)
	}
	return &stores{db: db, bs: bs, fs: fs}, nil
}

func (s *stores) close() error { return s.db.Close() }

// snap is everything the public read API of both stores says at a quiescent
// point.
type snap struct {
	Blocks  []wire.BlockHeader // by height, 0..block tip
	Filters []chainhash.Hash   // by height, 0..filter tip
	// Errs lists every read that failed or contradicted another read of the
	// same store ("store not usable").
	Errs []string
	// Dangling is set when a store serves a record above its own tip.
	Dangling []string
	reads    int64
}

func (s *snap) bt() int { return len(s.Blocks) - 1 }
func (s *snap) ft() int { return len(s.Filters) - 1 }

// maxSane bounds the heights the reader walks when a store reports a tip far
// beyond anything the case could have written (a corrupted index).
const maxSane = 20000

// readAll reads both stores completely through their public API: ChainTip,
// FetchHeaderByHeight for 0..tip+1, FetchHeader by hash for every block
// header, the filter store by height and by block hash.
func readAll(bs headerfs.BlockHeaderStore, fs headerfs.FilterHeaderStore) *snap {
	sn := &snap{}
	bad := func(f string, a ...any) {
		if len(sn.Errs) < 12 {
			sn.Errs = append(sn.Errs, fmt.Sprintf(f, a...))
		}
	}

	tipHdr, bTip, err := bs.ChainTip()
	sn.reads++
	if err != nil {
		bad("block ChainTip: %v", err)
	} else if bTip > maxSane {
		bad("block ChainTip height %d is beyond anything written", bTip)
	} else {
		for h := uint32(0); h <= bTip; h++ {
			hdr, err := bs.FetchHeaderByHeight(h)
			sn.reads++
			if err != nil {
				bad("block FetchHeaderByHeight(%d) with tip %d: %v", h, bTip, err)
				break
			}
			sn.Blocks = append(sn.Blocks, *hdr)
		}
		if len(sn.Blocks) == int(bTip)+1 {
			if sn.Blocks[bTip].BlockHash() != tipHdr.BlockHash() {
				bad("block ChainTip header differs from FetchHeaderByHeight(%d)", bTip)
			}
			if _, err := bs.FetchHeaderByHeight(bTip + 1); err == nil {
				sn.Dangling = append(sn.Dangling, fmt.Sprintf(
					"block store serves a header at height %d above its tip %d", bTip+1, bTip))
			}
			sn.reads++
			for h := range sn.Blocks {
				hash := sn.Blocks[h].BlockHash()
				hdr, ht, err := bs.FetchHeader(&hash)
				sn.reads++
				switch {
				case err != nil:
					bad("block FetchHeader(hash of height %d): %v", h, err)
				case int(ht) != h:
					bad("block FetchHeader(hash of height %d) says height %d", h, ht)
				case hdr.BlockHash() != hash:
					bad("block FetchHeader(hash of height %d) returns another header", h)
				}
				if len(sn.Errs) >= 12 {
					break
				}
			}
		} else {
			sn.Blocks = nil
		}
	}

	fTipHdr, fTip, err := fs.ChainTip()
	sn.reads++
	if err != nil {
		bad("filter ChainTip: %v", err)
	} else if fTip > maxSane {
		bad("filter ChainTip height %d is beyond anything written", fTip)
	} else {
		for h := uint32(0); h <= fTip; h++ {
			fh, err := fs.FetchHeaderByHeight(h)
			sn.reads++
			if err != nil {
				bad("filter FetchHeaderByHeight(%d) with tip %d: %v", h, fTip, err)
				break
			}
			sn.Filters = append(sn.Filters, *fh)
		}
		if len(sn.Filters) == int(fTip)+1 {
			if sn.Filters[fTip] != *fTipHdr {
				bad("filter ChainTip header differs from FetchHeaderByHeight(%d)", fTip)
			}
			if _, err := fs.FetchHeaderByHeight(fTip + 1); err == nil {
				sn.Dangling = append(sn.Dangling, fmt.Sprintf(
					"filter store serves a header at height %d above its tip %d", fTip+1, fTip))
			}
			sn.reads++
			// By block hash: only meaningful where the block store has
			// that height.
			for h := 0; h < len(sn.Filters) && h < len(sn.Blocks); h++ {
				hash := sn.Blocks[h].BlockHash()
				fh, err := fs.FetchHeader(&hash)
				sn.reads++
				if err != nil {
					bad("filter FetchHeader(block hash of height %d): %v", h, err)
				} else if *fh != sn.Filters[h] {
					bad("filter FetchHeader(block hash of height %d) differs from by-height read", h)
				}
				if len(sn.Errs) >= 12 {
					break
				}
			}
		} else {
			sn.Filters = nil
		}
	}
	return sn
}

func sameSnap(a, b *snap) bool {
	if len(a.Blocks) != len(b.Blocks) || len(a.Filters) != len(b.Filters) {
		return false
	}
	for i := range a.Blocks {
		if a.Blocks[i].BlockHash() != b.Blocks[i].BlockHash() {
			return false
		}
	}
	for i := range a.Filters {
		if a.Filters[i] != b.Filters[i] {
			return false
		}
	}
	return true
}
