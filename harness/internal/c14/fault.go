package c14

import (
	"errors"
	"fmt"
	"sync"

	"github.com/lightninglabs/neutrino/headerfs"
)

// errInjected is what an armed store wrapper returns instead of performing
// the write. The real store is not touched by a failed call: the wrapper
// models a WriteHeaders / RollbackBlockHeaders that failed atomically (which
// is what the stores themselves promise).
var errInjected = errors.New("c14: injected store write failure")

// Fault operations.
const (
	faultNone      = ""
	faultBlock     = "bwrite"          // k-th block WriteHeaders fails
	faultFilter    = "fwrite"          // k-th filter WriteHeaders fails
	faultFilterRbk = "fwrite+rollback" // k-th filter WriteHeaders fails and so does the block rollback that follows
)

// faultCtl decides which store call fails and logs every mutating call the
// importer makes on the stores.
type faultCtl struct {
	mu       sync.Mutex
	op       string
	k        int
	bWrites  int
	fWrites  int
	rollback int
	injected int // how many calls were failed
	rbkFail  bool
	log      []string
}

func (c *faultCtl) note(f string, a ...any) {
	if len(c.log) < 40 {
		c.log = append(c.log, fmt.Sprintf(f, a...))
	}
}

func (c *faultCtl) disarm() {
	c.mu.Lock()
	c.op = faultNone
	c.rbkFail = false
	c.mu.Unlock()
}

type faultBlockStore struct {
	headerfs.BlockHeaderStore
	ctl *faultCtl
}

func (s *faultBlockStore) WriteHeaders(hdrs ...headerfs.BlockHeader) error {
	c := s.ctl
	c.mu.Lock()
	c.bWrites++
	n := c.bWrites
	fail := c.op == faultBlock && n == c.k
	first, last := -1, -1
	if len(hdrs) > 0 {
		first, last = int(hdrs[0].Height), int(hdrs[len(hdrs)-1].Height)
	}
	if fail {
		c.injected++
		c.note("block.WriteHeaders#%d n=%d heights %d..%d -> INJECTED FAILURE", n, len(hdrs), first, last)
	} else {
		c.note("block.WriteHeaders#%d n=%d heights %d..%d", n, len(hdrs), first, last)
	}
	c.mu.Unlock()
	if fail {
		return errInjected
	}
	return s.BlockHeaderStore.WriteHeaders(hdrs...)
}

func (s *faultBlockStore) RollbackBlockHeaders(n uint32) (*headerfs.BlockStamp, error) {
	c := s.ctl
	c.mu.Lock()
	c.rollback++
	fail := c.rbkFail
	if fail {
		c.injected++
		c.note("block.RollbackBlockHeaders(%d) -> INJECTED FAILURE", n)
	} else {
		c.note("block.RollbackBlockHeaders(%d)", n)
	}
	c.mu.Unlock()
	if fail {
		return nil, errInjected
	}
	return s.BlockHeaderStore.RollbackBlockHeaders(n)
}

func (s *faultBlockStore) RollbackLastBlock() (*headerfs.BlockStamp, error) {
	return s.RollbackBlockHeaders(1)
}

type faultFilterStore struct {
	headerfs.FilterHeaderStore
	ctl *faultCtl
}

func (s *faultFilterStore) WriteHeaders(hdrs ...headerfs.FilterHeader) error {
	c := s.ctl
	c.mu.Lock()
	c.fWrites++
	n := c.fWrites
	fail := (c.op == faultFilter || c.op == faultFilterRbk) && n == c.k
	first, last := -1, -1
	if len(hdrs) > 0 {
		first, last = int(hdrs[0].Height), int(hdrs[len(hdrs)-1].Height)
	}
	if fail {
		c.injected++
		if c.op == faultFilterRbk {
			c.rbkFail = true
		}
		c.note("filter.WriteHeaders#%d n=%d heights %d..%d -> INJECTED FAILURE", n, len(hdrs), first, last)
	} else {
		c.note("filter.WriteHeaders#%d n=%d heights %d..%d", n, len(hdrs), first, last)
	}
	c.mu.Unlock()
	if fail {
		return errInjected
	}
	return s.FilterHeaderStore.WriteHeaders(hdrs...)
}
