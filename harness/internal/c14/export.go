package c14

import (
	"fmt"
	"os"
	"sync"
	"time"

	"github.com/btcsuite/btcd/chaincfg/v2"
	"github.com/btcsuite/btcd/chainhash/v2"
	"github.com/btcsuite/btcd/wire/v2"

	"verif/internal/chaingen"
	"verif/internal/ref"
)

// Exported surface for the C08 crash runner, which crashes the REAL import at
// every crash point and needs exactly the material this package already makes:
// a PoW-valid generated chain per parameter set, a store template for its
// genesis, and import files in chainimport's format cut from that chain. The
// wrappers add nothing to, and change nothing in, what the C14 check itself
// does.

// World is one parameter set with its master chain and store template.
type World struct {
	w  *world
	mu sync.Mutex // build() reseeds the (not thread-safe) generator
}

// NumPresets is the number of chain-parameter presets.
func NumPresets() int { return len(presetNames) }

// NewWorld builds the world of (seed, preset); its store template is created
// under scratch.
func NewWorld(seed int64, preset int, scratch string) (*World, error) {
	w, err := newWorld(seed, preset, scratch)
	if err != nil {
		return nil, err
	}
	return &World{w: w}, nil
}

// NewLongWorld is NewWorld with the master chain extended to at least
// heights heights (the same chain up to the usual length, more valid headers
// on top; a pure function of seed, preset and heights). For import files of
// several thousand headers.
func NewLongWorld(seed int64, preset int, scratch string, heights int) (*World, error) {
	w, err := newWorld(seed, preset, scratch+"/long")
	if err != nil {
		return nil, err
	}
	if more := heights - (len(w.master) - 1); more > 0 {
		w.g.Rng.Seed(seed*1000003 + int64(preset) + 777)
		for _, n := range w.g.Extend(w.master[len(w.master)-1], more, chaingen.PaceMixed) {
			w.master = append(w.master, n)
			w.hdrs = append(w.hdrs, n.Hdr)
		}
		if h, rule := ref.CheckChain(w.g.P, w.hdrs, refNow); h != -1 {
			return nil, fmt.Errorf("long world %s: master chain invalid at %d (%s)", w.name, h, rule)
		}
	}
	return &World{w: w}, nil
}

// WorldParams returns the chain parameters of world (seed, preset) without
// building its chain or template (a pure function of its arguments).
func WorldParams(seed int64, preset int) *chaincfg.Params { return newWorldGen(seed, preset).P }

// Params are the world's chain parameters.
func (W *World) Params() *chaincfg.Params { return W.w.g.P }

// Name is the preset name.
func (W *World) Name() string { return W.w.name }

// Preset is the preset index.
func (W *World) Preset() int { return W.w.preset }

// Template is the directory holding freshly initialised stores (genesis only).
func (W *World) Template() string { return W.w.tmpl }

// MaxHeight is the last height of the master chain.
func (W *World) MaxHeight() int { return len(W.w.hdrs) - 1 }

// Header is the master chain's header at height h.
func (W *World) Header(h int) wire.BlockHeader { return W.w.hdrs[h] }

// FilterHash is the filter header stores are pre-filled with, and an agreeing
// file carries, at height h > 0.
func (W *World) FilterHash(h int) chainhash.Hash { return W.w.filterHash(h, 0) }

// RefNow is the fixed clock the master chain is valid against.
func RefNow() time.Time { return refNow }

// Remove deletes the world's template directory.
func (W *World) Remove() { _ = os.RemoveAll(W.w.tmpl) }

// ImportFiles is a pair of written import files and what a reader of the
// format sees in them (read back from the bytes written).
type ImportFiles struct {
	BlockPath, FilterPath string
	Spec                  Spec // as clamped to the world
	Start                 int
	Blocks                []wire.BlockHeader // file block headers for heights Start..
	Filters               []chainhash.Hash   // file filter headers for heights Start..
	StoreBlocks           []wire.BlockHeader // what the block store is to be pre-filled with, by height 0..BT
}

// WriteImportFiles turns sp into headers and writes the two import files into
// dir. genesisFilter is the filter store's own genesis filter header.
func (W *World) WriteImportFiles(dir string, sp Spec, genesisFilter chainhash.Hash) (*ImportFiles, error) {
	W.mu.Lock()
	m := W.w.build(clamp(sp, W.w))
	W.mu.Unlock()
	bPath, fPath, fv, err := writeFiles(dir, m, genesisFilter)
	if err != nil {
		return nil, err
	}
	return &ImportFiles{BlockPath: bPath, FilterPath: fPath, Spec: m.spec, Start: fv.start,
		Blocks: fv.blocks, Filters: fv.filters, StoreBlocks: m.storeBlocks}, nil
}
