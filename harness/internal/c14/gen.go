package c14

import (
	"crypto/sha256"
	"encoding/binary"
	"fmt"
	"math/rand"
	"path/filepath"
	"time"

	"github.com/btcsuite/btcd/chaincfg/v2"
	"github.com/btcsuite/btcd/chainhash/v2"
	"github.com/btcsuite/btcd/wire/v2"

	"verif/internal/chaingen"
	"verif/internal/ref"
)

// Fixed instants. All generated chains live in the first days of 2024; the
// reference validator's clock is 2025-01-01. The importer judges "timestamp
// too far in the future" against the real wall clock, which is later than the
// reference clock and (assumption, checked at start-up) earlier than 2089, so
// the two clocks agree on every header the generator produces: chain headers
// are in the past for both, and the deliberately "future" headers are stamped
// 2090, in the future for both. No oracle decision depends on the wall clock.
var (
	genesisTime = time.Unix(1704067200, 0) // 2024-01-01
	refNow      = time.Unix(1735689600, 0) // 2025-01-01
	farFuture   = time.Unix(3786825600, 0) // 2090-01-01 (block timestamps are uint32: < 2106)
)

// world is one parameter set: a generator, its master chain and the store
// template directory for its genesis.
type world struct {
	preset int
	name   string
	g      *chaingen.Gen
	master []*chaingen.Node   // master[h] is the node at height h
	hdrs   []wire.BlockHeader // master headers by height
	tmpl   string             // template store directory
	seed   int64
}

var presetNames = []string{"noretarget", "retarget", "mindiff"}

// masterLen is the master chain length (heights 1..masterLen) per preset.
var masterLen = []int{3400, 1100, 1100}

// newWorldGen is the generator (chain parameters + genesis) of a world: a pure
// function of (seed, preset).
func newWorldGen(seed int64, preset int) *chaingen.Gen {
	g := chaingen.NewGen(chaingen.Config{
		Seed: seed*16 + int64(preset) + 1, Preset: preset, Interval: 8,
		GenesisTime: genesisTime, Now: refNow,
	})
	// Keep mining cheap: difficulty still moves under the retargeting
	// presets, but is steered back down once a header costs > 96 hashes.
	g.MaxHashes = 96
	return g
}

func newWorld(seed int64, preset int, scratch string) (*world, error) {
	g := newWorldGen(seed, preset)
	w := &world{preset: preset, name: presetNames[preset], g: g, seed: seed}
	w.master = append(w.master, g.Genesis)
	w.master = append(w.master, g.Extend(g.Genesis, masterLen[preset], chaingen.PaceMixed)...)
	w.hdrs = make([]wire.BlockHeader, len(w.master))
	for i, n := range w.master {
		w.hdrs[i] = n.Hdr
	}
	// The master chain must be valid for the reference validator.
	if h, rule := ref.CheckChain(g.P, w.hdrs, refNow); h != -1 {
		return nil, fmt.Errorf("world %s: master chain invalid at %d (%s)", w.name, h, rule)
	}
	w.tmpl = filepath.Join(scratch, "tmpl-"+w.name)
	if err := makeTemplate(w.tmpl, g.P); err != nil {
		return nil, fmt.Errorf("world %s: template: %w", w.name, err)
	}
	return w, nil
}

// forget drops generated side nodes from the generator's hash index so that
// memory stays bounded over thousands of cases.
func (w *world) forget(ns []*chaingen.Node) {
	for _, n := range ns {
		delete(w.g.ByHash, n.Hash)
	}
}

// filterHash is the arbitrary 32-byte filter header the harness uses for
// height h (> 0). variant 0 is what stores are pre-filled with and what an
// agreeing file carries; variant 1 is a disagreeing value.
func (w *world) filterHash(h int, variant int) chainhash.Hash {
	var b [24]byte
	binary.LittleEndian.PutUint64(b[0:], uint64(w.seed))
	binary.LittleEndian.PutUint32(b[8:], uint32(w.preset))
	binary.LittleEndian.PutUint32(b[12:], uint32(h))
	binary.LittleEndian.PutUint32(b[16:], uint32(variant))
	return chainhash.Hash(sha256.Sum256(b[:]))
}

// Container corruption kinds (of the import files themselves).
const (
	ctMagicBlock   = "magic-block"
	ctMagicFilter  = "magic-filter"
	ctMagicBoth    = "magic-both"
	ctTypeBlock    = "type-block-says-filter"
	ctTypeFilter   = "type-filter-says-block"
	ctTypeUnknown  = "type-unknown"
	ctVersion      = "version"
	ctTruncBlock   = "trunc-block"
	ctTruncFilter  = "trunc-filter"
	ctTruncMeta    = "trunc-inside-metadata"
	ctOnlyMeta     = "metadata-only"
	ctEmpty        = "empty-file"
	ctGarbageOdd   = "trailing-garbage-partial"
	ctGarbageWhole = "trailing-garbage-record"
	ctGarbageBlock = "trailing-garbage-record-block-only"
	ctCountShort   = "filter-count-short"
	ctCountLong    = "filter-count-long"
	ctStartMis     = "filter-start-mismatch"
	ctMissingBlock = "missing-block-file"
	ctMissingFilt  = "missing-filter-file"
)

var allContainers = []string{
	ctMagicBlock, ctMagicFilter, ctMagicBoth, ctTypeBlock, ctTypeFilter, ctTypeUnknown,
	ctVersion, ctTruncBlock, ctTruncFilter, ctTruncMeta, ctOnlyMeta, ctEmpty,
	ctGarbageOdd, ctGarbageWhole, ctGarbageBlock, ctCountShort, ctCountLong, ctStartMis,
	ctMissingBlock, ctMissingFilt,
}

// Spec is the declarative description of one case; everything the case does
// follows from it (plus the run seed, which fixes the chains).
type Spec struct {
	Idx    int    `json:"idx"`
	Family string `json:"family"`
	Preset int    `json:"preset"` // 0 no-retarget, 1 retarget, 2 min-difficulty

	// Stores before the import: block store holds heights 0..BT, filter
	// store 0..FT (FT <= BT). StoreFork >= 0: above that height the block
	// store holds a side branch instead of the master chain the file is
	// cut from (so the file disagrees with the store above StoreFork).
	BT        int `json:"store_block_tip"`
	FT        int `json:"store_filter_tip"`
	StoreFork int `json:"store_fork_height"`

	// Import files: Len block headers for heights Start..Start+Len-1.
	Start int `json:"file_start"`
	Len   int `json:"file_len"`
	Batch int `json:"write_batch_size"` // 0 = the importer's default

	// Heights at which the FILE's filter header differs from what the
	// filter store was pre-filled with.
	FilterDisagree []int `json:"filter_disagree_heights,omitempty"`

	// One block header of the file (index BadIdx, height Start+BadIdx)
	// breaks exactly BadRule; the headers after it descend from it.
	BadRule string `json:"bad_rule,omitempty"`
	BadIdx  int    `json:"bad_index"`

	Container string `json:"container,omitempty"`

	// Fault: the FaultK-th call of the named store write fails.
	Fault  string `json:"fault,omitempty"`
	FaultK int    `json:"fault_k,omitempty"`

	// Hard-coded checkpoints of the case's network (see cp.go). FilterCPs:
	// heights (>= 1) at which a hard-coded FILTER-header checkpoint is in
	// force while the case runs; its value is the filter header the stores
	// are pre-filled with and an agreeing file carries, except at the heights
	// also listed in FilterCPAlt, where it is a value neither the stores nor
	// any file carry. BlockCPs: heights at which the chain parameters carry a
	// BLOCK checkpoint (the master chain's hash); empty = a network without
	// block checkpoints.
	FilterCPs   []int `json:"filter_checkpoint_heights,omitempty"`
	FilterCPAlt []int `json:"filter_checkpoint_alt_value_heights,omitempty"`
	BlockCPs    []int `json:"block_checkpoint_heights,omitempty"`

	// Cancel: the moment at which the context handed to the FIRST Import is
	// cancelled (see cancel.go; "" = the plain background context of the
	// other families); CancelK is that moment's ordinal (k-th store read /
	// write, or microseconds for the timer kind).
	Cancel  string `json:"cancel_context,omitempty"`
	CancelK int    `json:"cancel_k,omitempty"`
}

func (s *Spec) end() int { return s.Start + s.Len - 1 }

// material is a Spec turned into concrete headers.
type material struct {
	spec        Spec
	w           *world
	storeBlocks []wire.BlockHeader // by height 0..BT
	fileBlocks  []wire.BlockHeader // for heights Start..
	note        string
	// p are the chain parameters the case runs under (the world's, or a
	// private copy carrying the case's checkpoints); cps the hard-coded
	// filter-header checkpoints in force for p.Net.
	p   *chaincfg.Params
	cps map[int]chainhash.Hash
}

// build makes the headers for a spec. It uses the world's generator and must
// only be called from the single producer goroutine.
func (w *world) build(sp Spec) *material {
	m := &material{spec: sp, w: w}
	m.p, m.cps = w.caseParams(&sp), w.cpTable(&sp)
	g := w.g
	// The side branches and invalid headers of a case depend on the run
	// seed and the case index only, not on which cases were built before.
	g.Rng.Seed(w.seed*1000003 + int64(sp.Idx)*31 + int64(w.preset))

	if sp.StoreFork >= 0 && sp.StoreFork < sp.BT {
		side := g.Extend(w.master[sp.StoreFork], sp.BT-sp.StoreFork, chaingen.PaceNormal)
		m.storeBlocks = append(m.storeBlocks, w.hdrs[:sp.StoreFork+1]...)
		for _, n := range side {
			m.storeBlocks = append(m.storeBlocks, n.Hdr)
		}
		w.forget(side)
	} else {
		m.spec.StoreFork = -1
		m.storeBlocks = w.hdrs[:sp.BT+1]
	}

	if sp.BadRule == "" || sp.BadIdx < 0 || sp.BadIdx >= sp.Len {
		m.spec.BadRule, m.spec.BadIdx = "", -1
		m.fileBlocks = w.hdrs[sp.Start : sp.Start+sp.Len]
		return m
	}

	badH := sp.Start + sp.BadIdx
	m.fileBlocks = append(m.fileBlocks, w.hdrs[sp.Start:badH]...)
	if badH == 0 {
		// "Invalid genesis": another header in place of the genesis header.
		h := w.hdrs[0]
		h.MerkleRoot[0] ^= 0x5a
		m.spec.BadRule = ref.RuleGenesis
		m.fileBlocks = append(m.fileBlocks, h)
		m.fileBlocks = append(m.fileBlocks, w.hdrs[1:sp.Len]...)
		return m
	}
	parent := w.master[badH-1]
	var bad *chaingen.Node
	rules := append([]string{sp.BadRule}, chaingen.AllRules...)
	for _, rule := range rules {
		if rule == ref.RuleFuture {
			g.Now = farFuture
			bad = g.Invalid(parent, rule)
			g.Now = refNow
			if bad != nil && ref.CheckNext(g.P, w.hdrs[:badH], &bad.Hdr, refNow) != rule {
				w.forget([]*chaingen.Node{bad})
				bad = nil
			}
		} else {
			bad = g.Invalid(parent, rule)
		}
		if bad != nil {
			m.spec.BadRule = rule
			break
		}
	}
	if bad == nil {
		m.spec.BadRule, m.spec.BadIdx = "", -1
		m.fileBlocks = w.hdrs[sp.Start : sp.Start+sp.Len]
		m.note = "no rule could be broken at this position; file left valid"
		return m
	}
	m.fileBlocks = append(m.fileBlocks, bad.Hdr)
	tail := g.Extend(bad, sp.Len-sp.BadIdx-1, chaingen.PaceNormal)
	for _, n := range tail {
		m.fileBlocks = append(m.fileBlocks, n.Hdr)
	}
	w.forget(tail)
	w.forget([]*chaingen.Node{bad})
	return m
}

// ---------------------------------------------------------------------------
// Spec generation.

type specGen struct {
	rng    *rand.Rand
	worlds []*world
}

func (sg *specGen) pick(xs ...int) int { return xs[sg.rng.Intn(len(xs))] }

// storeHeights picks (BT, FT) for a store relation class.
func (sg *specGen) storeHeights(class string, maxBT int) (int, int) {
	r := sg.rng
	tip := func() int {
		switch r.Intn(5) {
		case 0:
			return 1 + r.Intn(3)
		case 1:
			return 4 + r.Intn(12)
		case 2:
			return 16 + r.Intn(40)
		default:
			return 1 + r.Intn(maxBT)
		}
	}
	switch class {
	case "genesis":
		return 0, 0
	case "equal":
		t := tip()
		return t, t
	case "ahead1":
		t := tip()
		return t, t - 1
	default: // "aheadN"
		t := 2 + tip()
		if t > maxBT {
			t = maxBT
		}
		d := 2 + r.Intn(t-1)
		if d > t {
			d = t
		}
		return t, t - d
	}
}

func (sg *specGen) storeClass() string {
	switch x := sg.rng.Intn(100); {
	case x < 22:
		return "genesis"
	case x < 72:
		return "equal"
	case x < 86:
		return "ahead1"
	default:
		return "aheadN"
	}
}

// length picks a file length with a bias to short files.
func (sg *specGen) length(max int) int {
	r := sg.rng
	var n int
	switch x := r.Intn(100); {
	case x < 30:
		n = 1 + r.Intn(6)
	case x < 60:
		n = 7 + r.Intn(34)
	case x < 88:
		n = 41 + r.Intn(260)
	default:
		n = 301 + r.Intn(2700)
	}
	if n > max {
		n = 1 + r.Intn(max)
	}
	return n
}

// maxWrites bounds the store writes (each is an fsync'd transaction) one
// import may need, to keep a case around a second.
const maxWrites = 200

// batch picks a write batch size of the wanted class for a file of n headers
// of which about fresh are new to the stores.
func (sg *specGen) batch(n, fresh int) int {
	r := sg.rng
	for try := 0; try < 20; try++ {
		var b int
		switch r.Intn(8) {
		case 0:
			b = 1
		case 1:
			b = 2
		case 2:
			b = 7
		case 3: // an exact divisor of the length
			ds := []int{}
			for d := 2; d < n; d++ {
				if n%d == 0 {
					ds = append(ds, d)
				}
			}
			if len(ds) == 0 {
				continue
			}
			b = ds[r.Intn(len(ds))]
		case 4:
			b = n
		case 5:
			b = n + 1 + r.Intn(50)
		case 6:
			b = 0 // default
		default:
			b = 3 + r.Intn(60)
		}
		if b > 0 && 2*((fresh+b-1)/b) > maxWrites {
			continue
		}
		return b
	}
	return n
}

func (sg *specGen) world() *world {
	switch x := sg.rng.Intn(10); {
	case x < 6:
		return sg.worlds[0]
	case x < 8:
		return sg.worlds[1]
	default:
		return sg.worlds[2]
	}
}

// limits of a world: the highest store tip and longest file cases use.
func limits(w *world) (maxBT, maxLen int) {
	if w.preset == 0 {
		return 300, 3000
	}
	return 150, 900
}

// start picks the file start height for a relation class.
func (sg *specGen) start(class string, bt, ft int) int {
	r := sg.rng
	switch class {
	case "0":
		return 0
	case "1":
		return 1
	case "below": // tip-k
		if ft < 2 {
			return ft
		}
		return ft - 1 - r.Intn(min(ft-1, 20))
	case "tip":
		return ft
	case "tip+1":
		return ft + 1
	case "gap":
		return ft + 2 + r.Intn(3)
	case "btip":
		return bt
	case "btip+1":
		return bt + 1
	default: // "btip+2"
		return bt + 2
	}
}

var startClasses = []string{"0", "1", "below", "tip", "tip+1", "gap", "btip", "btip+1", "btip+2"}

// cleanSpec is a well-formed file over a chosen store state; the other
// families derive from it.
func (sg *specGen) cleanSpec(idx int, startClass string) Spec {
	w := sg.world()
	maxBT, maxLen := limits(w)
	bt, ft := sg.storeHeights(sg.storeClass(), maxBT)
	if startClass == "" {
		// Weighted: the interesting extension shapes dominate.
		startClass = []string{"0", "0", "1", "below", "below", "tip", "tip", "tip+1", "tip+1",
			"tip+1", "gap", "btip", "btip+1", "btip+2"}[sg.rng.Intn(14)]
	}
	s := sg.start(startClass, bt, ft)
	n := sg.length(maxLen)
	// End relation: usually beyond the block tip; sometimes inside.
	switch sg.rng.Intn(10) {
	case 0: // ends exactly at the filter tip
		if ft >= s {
			n = ft - s + 1
		}
	case 1: // ends exactly at the block tip
		if bt >= s {
			n = bt - s + 1
		}
	case 2: // ends inside the existing data
		if ft > s {
			n = 1 + sg.rng.Intn(ft-s)
		}
	default:
		if s+n-1 <= bt {
			n = bt - s + 1 + sg.length(maxLen/4+1)
		}
	}
	if n < 1 {
		n = 1
	}
	if s+n-1 > len(w.hdrs)-2 {
		n = len(w.hdrs) - 2 - s + 1
	}
	fresh := s + n - 1 - ft
	if fresh < 0 {
		fresh = 0
	}
	return Spec{
		Idx: idx, Family: "clean", Preset: w.preset, BT: bt, FT: ft, StoreFork: -1,
		Start: s, Len: n, Batch: sg.batch(n, fresh), BadIdx: -1,
	}
}

// gen produces the spec for case idx. The family rotates with the index so
// that every family is present in any prefix of the case list.
func (sg *specGen) gen(idx int) Spec {
	r := sg.rng
	switch fam := idx % 20; {
	case fam < 7: // clean files over all start relations
		return sg.cleanSpec(idx, startClasses[(idx/20*7+fam)%len(startClasses)])

	case fam < 9: // overlap that disagrees with the stores
		sp := sg.cleanSpec(idx, []string{"0", "1", "below", "below", "tip"}[r.Intn(5)])
		sp.Family = "overlap-disagree"
		ovEnd := min(sp.FT, sp.end())
		if sp.Start > ovEnd {
			return sp
		}
		pos := []string{"first", "mid", "last"}[r.Intn(3)]
		h := sp.Start
		switch pos {
		case "mid":
			if ovEnd-sp.Start >= 2 {
				h = sp.Start + 1 + r.Intn(ovEnd-sp.Start-1)
			}
		case "last":
			h = ovEnd
		}
		if r.Intn(2) == 0 && h >= 1 && sp.BT >= h {
			// Block headers disagree from height h upwards.
			sp.StoreFork = h - 1
		} else {
			if h == 0 {
				h = min(1, ovEnd)
			}
			sp.FilterDisagree = []int{h}
		}
		return sp

	case fam < 13: // one invalid block header
		w := sg.world()
		maxBT, _ := limits(w)
		var bt, ft int
		if r.Intn(4) == 0 {
			bt, ft = sg.storeHeights(sg.storeClass(), maxBT)
		} else {
			bt, ft = sg.storeHeights([]string{"genesis", "equal", "equal"}[r.Intn(3)], maxBT)
		}
		s := sg.start([]string{"tip+1", "tip+1", "tip+1", "0", "1", "below", "tip"}[r.Intn(7)], bt, ft)
		n := 1 + r.Intn(6)
		if r.Intn(3) > 0 {
			n = 2 + r.Intn(120)
		}
		if s+n-1 <= ft && r.Intn(4) > 0 {
			n = ft - s + 2 + r.Intn(40)
		}
		fresh := max(0, s+n-1-ft)
		b := sg.batch(n, fresh)
		var bad int
		switch r.Intn(5) {
		case 0:
			bad = 0
		case 1: // first index of a later validation batch
			bad = 0
			if b > 0 && b < n {
				bad = b * (1 + r.Intn((n-1)/b))
			}
		case 2:
			bad = n - 1
		case 3: // first new height
			bad = max(0, ft+1-s)
			if bad >= n {
				bad = n - 1
			}
		default:
			bad = r.Intn(n)
		}
		return Spec{
			Idx: idx, Family: "invalid-header", Preset: w.preset, BT: bt, FT: ft, StoreFork: -1,
			Start: s, Len: n, Batch: b, BadIdx: bad,
			BadRule: chaingen.AllRules[(idx/20+r.Intn(2)*3)%len(chaingen.AllRules)],
		}

	case fam < 16: // broken container
		sp := sg.cleanSpec(idx, []string{"0", "tip+1", "tip+1", "below"}[r.Intn(4)])
		sp.Family = "container"
		sp.Container = allContainers[(idx/20*3+fam-13)%len(allContainers)]
		if sp.Len > 200 {
			sp.Len = 1 + r.Intn(200)
		}
		if (sp.Container == ctCountShort) && sp.Len < 2 {
			sp.Len = 2
		}
		return sp

	default: // injected store write failure
		w := sg.world()
		maxBT, _ := limits(w)
		bt, ft := sg.storeHeights([]string{"genesis", "equal", "equal", "equal"}[r.Intn(4)], maxBT)
		s := sg.start([]string{"0", "0", "tip+1", "tip+1", "below", "1", "tip"}[r.Intn(7)], bt, ft)
		fresh := 1 + r.Intn(6)
		if r.Intn(2) == 0 {
			fresh = 2 + r.Intn(150)
		}
		n := bt + fresh - s + 1
		b := sg.batch(n, fresh)
		if r.Intn(3) > 0 {
			b = []int{1, 2, 3, 7}[r.Intn(4)]
			if 2*((fresh+b-1)/b) > maxWrites {
				b = 7
			}
		}
		nb := 1
		if b > 0 {
			nb = (fresh + b - 1) / b
		}
		var k int
		switch r.Intn(5) {
		case 0:
			k = 1
		case 1:
			k = nb
		case 2:
			k = nb + 1 // never reached: the import must simply succeed
		default:
			k = 1 + r.Intn(nb)
		}
		op := []string{faultBlock, faultFilter, faultFilterRbk}[(idx/20+fam)%3]
		return Spec{
			Idx: idx, Family: "fault", Preset: w.preset, BT: bt, FT: ft, StoreFork: -1,
			Start: s, Len: n, Batch: b, BadIdx: -1, Fault: op, FaultK: k,
		}
	}
}
