package c14

import (
	"context"
	"encoding/json"
	"flag"
	"fmt"
	"math/rand"
	"os"
	"path/filepath"
	"runtime"
	"runtime/debug"
	"strings"
	"sync"
	"time"

	"github.com/btcsuite/btcd/chaincfg/v2"
	"github.com/btcsuite/btcd/chainhash/v2"
	"github.com/lightninglabs/neutrino/chainimport"
	"github.com/lightninglabs/neutrino/headerfs"

	"verif/internal/evid"
)

// MinDistinct is the floor on distinct non-trivial case shapes per tier.
func MinDistinct(r *evid.Run) int { return r.Pick(80, 600) }

var (
	flagOnly = flag.Int("only", -1, "run only the case with this index (verbose)")
	flagSpec = flag.String("spec", "", "run one hand-written case given as a JSON Spec (verbose)")
)

// importCall is one observed Import invocation (part of the witness).
type importCall struct {
	Result     string    `json:"result"` // "success" | "failure" | "panic"
	Error      string    `json:"error,omitempty"`
	StoreCalls []string  `json:"store_calls_made_by_import"`
	BlockTip   int       `json:"block_tip_after"`
	FilterTip  int       `json:"filter_tip_after"`
	ReadErrors []string  `json:"read_errors_after,omitempty"`
	Dangling   []string  `json:"dangling_after,omitempty"`
	Verdicts   []verdict `json:"violations,omitempty"`
	// Cancelled-context family: every call Import made on the target stores
	// and where among them the context was cancelled.
	CancelTrace []string `json:"store_calls_and_cancellation,omitempty"`
}

// outcome is everything recorded about one executed case.
type outcome struct {
	Spec        Spec        `json:"case"`
	Note        string      `json:"note,omitempty"`
	Params      string      `json:"params"`
	Before      string      `json:"stores_before"`
	File        string      `json:"file"`
	First       *importCall `json:"first_import,omitempty"`
	Second      *importCall `json:"second_import,omitempty"`
	Reopen      []verdict   `json:"reopen_violations,omitempty"`
	Harness     string      `json:"harness_error,omitempty"`
	fingerprint string
	counters    map[string]int64
}

func (o *outcome) count(k string, n int64) { o.counters[k] += n }

// failureReason normalises an Import error to a small vocabulary.
func failureReason(err string) string {
	l := strings.ToLower(err)
	switch {
	case strings.Contains(l, "injected"):
		return "store-write"
	case strings.Contains(l, "context canceled"):
		return "cancelled"
	case strings.Contains(l, "failed to read network magic"), strings.Contains(l, "failed to read version"),
		strings.Contains(l, "failed to read header type"), strings.Contains(l, "failed to read start height"):
		return "truncated-or-garbage"
	case strings.Contains(l, "network"):
		return "wrong-network"
	case strings.Contains(l, "creating a gap"):
		return "gap"
	case strings.Contains(l, "header mismatch at height"):
		return "overlap-mismatch"
	case strings.Contains(l, "failed to validate header connection"), strings.Contains(l, "header chain broken"):
		return "not-connected"
	case strings.Contains(l, "failed to validate block headers"):
		return "invalid-header"
	case strings.Contains(l, "failed to validate filter headers"):
		return "invalid-filter-header"
	case strings.Contains(l, "headers count mismatch"):
		return "count-mismatch"
	case strings.Contains(l, "start height mismatch"):
		return "start-mismatch"
	case strings.Contains(l, "header type"), strings.Contains(l, "header size"):
		return "header-type"
	case strings.Contains(l, "version"):
		return "format-version"
	case strings.Contains(l, "not a multiple"), strings.Contains(l, "no headers available"),
		strings.Contains(l, "failed to read"), strings.Contains(l, "eof"):
		return "truncated-or-garbage"
	case strings.Contains(l, "mmap"), strings.Contains(l, "no such file"):
		return "io-open"
	default:
		return "other"
	}
}

// doImport calls the real entry point the way neutrino.ChainService.Start
// does and recovers a panic of the code under test.
func doImport(ctx context.Context, p *chaincfg.Params, bs headerfs.BlockHeaderStore, fs headerfs.FilterHeaderStore,
	bPath, fPath string, batch int) (err error, panicked string) {

	defer func() {
		if p := recover(); p != nil {
			panicked = fmt.Sprintf("%v\n%s", p, debug.Stack())
		}
	}()
	options := chainimport.ImportOptions{
		BlockHeadersSource:      bPath,
		FilterHeadersSource:     fPath,
		TargetChainParams:       *p,
		TargetBlockHeaderStore:  bs,
		TargetFilterHeaderStore: fs,
		WriteBatchSizePerRegion: batch,
	}
	importer, err := chainimport.NewHeadersImport(&options)
	if err != nil {
		return err, ""
	}
	_, err = importer.Import(ctx)
	return err, ""
}

func describeSnap(s *snap) string {
	return fmt.Sprintf("block store heights 0..%d, filter store heights 0..%d", s.bt(), s.ft())
}

// runCase executes one case in its own copy of the template directory.
func runCase(m *material, scratch string) (out *outcome) {
	sp := m.spec
	w := m.w
	out = &outcome{Spec: sp, Note: m.note, Params: w.name, counters: map[string]int64{}}
	dir := filepath.Join(scratch, fmt.Sprintf("case-%d", sp.Idx))
	defer os.RemoveAll(dir)
	harness := func(f string, a ...any) *outcome {
		out.Harness = fmt.Sprintf(f, a...)
		return out
	}

	if err := copyTemplate(w.tmpl, dir); err != nil {
		return harness("copy template: %v", err)
	}
	st, err := openStores(dir, m.p)
	if err != nil {
		return harness("open stores: %v", err)
	}
	closed := false
	defer func() {
		if !closed {
			st.close()
		}
	}()

	// Pre-fill through the stores' own WriteHeaders.
	if sp.BT > 0 {
		hs := make([]headerfs.BlockHeader, 0, sp.BT)
		for h := 1; h <= sp.BT; h++ {
			hs = append(hs, headerfs.BlockHeader{BlockHeader: &m.storeBlocks[h], Height: uint32(h)})
		}
		if err := st.bs.WriteHeaders(hs...); err != nil {
			return harness("prefill blocks: %v", err)
		}
	}
	if sp.FT > 0 {
		fhs := make([]headerfs.FilterHeader, 0, sp.FT)
		for h := 1; h <= sp.FT; h++ {
			fhs = append(fhs, headerfs.FilterHeader{FilterHash: w.filterHash(h, 0), Height: uint32(h)})
		}
		fhs[len(fhs)-1].HeaderHash = m.storeBlocks[sp.FT].BlockHash()
		if err := st.fs.WriteHeaders(fhs...); err != nil {
			return harness("prefill filters: %v", err)
		}
	}
	pre := readAll(st.bs, st.fs)
	if len(pre.Errs) > 0 || len(pre.Dangling) > 0 || pre.bt() != sp.BT || pre.ft() != sp.FT {
		return harness("stores wrong after prefill: %v %v tips %d/%d", pre.Errs, pre.Dangling, pre.bt(), pre.ft())
	}
	out.Before = describeSnap(pre)

	bPath, fPath, fv, err := writeFiles(dir, m, pre.Filters[0])
	if err != nil {
		return harness("write import files: %v", err)
	}
	out.File = fmt.Sprintf("block file: start height %d, %d whole header records; filter file: start height %d, %d records",
		fv.start, len(fv.blocks), fv.fstart, len(fv.filters))

	orc := &oracle{p: m.p, now: refNow, cps: m.cps}
	if len(m.cps) > 0 {
		out.File += fmt.Sprintf("; hard-coded filter-header checkpoints in force at heights %s", describeCPs(m.cps))
		out.count("filter_checkpoint_cases", 1)
		out.count("filter_checkpoints_in_force", int64(len(m.cps)))
		if len(m.p.Checkpoints) == 0 {
			out.count("filter_checkpoint_cases_without_block_checkpoints", 1)
		}
		if h := cpContradiction(m.cps, fv); h >= 0 {
			out.count("filter_checkpoint_cases_file_contradicts", 1)
		} else {
			out.count("filter_checkpoint_cases_file_agrees", 1)
		}
	}
	if len(m.p.Checkpoints) > 0 {
		out.count("cases_with_block_checkpoints", 1)
	}
	ctl := &faultCtl{op: sp.Fault, k: sp.FaultK}
	fbs := &faultBlockStore{BlockHeaderStore: st.bs, ctl: ctl}
	ffs := &faultFilterStore{FilterHeaderStore: st.fs, ctl: ctl}

	// Cancelled-context family: the first Import runs under a context that is
	// cancelled at the spec's moment (from inside wrappers of the stores); the
	// second one under a live context.
	var cxr *cancelRun
	cxPhase := ""
	unjudgedNoop := false
	call := func(pre *snap) (*importCall, *snap, importRun) {
		ctl.log = nil
		injectedBefore := ctl.injected
		var ierr error
		var panicked string
		first := out.First == nil
		if sp.Cancel != "" && first {
			cxr = newCancelRun(&sp, fbs, ffs)
			stop := cxr.startTimer()
			ierr, panicked = doImport(cxr.ctx, m.p, cxr.bs, cxr.fs, bPath, fPath, sp.Batch)
			stop()
			cxr.ctl.cancel()
			cxPhase = cxr.phase()
		} else {
			ierr, panicked = doImport(context.Background(), m.p, fbs, ffs, bPath, fPath, sp.Batch)
		}
		out.count("imports", 1)
		post := readAll(st.bs, st.fs)
		out.count("store_reads", post.reads)
		ic := &importCall{StoreCalls: ctl.log, BlockTip: post.bt(), FilterTip: post.ft(),
			ReadErrors: post.Errs, Dangling: post.Dangling}
		if sp.Cancel != "" && first {
			ic.CancelTrace = cxr.ctl.log
		}
		run := importRun{ok: ierr == nil && panicked == "", rbkFaulted: ctl.rbkFail}
		run.mustFail = mustFailReason(&sp, pre, fv, m.cps)
		if ctl.injected > injectedBefore && run.mustFail == "" {
			run.mustFail = "a store write it issued returned an error"
		}
		switch {
		case panicked != "":
			ic.Result, ic.Error = "panic", panicked
			ic.Verdicts = append(ic.Verdicts, verdict{Rule: "panic", Text: "Import panicked: " + panicked})
		case ierr != nil:
			ic.Result, ic.Error = "failure", ierr.Error()
			run.errText = ierr.Error()
		default:
			ic.Result = "success"
		}
		ic.Verdicts = append(ic.Verdicts, orc.evaluate(pre, post, fv, run)...)
		if sp.Cancel != "" {
			why := refusable(&sp, run.mustFail)
			ic.Verdicts = append(ic.Verdicts, cancelVerdicts(&sp, pre, post, why, ic.Result)...)
			if first && cxr.ctl.fired && run.ok && why != "" && sameSnap(pre, post) {
				// Import came back with nil for files it did not look at
				// (the cancelled validators report nothing) and stored
				// nothing: the statement's success clause holds vacuously
				// (the file ends inside the stores); counted, not judged.
				unjudgedNoop = true
				out.count("cancelled_import_nil_for_refusable_file_nothing_stored", 1)
				ic.Verdicts = dropRules(ic.Verdicts, "success-should-have-failed", "success-block-differs-from-file")
			}
		}
		return ic, post, run
	}

	// First import (faults armed).
	ic1, post1, run1 := call(pre)
	out.First = ic1
	if ctl.injected > 0 {
		out.count("write_failures_injected", int64(ctl.injected))
	}
	result := "fail-" + failureReason(ic1.Error)
	switch ic1.Result {
	case "success":
		out.count("successes", 1)
		result = "ok-noop"
		if post1.bt() > pre.bt() || post1.ft() > pre.ft() {
			result = "ok-extended"
		}
		// By-design sampling of the overlap: count, do not judge.
		for h := fv.start; h <= min(pre.ft(), fv.end()); h++ {
			if ff, ok := fv.filter(h); ok && h >= 0 && ff != pre.Filters[h] {
				out.count("success_with_unsampled_filter_disagreement", 1)
				break
			}
		}
	case "panic":
		result = "panic"
		out.count("panics", 1)
	default:
		out.count("failures", 1)
		out.count("failure_"+failureReason(ic1.Error), 1)
		if run1.mustFail == "" && sp.BadRule == "" {
			out.count("wellformed_input_refused", 1)
			if pre.bt() != pre.ft() {
				out.count("wellformed_input_refused_block_store_ahead", 1)
			}
		}
	}

	// Second import of the same files, no faults. Only judged when the
	// state it starts from could be read.
	ctl.disarm()
	if len(post1.Errs) == 0 && post1.Blocks != nil && post1.Filters != nil {
		ic2, post2, _ := call(post1)
		out.Second = ic2
		// A rule already reported for the first import (e.g. an invalid
		// chain that is simply still there) is not reported again.
		seen := map[string]bool{}
		for _, v := range ic1.Verdicts {
			seen[v.Rule] = true
		}
		kept := ic2.Verdicts[:0]
		for _, v := range ic2.Verdicts {
			if !seen[v.Rule] {
				kept = append(kept, v)
			}
		}
		ic2.Verdicts = kept
		out.count("second_imports", 1)
		if ic1.Result == "success" {
			if ic2.Result != "success" && unjudgedNoop {
				out.count("cancelled_noop_then_live_import_refused", 1)
			} else if ic2.Result != "success" {
				ic2.Verdicts = append(ic2.Verdicts, verdict{Rule: "repeat-failed",
					Text: "the first import succeeded, repeating it with the same files failed: " + ic2.Error})
			} else if !sameSnap(post1, post2) && len(post2.Errs) == 0 {
				ic2.Verdicts = append(ic2.Verdicts, verdict{Rule: "repeat-changed", Text: fmt.Sprintf(
					"repeating a successful import changed the stores: tips %d/%d -> %d/%d",
					post1.bt(), post1.ft(), post2.bt(), post2.ft())})
			}
		} else if ic2.Result == "success" {
			out.count("retry_after_failure_succeeded", 1)
		}
		// Reopen: what a restarted process would see.
		if len(post2.Errs) == 0 && post2.Blocks != nil && post2.Filters != nil {
			closed = true
			if err := st.close(); err != nil {
				return harness("close db: %v", err)
			}
			st2, err := openStores(dir, m.p)
			if err != nil {
				out.Reopen = append(out.Reopen, verdict{Rule: "reopen-failed",
					Text: "stores cannot be reopened after the import: " + err.Error()})
			} else {
				post3 := readAll(st2.bs, st2.fs)
				out.count("store_reads", post3.reads)
				if len(post3.Errs) > 0 || len(post3.Dangling) > len(post2.Dangling) || !sameSnap(post2, post3) {
					out.Reopen = append(out.Reopen, verdict{Rule: "reopen-differs", Text: fmt.Sprintf(
						"after reopening, the stores differ from what they held: tips %d/%d -> %d/%d errs=%v dangling=%v",
						post2.bt(), post2.ft(), post3.bt(), post3.ft(), post3.Errs, post3.Dangling)})
				}
				st2.close()
				out.count("reopens", 1)
			}
		}
	}
	out.count("headers_compared", orc.headersCompared)
	out.fingerprint = fingerprint(&sp, pre, fv, result)
	if c := cpClass(&sp, pre, fv, m.cps); c != "" {
		out.fingerprint += " cp:" + c
	}
	if sp.Cancel != "" {
		out.fingerprint += " cx:" + sp.Cancel + "/" + cxPhase + "/" + defectPos(&sp, pre)
		out.count("cancel_cases", 1)
		out.count("cancel_kind_"+sp.Cancel, 1)
		out.count("cancel_phase_"+cxPhase, 1)
		why := refusable(&sp, mustFailReason(&sp, pre, fv, m.cps))
		fired := cxr != nil && cxr.ctl.fired
		switch {
		case fired && why != "":
			out.count("cancel_fired_on_refusable_file", 1)
			if cxr.ctl.writesAtFire == 0 {
				out.count("cancel_fired_before_first_write_on_refusable_file", 1)
			}
			if ic1.Result == "failure" && failureReason(ic1.Error) == "cancelled" {
				out.count("cancel_refusable_file_import_returned_cancelled", 1)
			}
		case fired:
			out.count("cancel_fired_on_good_file", 1)
			if ic1.Result == "failure" && sameSnap(pre, post1) {
				out.count("cancel_good_file_nothing_stored", 1)
			} else if ic1.Result == "failure" && post1.ft() < fv.end() {
				out.count("cancel_good_file_partially_stored", 1)
			} else if ic1.Result == "failure" {
				out.count("cancel_good_file_completely_stored_but_failure_reported", 1)
			}
			if out.Second != nil && out.Second.Result == "success" && ic1.Result == "failure" {
				out.count("cancel_good_file_retry_succeeded", 1)
			}
		}
	}
	if len(m.cps) > 0 {
		contradicts := cpContradiction(m.cps, fv) >= 0
		switch {
		case contradicts && ic1.Result == "failure" && failureReason(ic1.Error) == "invalid-filter-header":
			out.count("filter_checkpoint_contradiction_refused", 1)
		case !contradicts && ic1.Result == "success":
			out.count("filter_checkpoint_agreeing_file_imported", 1)
		}
	}
	return out
}

// ---------------------------------------------------------------------------
// Shapes.

func rel(x, tip int) string {
	switch {
	case x == 0 && tip == 0:
		return "0=tip"
	case x == 0:
		return "0"
	case x == 1 && tip > 1:
		return "1"
	case x < tip:
		return "<tip"
	case x == tip:
		return "tip"
	case x == tip+1:
		return "tip+1"
	default:
		return "gap"
	}
}

func cmp3(a, b int) string {
	switch {
	case a < b:
		return "<"
	case a == b:
		return "="
	default:
		return ">"
	}
}

func batchClass(b, n int) string {
	switch {
	case b == 0:
		return "default"
	case b == 1:
		return "1"
	case b == 2:
		return "2"
	case b == 7:
		return "7"
	case b == n:
		return "len"
	case b > n:
		return ">len"
	case n%b == 0:
		return "divisor"
	default:
		return "other"
	}
}

func storeRel(bt, ft int) string {
	switch {
	case bt == 0:
		return "genesis"
	case bt == ft:
		return "equal"
	case bt == ft+1:
		return "block+1"
	default:
		return "block+n"
	}
}

func overlapKind(sp *Spec, pre *snap, fv *fileView) string {
	eff := min(pre.bt(), pre.ft())
	if fv.start > eff {
		return "none"
	}
	ovEnd := min(eff, fv.end())
	pos := func(h int) string {
		switch {
		case h <= fv.start:
			return "first"
		case h >= ovEnd:
			return "last"
		default:
			return "mid"
		}
	}
	if sp.StoreFork >= 0 && sp.StoreFork+1 <= pre.bt() && sp.StoreFork+1 <= fv.end() {
		return "block-disagree-" + pos(sp.StoreFork+1)
	}
	if len(sp.FilterDisagree) > 0 {
		return "filter-disagree-" + pos(sp.FilterDisagree[0])
	}
	return "agree"
}

func badClass(sp *Spec, pre *snap) string {
	if sp.Container != "" {
		return sp.Container
	}
	if sp.BadRule == "" {
		return "none"
	}
	pos := "mid"
	switch {
	case sp.BadIdx == 0:
		pos = "idx0"
	case sp.Batch > 0 && sp.BadIdx%sp.Batch == 0:
		pos = "batch-first"
	case sp.BadIdx == sp.Len-1:
		pos = "last"
	}
	where := "new"
	if sp.Start+sp.BadIdx <= pre.bt() {
		where = "overlap"
	}
	return sp.BadRule + "@" + pos + "/" + where
}

func faultClass(sp *Spec) string {
	if sp.Fault == "" {
		return "none"
	}
	k := "mid"
	if sp.FaultK == 1 {
		k = "first"
	}
	return sp.Fault + "#" + k
}

func fingerprint(sp *Spec, pre *snap, fv *fileView, result string) string {
	return fmt.Sprintf("s:%s/%s e:%s%s b:%s ov:%s bad:%s st:%s f:%s r:%s",
		rel(sp.Start, pre.ft()), rel(sp.Start, pre.bt()),
		cmp3(fv.end(), pre.ft()), cmp3(fv.end(), pre.bt()),
		batchClass(sp.Batch, sp.Len), overlapKind(sp, pre, fv), badClass(sp, pre),
		storeRel(pre.bt(), pre.ft()), faultClass(sp), result)
}

// signatureShape is the normalised shape of a failing input: what kind of
// file over what kind of stores, never concrete heights or hashes.
func signatureShape(sp *Spec) string {
	start := "start=0"
	if sp.Start > 0 {
		start = "start>0"
	}
	detail := "wellformed"
	switch {
	case sp.Container != "":
		detail = sp.Container
	case sp.BadRule != "":
		pos := "later"
		if sp.BadIdx == 0 {
			pos = "file-index-0"
		}
		detail = "invalid-" + sp.BadRule + "-at-" + pos
	case sp.StoreFork >= 0:
		detail = "block-overlap-disagrees"
	case len(sp.FilterCPs) > 0 && specContradicts(sp):
		detail = "file-contradicts-filter-checkpoint"
	case len(sp.FilterCPs) > 0:
		detail = "file-agrees-with-filter-checkpoints"
	case len(sp.FilterDisagree) > 0:
		detail = "filter-overlap-disagrees"
	}
	if len(sp.FilterCPs) > 0 || len(sp.BlockCPs) > 0 {
		if len(sp.BlockCPs) > 0 {
			detail += "+block-checkpoints"
		} else {
			detail += "+no-block-checkpoints"
		}
	}
	f := "nofault"
	if sp.Fault != "" {
		f = sp.Fault
	}
	if sp.Cancel != "" {
		f += "/context-cancelled-" + sp.Cancel
		if sp.Cancel == cxLive {
			f = "nofault/context-live"
		}
	}
	return start + "/" + storeRel(sp.BT, sp.FT) + "/" + detail + "/" + f
}

// ---------------------------------------------------------------------------
// Driver.

// Run generates the case list for the run's seed and tier, executes it on a
// worker pool and reports into r.
func Run(r *evid.Run) {
	r.Rule("cases = (chain parameters: no-retarget / retarget / min-difficulty) x (store pre-fill: both at genesis, " +
		"equal tips, block store 1 or n ahead; optionally on a side branch) x (file start relative to both tips: 0, 1, " +
		"tip-k, tip, tip+1, gap) x (file length 1..3000, ending inside / at / beyond the tips) x (write batch size: 1, 2, 7, " +
		"divisor, length, > length, default) x one of {well-formed, overlap disagreeing at first/middle/last height in " +
		"block or filter headers, one block header invalid in exactly one rule at file index 0 / first of a batch / " +
		"middle / last, a malformed container (magic, type, version, counts, start, truncation, trailing garbage, " +
		"missing file), the k-th block or filter store write failing (optionally with the rollback failing too)}. " +
		"A further family runs under 1-3 hard-coded filter-header checkpoints installed for the case's (private) network " +
		"magic, on parameters with and without block checkpoints: checkpoint heights at the file's first / middle / last " +
		"height, first or last of a write batch, in the sampled or unsampled overlap, the first new height, below or above " +
		"the file; the file's filter header there right or wrong (or stores and file agreeing with each other but not with " +
		"the checkpoint); fixed scenarios plus seeded variants. " +
		"A further family hands the FIRST Import a context that is cancelled at a chosen moment: before the call, when Import " +
		"makes its k-th read of a target store (before validation, while the validator works on its first batch, between " +
		"validation and the first write), on entering its k-th block-store write, after its k-th batch is in both stores " +
		"(between batches / after the last), from a timer, or never; over good files and files validation has to refuse (a " +
		"block header breaking one rule, a filter header contradicting a hard-coded checkpoint, a differing sampled overlap, " +
		"a gap) inside / after the first write batch or in the overlap; write batch sizes 1, 2, 4, 7, 16, default; stores " +
		"empty, overlapping the file, block store ahead; fixed scenarios plus seeded variants. Whatever Import returns, files " +
		"that validation has to refuse must leave both stores exactly as they were; a nil return must have stored the whole " +
		"file; the second Import runs under a live context. " +
		"Every case runs the real Import twice on real headerfs stores and reopens them. A case is non-trivial when " +
		"Import was invoked and both stores were read back completely before and after; its fingerprint is (start " +
		"relation to filter and block tip, end relation, batch class, overlap kind, corruption kind and position, store " +
		"relation, injected fault, result kind; for the checkpoint family also every checkpoint's position class and " +
		"whether the file agrees with it, and whether block checkpoints exist; for the cancelled-context family also the cancellation " +
		"kind, the observed position of the cancellation relative to the import's writes, and the defect's position relative to the first write batch).")
	r.Assume("hard-coded filter-header checkpoints are put in force through the study's hook chainsync.VerifSetFilterCheckpoints, once for all cases before the first import and removed after the last; each such case has its own network magic, so no other case sees them")
	r.Assume("headerfs stores' WriteHeaders/RollbackBlockHeaders are atomic when they return an error (injected failures return the error without touching the real store)")
	r.Assume("the reference header validator (internal/ref, cross-checked against btcd) defines 'valid connected chain'; its clock is fixed at 2025-01-01 and the wall clock of the machine lies between 2025-01-01 and 2089, so both clocks judge every generated timestamp alike")
	r.Assume("the stores' public read API (ChainTip, FetchHeaderByHeight, FetchHeader) reports what the stores hold")
	r.Assume("a successful import over an overlap whose filter headers differ from the stored ones at heights other than the first and last overlapping height is by design (sampled comparison) and only counted")

	if now := time.Now(); now.Before(refNow) || now.After(farFuture.Add(-24*time.Hour)) {
		r.Inconclusive("wall clock outside 2025..2089: the importer's clock and the reference clock could disagree")
		r.Finish(MinDistinct(r))
	}

	ownScratch := ""
	scratch := os.Getenv("VERIF_SCRATCH")
	if scratch == "" {
		d, err := os.MkdirTemp("", "verif-c14-")
		if err != nil {
			fmt.Fprintln(os.Stderr, "scratch:", err)
			os.Exit(2)
		}
		scratch = d
		ownScratch = d
	}

	// Worlds (generator + master chain + store template), built in parallel.
	worlds := make([]*world, len(presetNames))
	errs := make([]error, len(presetNames))
	var wg sync.WaitGroup
	for p := range presetNames {
		wg.Add(1)
		go func(p int) {
			defer wg.Done()
			worlds[p], errs[p] = newWorld(r.Seed, p, scratch)
		}(p)
	}
	wg.Wait()
	for _, err := range errs {
		if err != nil {
			fmt.Fprintln(os.Stderr, "C14 harness:", err)
			os.Exit(2)
		}
	}
	cleanup := func() {
		for _, w := range worlds {
			os.RemoveAll(w.tmpl)
		}
		if ownScratch != "" {
			os.RemoveAll(ownScratch)
		}
	}

	n := r.Pick(260, 25000)
	sg := &specGen{rng: rand.New(rand.NewSource(r.Seed)), worlds: worlds}
	verbose := false

	var specs []Spec
	switch {
	case *flagSpec != "":
		sp := Spec{StoreFork: -1, BadIdx: -1}
		if err := json.Unmarshal([]byte(*flagSpec), &sp); err != nil {
			fmt.Fprintln(os.Stderr, "bad -spec:", err)
			os.Exit(2)
		}
		specs, verbose = []Spec{sp}, true
	default:
		all := make([]Spec, 0, n)
		for i := 0; i < n; i++ {
			all = append(all, sg.gen(i))
		}
		// The filter-checkpoint family follows the rotating families
		// (indices n..): fixed scenarios, then randomised ones.
		all = append(all, cpSpecs(r.Seed, worlds, n, r.Pick(50, 2500))...)
		// The cancelled-context family follows: fixed scenarios, then
		// randomised ones.
		all = append(all, cxSpecs(r.Seed, worlds, len(all), r.Pick(52, 2500))...)
		for i, sp := range all {
			if *flagOnly >= 0 && i != *flagOnly {
				continue
			}
			specs = append(specs, sp)
		}
		verbose = *flagOnly >= 0
	}
	// Hard-coded filter-header checkpoints of the cases that have some: in
	// force (each under the case's private network magic) from before the
	// first import to after the last one.
	removeCheckpoints := installCheckpoints(specs, worlds)

	// One producer turns specs into headers (the generators are not
	// thread-safe and the case list must be a pure function of the seed);
	// workers execute.
	workers := runtime.NumCPU()
	if workers > 16 {
		workers = 16
	}
	jobs := make(chan *material, workers)
	results := make(chan *outcome, workers)
	go func() {
		for _, sp := range specs {
			w := worlds[sp.Preset%len(worlds)]
			jobs <- w.build(clamp(sp, w))
		}
		close(jobs)
	}()
	var wwg sync.WaitGroup
	for i := 0; i < workers; i++ {
		wwg.Add(1)
		go func() {
			defer wwg.Done()
			for m := range jobs {
				results <- runWithWatchdog(m, scratch)
			}
		}()
	}
	go func() { wwg.Wait(); close(results) }()

	cpSeen := int64(0)
	for out := range results {
		report(r, out, verbose)
		cpSeen += out.counters["filter_checkpoint_contradiction_refused"]
	}
	removeCheckpoints()
	cleanup()
	if !verbose && cpSeen == 0 && r.Violations() == 0 {
		r.Inconclusive("no import of a file contradicting a hard-coded filter-header checkpoint was observed being refused")
	}
	if verbose {
		return
	}
	r.Finish(MinDistinct(r))
}

// clamp keeps a (possibly hand-written) spec inside what the world's master
// chain can serve.
func clamp(sp Spec, w *world) Spec {
	top := len(w.hdrs) - 2
	sp.Preset = w.preset
	sp.BT = max(0, min(sp.BT, top-1))
	sp.FT = max(0, min(sp.FT, sp.BT))
	sp.Start = max(0, min(sp.Start, top))
	sp.Len = max(1, sp.Len)
	if sp.Start+sp.Len-1 > top {
		sp.Len = top - sp.Start + 1
	}
	if sp.StoreFork >= sp.BT {
		sp.StoreFork = -1
	}
	if sp.Batch < 0 {
		sp.Batch = 0
	}
	sp.FilterCPs = cleanHeights(sp.FilterCPs, 1, 1<<30)
	sp.FilterCPAlt = cleanHeights(sp.FilterCPAlt, 1, 1<<30)
	sp.BlockCPs = cleanHeights(sp.BlockCPs, 1, top+1)
	return sp
}

// runWithWatchdog bounds one case by a generous wall-clock watchdog (a case
// typically takes well under two seconds); a firing is inconclusive.
func runWithWatchdog(m *material, scratch string) *outcome {
	done := make(chan *outcome, 1)
	go func() { done <- runCase(m, scratch) }()
	select {
	case out := <-done:
		return out
	case <-time.After(4 * time.Minute):
		return &outcome{Spec: m.spec, Params: m.w.name, Harness: "watchdog: case did not finish in 4 minutes",
			counters: map[string]int64{}}
	}
}

func report(r *evid.Run, out *outcome, verbose bool) {
	if verbose {
		b, _ := json.MarshalIndent(out, "", " ")
		fmt.Println(string(b))
	}
	if out.Harness != "" {
		r.Inconclusive("harness: " + strings.SplitN(out.Harness, ":", 2)[0])
		if !verbose {
			fmt.Fprintf(os.Stderr, "C14 case %d: harness problem: %s\n", out.Spec.Idx, out.Harness)
		}
		return
	}
	for k, v := range out.counters {
		r.Count(k, v)
	}
	r.Case(out.fingerprint, out.First != nil)
	r.Sample(map[string]any{"case": out.Spec, "stores_before": out.Before, "file": out.File,
		"first_import": summary(out.First), "second_import": summary(out.Second)})

	shape := signatureShape(&out.Spec)
	emit := func(stage string, vs []verdict) {
		for _, v := range vs {
			r.Violation(evid.Sig(v.Rule, stage, shape), v.Text, out)
		}
	}
	if out.First != nil {
		emit("first-import", out.First.Verdicts)
	}
	if out.Second != nil {
		emit("second-import", out.Second.Verdicts)
	}
	emit("reopen", out.Reopen)
}

func summary(ic *importCall) any {
	if ic == nil {
		return nil
	}
	e := ic.Error
	if len(e) > 160 {
		e = e[:160] + "..."
	}
	return map[string]any{"result": ic.Result, "error": e, "block_tip_after": ic.BlockTip,
		"filter_tip_after": ic.FilterTip, "store_writes": len(ic.StoreCalls)}
}

var _ = chainhash.Hash{}
