package c17

import (
	"errors"
	"fmt"
	"math/rand"
	"os"
	"path/filepath"
	"regexp"
	"sort"
	"strings"
	"sync"
	"sync/atomic"
	"time"

	"github.com/btcsuite/btcd/btcutil/v2"
	"github.com/btcsuite/btcd/chainhash/v2"
	"github.com/btcsuite/btcd/rpcclient"
	"github.com/btcsuite/btcd/wire/v2"
	"github.com/lightninglabs/neutrino"
	"github.com/lightninglabs/neutrino/blockntfns"
	"github.com/lightninglabs/neutrino/headerfs"

	"verif/internal/chaingen"
	"verif/internal/evid"
	"verif/internal/l2"
	"verif/internal/netsim"
)

// Watchdogs and pacing. None of them decides a verdict by itself: a watchdog
// that fires starts the goroutine-dump argument of dump.go.
var (
	StopWatchdog  = 40 * time.Second // Stop typically returns in < 0.1 s
	CallGrace     = 15 * time.Second // blocked callers after Stop returned: typically < 10 ms
	DumpGapShort  = 3 * time.Second
	DumpGapLong   = 33 * time.Second // total span 36 s > the longest client timer (32 s)
	ChainSpan     = 150 * time.Second
	SyncDeadline  = 45 * time.Second
	TriggerWait   = 30 * time.Second
	SecondSyncMax = 45 * time.Second
)

// simPeer is a scripted peer plus the switches a scenario flips at run time.
type simPeer struct {
	*netsim.Peer
	kind      string
	muteData  atomic.Bool  // silent for getdata(block)
	muteCF    atomic.Bool  // silent for getcfilters
	delayMs   atomic.Int64 // extra delay before answering getdata / getcfilters
	txGetData atomic.Bool  // answer inv(tx) with getdata (and accept the tx silently)
	hdrBatch  atomic.Int64
	e         *env
}

type trigger struct {
	mu    sync.Mutex
	want  string
	k     int
	n     map[string]int
	ch    chan struct{}
	fired bool
}

func newTrigger() *trigger { return &trigger{n: map[string]int{}, ch: make(chan struct{})} }

func (t *trigger) arm(kind string, k int) {
	t.mu.Lock()
	t.want, t.k = kind, t.n[kind]+k
	t.mu.Unlock()
}

func (t *trigger) hit(kind string) {
	t.mu.Lock()
	t.n[kind]++
	if kind == t.want && t.n[kind] == t.k && !t.fired {
		t.fired = true
		close(t.ch)
	}
	t.mu.Unlock()
}

func (t *trigger) count(kind string) int { t.mu.Lock(); defer t.mu.Unlock(); return t.n[kind] }

// pointHook parks the goroutine that reaches the kth hit of the target pause
// point (after arming) until released.
type pointHook struct {
	mu      sync.Mutex
	hits    map[string]int
	target  string
	kth     int
	armed   bool
	cnt     int
	done    bool
	parked  chan struct{}
	release chan struct{}
}

func newPointHook() *pointHook {
	return &pointHook{hits: map[string]int{}, parked: make(chan struct{}), release: make(chan struct{})}
}

func (h *pointHook) arm(target string, kth int) {
	h.mu.Lock()
	h.target, h.kth, h.armed = target, kth, true
	h.mu.Unlock()
}

func (h *pointHook) fn(name string) {
	h.mu.Lock()
	h.hits[name]++
	park := false
	if h.armed && !h.done && name == h.target {
		h.cnt++
		if h.cnt == h.kth {
			h.done, park = true, true
		}
	}
	h.mu.Unlock()
	if park {
		close(h.parked)
		<-h.release
	}
}

func (h *pointHook) hitCounts() map[string]int {
	h.mu.Lock()
	defer h.mu.Unlock()
	out := map[string]int{}
	for k, v := range h.hits {
		out[k] = v
	}
	return out
}

// call is one public-API call made by the harness.
type call struct {
	Kind      string `json:"kind"`
	Desc      string `json:"desc,omitempty"`
	AfterStop bool   `json:"after_stop"`
	// BlockedAtStop: had not returned when Stop was called.
	BlockedAtStop bool   `json:"blocked_at_stop"`
	Returned      bool   `json:"returned"`
	Err           string `json:"err,omitempty"`
	Class         string `json:"class,omitempty"`
	Wrong         string `json:"wrong,omitempty"`
	RetAfterMs    int64  `json:"returned_ms_after_stop_returned,omitempty"`

	gid  atomic.Int64
	done chan struct{}
}

type env struct {
	p   Plan
	res *l2.Result
	w   *l2.World
	tip *chaingen.Node   // honest best tip (moves on extension / reorg)
	ext []*chaingen.Node // pre-generated extension of the trunk
	// pre-generated heavier branch forking branchDepth below the trunk tip
	branch      []*chaingen.Node
	branchDepth int32
	peers       []*simPeer
	hook        *pointHook
	trig        *trigger
	src         *neutrino.RescanChainSource

	mu    sync.Mutex
	calls []*call

	stopCalled   atomic.Bool
	stopReturned chan struct{}
	stopRetAt    time.Time

	rescanQuit chan struct{}
	flapStop   chan struct{}
	flapWg     sync.WaitGroup
	txInvSeen  atomic.Int64
	notes      []string
	api        *apiState  // peer-state API family (api.go); nil otherwise
	rsv        *resolver  // Config.NameResolver of the scenario (API family / host names); nil otherwise
	rej        *rejState  // rebroadcast-answered family (rebroad.go); nil otherwise
	pile       *pileState // pile-up family (pileup.go); nil otherwise
	pileSent   int
}

func (e *env) note(f string, a ...any) {
	e.mu.Lock()
	e.notes = append(e.notes, fmt.Sprintf("%6.2fs ", time.Since(startT).Seconds())+fmt.Sprintf(f, a...))
	e.mu.Unlock()
}

var startT = time.Now()

// ---------------------------------------------------------------------------
// peers

func (sp *simPeer) mutate(_ *netsim.Peer, req wire.Message, honest []wire.Message) []wire.Message {
	switch req.(type) {
	case *wire.MsgGetHeaders:
		if len(honest) == 1 {
			if h, ok := honest[0].(*wire.MsgHeaders); ok && len(h.Headers) > 0 {
				if hb := int(sp.hdrBatch.Load()); len(h.Headers) > hb {
					t := wire.NewMsgHeaders()
					for _, x := range h.Headers[:hb] {
						_ = t.AddBlockHeader(x)
					}
					honest = []wire.Message{t}
				}
				sp.e.trig.hit("headers")
			}
		}
	case *wire.MsgGetCFCheckpt:
		// Fixed multi-worker scenarios: no filter checkpoints are served
		// until the client holds ALL block headers, so that the checkpointed
		// fetch then runs as ONE round of several batches on several peers.
		if sp.e.p.HoldCFUntilHeaders {
			if _, h, err := sp.e.w.Svc.BlockHeaders.ChainTip(); err != nil || int(h) < sp.e.p.ChainLen {
				return nil
			}
		}
	case *wire.MsgGetCFHeaders:
		if ps := sp.e.pile; ps != nil {
			// Pile-up family: as below until all block headers are in; then
			// the answers of the multi-batch round wait behind the gate (by
			// then a reorganisation may have taken the block header tip back).
			if !ps.hasStarted() {
				if _, h, err := sp.e.w.Svc.BlockHeaders.ChainTip(); err != nil || int(h) < sp.e.p.ChainLen {
					return nil
				}
			}
			if g, ok := req.(*wire.MsgGetCFHeaders); ok && len(honest) > 0 {
				ps.onGetCFHeaders(g)
			}
			return honest
		}
		if sp.e.p.HoldCFUntilHeaders {
			// Same steering for the first filter-header batch: answered only
			// once all block headers are in (the client re-asks after its
			// query timeout).
			if _, h, err := sp.e.w.Svc.BlockHeaders.ChainTip(); err != nil || int(h) < sp.e.p.ChainLen {
				return nil
			}
			// The batch the filter-header goroutine can write next is
			// answered at once, the later ones a little later: they then
			// arrive while it is parked in that write.
			if g, ok := req.(*wire.MsgGetCFHeaders); ok && g.StartHeight > 2001 {
				time.Sleep(25 * time.Millisecond)
			}
		}
		if len(honest) > 0 {
			sp.e.trig.hit("cfheaders")
		}
	case *wire.MsgGetData:
		if sp.muteData.Load() {
			return nil
		}
		if d := sp.delayMs.Load(); d > 0 {
			time.Sleep(time.Duration(d) * time.Millisecond)
		}
	case *wire.MsgGetCFilters:
		if sp.muteCF.Load() {
			return nil
		}
		if d := sp.delayMs.Load(); d > 0 {
			time.Sleep(time.Duration(d) * time.Millisecond)
		}
	}
	return honest
}

func (sp *simPeer) onMsg(_ *netsim.Peer, m wire.Message) bool {
	if rs := sp.e.rej; rs != nil {
		return rs.onMsg(sp, m)
	}
	inv, ok := m.(*wire.MsgInv)
	if !ok {
		return false
	}
	gd := wire.NewMsgGetData()
	for _, iv := range inv.InvList {
		if iv.Type == wire.InvTypeTx || iv.Type == wire.InvTypeWitnessTx {
			_ = gd.AddInvVect(iv)
		}
	}
	if len(gd.InvList) == 0 {
		return false
	}
	sp.e.txInvSeen.Add(1)
	if sp.txGetData.Load() && !sp.Silent.Load() {
		_ = sp.Send(gd)
	}
	return true
}

func (e *env) addPeers() {
	for _, kind := range e.p.Peers {
		np := e.w.AddPeer(e.tip)
		sp := &simPeer{Peer: np, kind: kind, e: e}
		sp.hdrBatch.Store(int64(e.p.HdrBatch))
		np.Mutate = sp.mutate
		np.OnMsg = sp.onMsg
		switch kind {
		case PSlow:
			np.Delay = time.Duration(10+e.w.Rng.Intn(30)) * time.Millisecond
		case PSilent:
			np.Silent.Store(true)
		case PNoRead:
			np.NoRead.Store(true)
		}
		e.peers = append(e.peers, sp)
	}
}

func (e *env) startFlappers() {
	e.flapStop = make(chan struct{})
	for _, sp := range e.peers {
		if sp.kind != PFlap {
			continue
		}
		sp := sp
		period := time.Duration(150+e.w.Rng.Intn(250)) * time.Millisecond
		e.flapWg.Add(1)
		go func() {
			defer e.flapWg.Done()
			t := time.NewTicker(period)
			defer t.Stop()
			for {
				select {
				case <-e.flapStop:
					return
				case <-t.C:
					sp.Disconnect()
				}
			}
		}()
	}
}

func (e *env) stopFlappers() {
	if e.flapStop != nil {
		close(e.flapStop)
		e.flapWg.Wait()
		e.flapStop = nil
	}
}

// mute switches the peers' behaviour right before the in-flight calls start.
func (e *env) mute(how string) {
	for _, sp := range e.peers {
		switch how {
		case "silent":
			sp.Silent.Store(true)
		case "noread":
			sp.NoRead.Store(true)
		case "filters":
			sp.muteCF.Store(true)
		case "blocks":
			sp.muteData.Store(true)
		case "delay":
			sp.delayMs.Store(int64(700 + e.w.Rng.Intn(900)))
		}
	}
}

// allHonest makes every peer a plain honest peer at the best tip and drops
// all connections (for the second client).
func (e *env) allHonest() {
	e.w.Net.ConnCap = 0
	for _, sp := range e.peers {
		sp.Silent.Store(false)
		sp.NoRead.Store(false)
		sp.muteCF.Store(false)
		sp.muteData.Store(false)
		sp.delayMs.Store(0)
		sp.hdrBatch.Store(2000)
		sp.View.SetTip(e.tip)
		e.w.Net.Refuse(sp.Addr, false)
		sp.Disconnect()
	}
}

func (e *env) setTip(n *chaingen.Node) {
	e.tip = n
	for _, sp := range e.peers {
		sp.View.SetTip(n)
	}
}

// announce makes the answering peers announce nodes (a connected run of
// headers ending at the current tip).
func (e *env) announce(style string, ns ...*chaingen.Node) {
	for _, sp := range e.peers {
		if sp.Conn() == nil || sp.Silent.Load() || sp.NoRead.Load() {
			continue
		}
		if style == "inv" {
			sp.AnnounceInv(ns[len(ns)-1])
		} else {
			sp.AnnounceHeaders(ns...)
		}
	}
}

func (e *env) rx(cmd string) int {
	n := 0
	for _, sp := range e.peers {
		n += sp.RxCount(cmd)
	}
	return n
}

// ---------------------------------------------------------------------------
// calls

var hexRe = regexp.MustCompile(`[0-9a-f]{16,}`)
var numRe = regexp.MustCompile(`\d+`)

func classOf(err error) string {
	if err == nil {
		return "nil"
	}
	s := err.Error()
	s = hexRe.ReplaceAllString(s, "H")
	s = numRe.ReplaceAllString(s, "N")
	if len(s) > 90 {
		s = s[:90]
	}
	return s
}

func (e *env) launch(kind, desc string, fn func() (error, string)) *call {
	c := &call{Kind: kind, Desc: desc, done: make(chan struct{})}
	select {
	case <-e.stopReturned:
		c.AfterStop = true
	default:
	}
	e.mu.Lock()
	e.calls = append(e.calls, c)
	e.mu.Unlock()
	go runCall(e, c, fn)
	return c
}

// runCall is a named function so that the goroutine is recognisable in dumps.
func runCall(e *env, c *call, fn func() (error, string)) {
	c.gid.Store(int64(CurGID()))
	err, wrong := fn()
	e.mu.Lock()
	c.Returned = true
	if err != nil {
		c.Err = err.Error()
	}
	c.Class = classOf(err)
	c.Wrong = wrong
	select {
	case <-e.stopReturned:
		c.RetAfterMs = time.Since(e.stopRetAt).Milliseconds()
	default:
	}
	e.mu.Unlock()
	close(c.done)
}

func (c *call) isDone() bool {
	select {
	case <-c.done:
		return true
	default:
		return false
	}
}

func (e *env) block(h int32) *chaingen.Node { return e.tip.Ancestor(h) }

func (e *env) randHeight() int32 {
	// among the blocks the client has headers for when synced
	return 1 + int32(e.w.Rng.Intn(int(e.tip.Height)))
}

func (e *env) callGetBlock(h int32) {
	n := e.block(h)
	e.launch(CGetBlock, fmt.Sprintf("height %d", h), func() (error, string) {
		b, err := e.w.Svc.GetBlock(n.Hash)
		return err, checkBlock(b, err, n.Hash)
	})
}

func checkBlock(b *btcutil.Block, err error, want chainhash.Hash) string {
	if err != nil {
		return ""
	}
	if b == nil {
		return "GetBlock returned a nil block and a nil error"
	}
	// Not b.Hash(): it caches lazily inside the block, and GetBlock hands the
	// same *btcutil.Block out of its cache to every caller.
	if b.MsgBlock().BlockHash() != want {
		return "GetBlock returned a different block than requested"
	}
	return ""
}

// loopGetBlock keeps fetching random blocks until a call fails.
func (e *env) loopGetBlock() {
	rng := newRng(e.p.Seed + int64(len(e.calls)))
	tip := e.tip
	e.launch(CBlockLoop, "random heights until an error", func() (error, string) {
		for i := 0; ; i++ {
			n := tip.Ancestor(1 + int32(rng.Intn(int(tip.Height))))
			b, err := e.w.Svc.GetBlock(n.Hash)
			if w := checkBlock(b, err, n.Hash); w != "" {
				return err, w
			}
			if err != nil {
				return fmt.Errorf("after %d good results: %w", i, err), ""
			}
			if e.servedLocally() {
				return fmt.Errorf("after %d good results: still served locally after Stop returned", i), ""
			}
		}
	})
}

// servedLocally ends a fetch loop once Stop has returned: a stopped client
// may keep answering from its caches and database for ever (each call
// returns; that is the rule), so "until an error" is no end for the loop.
func (e *env) servedLocally() bool {
	select {
	case <-e.stopReturned:
		return true
	default:
		return false
	}
}

func (e *env) loopGetCFilter() {
	rng := newRng(e.p.Seed + 77)
	tip := e.tip
	e.launch(CCFLoop, "random heights until an error", func() (error, string) {
		for i := 0; ; i++ {
			n := tip.Ancestor(1 + int32(rng.Intn(int(tip.Height))))
			f, err := e.w.Svc.GetCFilter(n.Hash, wire.GCSFilterRegular)
			if err == nil && f == nil {
				return err, "GetCFilter returned a nil filter and a nil error"
			}
			if err != nil {
				return fmt.Errorf("after %d good results: %w", i, err), ""
			}
			if e.servedLocally() {
				return fmt.Errorf("after %d good results: still served locally after Stop returned", i), ""
			}
		}
	})
}

func newRng(seed int64) *rand.Rand { return rand.New(rand.NewSource(seed)) }

// floodInv makes every never-reading peer announce unknown blocks: the
// client answers each with a getheaders (block locator, several hundred
// bytes) that the peer never reads, until the connection buffer is full and
// the client's write to that peer blocks.
func (e *env) floodInv() {
	if e.w.Net.ConnCap == 0 {
		return
	}
	n := e.w.Net.ConnCap/200 + 4
	for i := 0; i < n; i++ {
		for _, sp := range e.peers {
			if !sp.NoRead.Load() || sp.Conn() == nil {
				continue
			}
			var h chainhash.Hash
			e.w.Rng.Read(h[:])
			inv := wire.NewMsgInv()
			_ = inv.AddInvVect(wire.NewInvVect(wire.InvTypeBlock, &h))
			_ = sp.Send(inv)
		}
		time.Sleep(8 * time.Millisecond)
	}
}

func (e *env) callGetCFilter(h int32) {
	n := e.block(h)
	e.launch(CGetCF, fmt.Sprintf("height %d", h), func() (error, string) {
		f, err := e.w.Svc.GetCFilter(n.Hash, wire.GCSFilterRegular)
		if err == nil && f == nil {
			return err, "GetCFilter returned a nil filter and a nil error"
		}
		return err, ""
	})
}

type utxoSpec struct {
	in     neutrino.InputWithScript
	height int32
}

// findUtxos lists outputs paying to the generator's keys on the path to tip.
func (e *env) findUtxos(max int) []utxoSpec {
	ours := map[string]bool{}
	for _, k := range e.w.G.Keys() {
		ours[string(k.P2WPKH)] = true
		ours[string(k.P2PKH)] = true
	}
	var out []utxoSpec
	path := e.tip.Path()
	for _, n := range path[1:] {
		for _, tx := range n.Block.Transactions {
			for i, o := range tx.TxOut {
				if ours[string(o.PkScript)] {
					out = append(out, utxoSpec{
						in:     neutrino.InputWithScript{OutPoint: wire.OutPoint{Hash: tx.TxHash(), Index: uint32(i)}, PkScript: o.PkScript},
						height: n.Height,
					})
				}
			}
		}
	}
	e.w.Rng.Shuffle(len(out), func(i, j int) { out[i], out[j] = out[j], out[i] })
	if len(out) > max {
		out = out[:max]
	}
	return out
}

func (e *env) callGetUtxo(u utxoSpec) {
	n := e.block(u.height)
	e.launch(CGetUtxo, fmt.Sprintf("created at height %d", u.height), func() (error, string) {
		rep, err := e.w.Svc.GetUtxo(
			neutrino.WatchInputs(u.in),
			neutrino.StartBlock(&headerfs.BlockStamp{Height: n.Height, Hash: n.Hash}),
		)
		if err == nil && rep == nil {
			return err, "GetUtxo reported 'not found' (nil report, nil error) for an output that exists on the stored chain at its start height"
		}
		return err, ""
	})
}

func (e *env) makeTx() *wire.MsgTx {
	us := e.w.G.Utxos(e.tip)
	tx := wire.NewMsgTx(2)
	if len(us) > 0 {
		u := us[e.w.Rng.Intn(len(us))]
		in := wire.NewTxIn(&u.Op, nil, wire.TxWitness{make([]byte, 71), make([]byte, 33)})
		tx.AddTxIn(in)
		tx.AddTxOut(wire.NewTxOut(u.Value-1000, u.Script))
	} else {
		tx.AddTxIn(wire.NewTxIn(&wire.OutPoint{Index: 1}, nil, nil))
		tx.AddTxOut(wire.NewTxOut(1000, []byte{0x51}))
	}
	tx.LockTime = uint32(e.w.Rng.Int31())
	return tx
}

func (e *env) callSendTx(tx *wire.MsgTx) *call {
	return e.launch(CSendTx, "", func() (error, string) {
		return e.w.Svc.SendTransaction(tx), ""
	})
}

// startRescan starts a rescan and the three observers: the error channel,
// WaitForShutdown and (when withUpdate) a pending Update.
func (e *env) startRescan(startH int32, watch bool, withUpdate bool) *neutrino.Rescan {
	n := e.block(startH)
	opts := []neutrino.RescanOption{
		neutrino.QuitChan(e.rescanQuit),
		neutrino.StartBlock(&headerfs.BlockStamp{Height: n.Height, Hash: n.Hash}),
		neutrino.NotificationHandlers(rpcclient.NotificationHandlers{
			OnFilteredBlockConnected:    func(int32, *wire.BlockHeader, []*btcutil.Tx) {},
			OnFilteredBlockDisconnected: func(int32, *wire.BlockHeader) {},
		}),
	}
	us := e.findUtxos(6)
	if watch && len(us) > 0 {
		var ins []neutrino.InputWithScript
		for _, u := range us[:(len(us)+1)/2] {
			ins = append(ins, u.in)
		}
		opts = append(opts, neutrino.WatchInputs(ins...))
	}
	r := neutrino.NewRescan(e.src, opts...)
	errCh := r.Start()
	e.launch(CRescanErr, fmt.Sprintf("from height %d watch=%v", startH, watch), func() (error, string) {
		err := <-errCh
		if err == nil {
			return nil, "the rescan ended with a nil error although it has no end block"
		}
		return err, ""
	})
	e.launch(CRescanWt, "", func() (error, string) {
		r.WaitForShutdown()
		return errors.New("returned (rescan goroutine ended)"), ""
	})
	if withUpdate {
		var upd []neutrino.UpdateOption
		if len(us) > 0 {
			upd = append(upd, neutrino.AddInputs(us[len(us)-1].in))
		}
		e.launch(CRescanUpd, "", func() (error, string) {
			return r.Update(upd...), ""
		})
	}
	return r
}

// subscribeRead subscribes and keeps a reader blocked on the channel.
func (e *env) subscribeRead(from uint32, readNow bool, kind string) {
	e.launch(kind, fmt.Sprintf("from height %d, reading=%v", from, readNow), func() (error, string) {
		sub, err := e.src.Subscribe(from)
		if err != nil {
			return err, ""
		}
		if !readNow {
			<-e.stopReturned
		}
		n := 0
		for range sub.Notifications {
			n++
		}
		return fmt.Errorf("channel closed after %d notifications", n), ""
	})
}

// subscribeHistory makes several direct subscriptions one after the other,
// cancels some of the OLDER ones while newer ones stay alive, makes more, and
// keeps a reader blocked on EVERY live one: each of them must see its channel
// closed once Stop returned (caller-blocked rule). The oldest subscription of
// the first group is always cancelled and its newest never, so every history
// has a later subscription registered after an older one left; how many, which
// and from where vary with the scenario's random stream.
func (e *env) subscribeHistory(kind string) {
	nA := 2 + e.w.Rng.Intn(3)
	mask := e.w.Rng.Intn(1<<(nA-1)) | 1
	nB := 1 + e.w.Rng.Intn(3)
	var froms []uint32
	for i := 0; i < nA+nB; i++ {
		f := uint32(0)
		if e.w.Rng.Intn(3) == 0 && e.tip != nil && e.tip.Height > 2 {
			f = uint32(e.tip.Height - 1 - int32(e.w.Rng.Intn(2)))
		}
		froms = append(froms, f)
	}
	e.res.Count("subscription_histories_with_an_older_subscription_cancelled_before_a_later_one", 1)
	read := func(sub *blockntfns.Subscription) (error, string) {
		n := 0
		for range sub.Notifications {
			n++
		}
		return fmt.Errorf("channel closed after %d notifications", n), ""
	}
	e.launch(kind, fmt.Sprintf("history: %d subscriptions (from %v), cancel mask %b of them, then %d more; reading the newest", nA, froms[:nA], mask, nB), func() (error, string) {
		var live []*blockntfns.Subscription
		for i := 0; i < nA; i++ {
			sub, err := e.src.Subscribe(froms[i])
			if err != nil {
				return err, ""
			}
			live = append(live, sub)
		}
		var kept []*blockntfns.Subscription
		for i, sub := range live {
			if i < nA-1 && mask&(1<<i) != 0 {
				sub.Cancel()
			} else {
				kept = append(kept, sub)
			}
		}
		for i := 0; i < nB; i++ {
			sub, err := e.src.Subscribe(froms[nA+i])
			if err != nil {
				return err, ""
			}
			kept = append(kept, sub)
		}
		for i, sub := range kept[:len(kept)-1] {
			sub := sub
			e.launch(kind, fmt.Sprintf("live subscription %d of %d of a history", i+1, len(kept)), func() (error, string) { return read(sub) })
		}
		return read(kept[len(kept)-1])
	})
}

// ---------------------------------------------------------------------------
// the hang argument

type hangInfo struct {
	Stuck    bool     `json:"stuck"`
	Why      string   `json:"why"`
	Frames   []string `json:"frames_of_blocked_call,omitempty"`
	Census   []string `json:"client_goroutines,omitempty"`
	Events   int64    `json:"network_events_during_observation"`
	SpanS    float64  `json:"observation_span_s"`
	Parked   string   `json:"parked_in,omitempty"`
	Spinning bool     `json:"spinning"`
	Outer    string   `json:"public_call,omitempty"`
	SeenIn   []string `json:"call_seen_in,omitempty"`
	WaitsFor string   `json:"waits_for,omitempty"`
}

// hangArgument observes the process after a watchdog fired: a first dump, one
// DumpGapShort later, then every DumpGapShort until DumpGapShort+DumpGapLong
// have passed. done aborts it (the awaited call returned after all).
//
//	Stuck: nothing moved over the whole span (deadlock).
//	Spinning (only judged when full is set, i.e. for calls observed after
//	  Stop has RETURNED, when every subsystem of the client is stopped and
//	  nothing can change the answers a caller gets): the goroutine of the
//	  call was inside client code in every dump, goroutines did move, but
//	  not a single message was exchanged with any peer over the span.
//	otherwise inconclusive. Without full the observation ends at the first
//	sign of movement.
func (e *env) hangArgument(gid int, alt string, done <-chan struct{}, full bool) (returned bool, hi hangInfo) {
	self := CurGID()
	t0 := time.Now()
	ev0 := e.w.Log.Len()
	a := ParseDump(DumpAll())
	if g := a[gid]; alt != "" && (g == nil || g.InnerClientFrame() == "none") {
		// The call only receives from a channel: look at the client goroutine
		// that is supposed to serve it.
		for id, x := range a {
			if x.Has(alt) {
				gid = id
				break
			}
		}
	}
	if g := a[gid]; g != nil {
		hi.Frames = g.Top(14)
		hi.Parked = g.InnerClientFrame()
		hi.WaitsFor = waitsFor(a, g)
		hi.Outer = g.OuterClientFrame()
	}
	hi.Census = CensusList(a)
	seen := map[string]bool{hi.Parked: true}
	moved := ""
	alive := a[gid] != nil
	prev := a
	for time.Since(t0) < DumpGapShort+DumpGapLong {
		select {
		case <-done:
			hi.Why = "returned during the observation"
			hi.SpanS = time.Since(t0).Seconds()
			return true, hi
		case <-time.After(DumpGapShort):
		}
		b := ParseDump(DumpAll())
		hi.SpanS = time.Since(t0).Seconds()
		hi.Events = e.w.Log.Len() - ev0
		if g := b[gid]; g != nil {
			seen[g.InnerClientFrame()] = true
		} else {
			alive = false
		}
		if why := Progress(prev, b, self); why != "" && moved == "" {
			moved = why
		}
		if why := Progress(a, b, self); why != "" && moved == "" {
			moved = why
		}
		prev = b
		if !full && (moved != "" || hi.Events != 0) {
			break
		}
	}
	var frames []string
	for f := range seen {
		frames = append(frames, f)
	}
	sort.Strings(frames)
	hi.SeenIn = frames
	switch {
	case moved == "" && hi.Events == 0:
		hi.Stuck = true
		hi.Why = fmt.Sprintf("over %.0f s (longer than every timer of the client) the call stayed parked in the same frames, every goroutine running client code stayed parked in the same frames, none was runnable, none was created or ended, and no message was exchanged with any peer; all harness pause points were released", hi.SpanS)
	case full && alive && hi.Events == 0:
		hi.Spinning = true
		hi.Parked = "in-" + hi.Outer
		hi.Why = fmt.Sprintf("Stop had returned (every subsystem of the client is stopped), yet over %.0f s the call was inside client code in every one of the dumps taken every %.0f s (seen in: %s), goroutines kept moving (%s) and not a single message was exchanged with any peer: it retries against a stopped client", hi.SpanS, DumpGapShort.Seconds(), strings.Join(frames, ", "), moved)
	case hi.Events != 0:
		hi.Why = fmt.Sprintf("still moving: %d network events (%s)", hi.Events, moved)
	default:
		hi.Why = "still moving: " + moved
	}
	return false, hi
}

// chainArgument is the second stage for a Stop that has not returned while
// other parts of the client are still moving (a partial deadlock: Stop stops
// the subsystems in order, so one that cannot be stopped leaves the later ones
// running). It watches only Stop's goroutine and the goroutines of the
// subsystem it is parked in (waitsFor's set) for ChainSpan, which is longer
// than every timer of the client (32 s x batches query ceiling, 105 s header
// stall, 120 s ping). Stuck: in every dump Stop and each of those goroutines
// had exactly the same frames, none was runnable, and in the last dump the Go
// runtime itself reports each of them as continuously blocked on the same
// operation for at least two minutes.
func (e *env) chainArgument(gid int, done <-chan struct{}) (returned bool, stuck bool, why string, set []string) {
	t0 := time.Now()
	a := ParseDump(DumpAll())
	g0 := a[gid]
	if g0 == nil {
		return false, false, "Stop goroutine not found", nil
	}
	recv := recvRe.FindString(g0.InnerClientFrame())
	if recv == "" {
		return false, false, "no receiver in " + g0.InnerClientFrame(), nil
	}
	chain := map[int]string{gid: g0.Key()}
	for id, g := range a {
		if g != g0 && g.IsClient() && g.Has(recv) && !strings.Contains(g.InnerClientFrame(), ".Stop.func") {
			chain[id] = g.Key()
			set = append(set, fmt.Sprintf("goroutine %d [%s] %s", id, g.State, g.InnerClientFrame()))
		}
	}
	sort.Strings(set)
	if len(chain) == 1 {
		return false, false, "no goroutine of " + recv + " left to wait for", set
	}
	var last map[int]*G
	for time.Since(t0) < ChainSpan {
		select {
		case <-done:
			return true, false, "returned during the observation", set
		case <-time.After(DumpGapShort):
		}
		last = ParseDump(DumpAll())
		for id, key := range chain {
			g := last[id]
			switch {
			case g == nil:
				return false, false, fmt.Sprintf("goroutine %d ended", id), set
			case g.Key() != key:
				return false, false, fmt.Sprintf("goroutine %d moved to %s", id, g.InnerClientFrame()), set
			case g.State == "running" || g.State == "runnable":
				return false, false, fmt.Sprintf("goroutine %d is %s", id, g.State), set
			}
		}
	}
	for id := range chain {
		if last[id].WaitMin < 2 {
			return false, false, fmt.Sprintf("goroutine %d reported blocked for %d min only", id, last[id].WaitMin), set
		}
	}
	return false, true, fmt.Sprintf("over a further %.0f s (longer than every timer of the client) Stop and the %d goroutine(s) of %s it waits for stayed parked in exactly the same frames in every dump (one every %.0f s), none was ever runnable, and the Go runtime reports each of them as continuously blocked on the same operation for at least 2 minutes; all harness pause points were released; the rest of the client kept running because Stop never got to the subsystems it stops later",
		time.Since(t0).Seconds(), len(chain)-1, recv, DumpGapShort.Seconds()), set
}

var recvRe = regexp.MustCompile(`\(\*?[A-Za-z0-9_\[\]\.]+\)`)

// waitsFor names where the other goroutines of the subsystem the blocked call
// is parked in are parked (e.g. Stop parked in (*UtxoScanner).Stop while the
// scanner's batch goroutine sits in (*ChainService).GetBlock).
func waitsFor(d map[int]*G, blocked *G) string {
	recv := recvRe.FindString(blocked.InnerClientFrame())
	if recv == "" {
		return "?"
	}
	set := map[string]bool{}
	for _, g := range d {
		if g == blocked || !g.IsClient() || !g.Has(recv) {
			continue
		}
		if f := g.InnerClientFrame(); !strings.Contains(f, ".Stop.func") {
			set[f] = true
		}
	}
	var out []string
	for k := range set {
		out = append(out, k)
	}
	sort.Strings(out)
	if len(out) == 0 {
		return "nothing-of-" + recv
	}
	if len(out) > 3 {
		out = out[:3]
	}
	return strings.Join(out, ",")
}

// ---------------------------------------------------------------------------

// callStop is a named function so that the Stop goroutine is recognisable.
func callStop(svc *neutrino.ChainService, gid *atomic.Int64, ch chan<- error) {
	gid.Store(int64(CurGID()))
	ch <- svc.Stop()
}

// Scenario is the l2.ScenarioFunc of the check.
func Scenario(seed int64, k int, res *l2.Result) {
	Run(PlanFromSeed(seed, k), res)
}

// ExtraScenario is scenario j of the third list (extraplan.go).
func ExtraScenario(seed int64, j int, res *l2.Result) {
	Run(ExtraPlanFromSeed(seed, j), res)
}

// APIScenario is scenario j of the peer-state API family (apiplan.go).
func APIScenario(seed int64, j int, res *l2.Result) {
	Run(APIPlanFromSeed(seed, j), res)
}

// Outcome parts of the fingerprint.
type outcome struct {
	stop    string // ok | late | hang | slow
	callers string
	reopen  string
}

// Run executes one plan.
func Run(p Plan, res *l2.Result) {
	res.Name = fmt.Sprintf("c17-%d-%s", p.K, p.State)
	e := &env{p: p, res: res, hook: newPointHook(), trig: newTrigger(),
		stopReturned: make(chan struct{}), rescanQuit: make(chan struct{})}
	oc := outcome{stop: "not-called", callers: "-", reopen: "-"}
	reached := false
	defer func() {
		res.Fingerprint = fmt.Sprintf("%s|%s|mute=%s|calls=%s|stop=%s callers=%s reopen=%s",
			p.State, p.PeerMix(), orDash(p.MuteAtStop), p.InflightKinds(), oc.stop, oc.callers, oc.reopen)
		if p.API != nil {
			res.Fingerprint += fmt.Sprintf("|api=%s callers=%s", p.API.Mode(), bucket(p.API.Callers))
			e.reportAPI(reached && oc.stop != "not-called")
		}
		if p.Names != nil {
			res.Fingerprint += "|names=" + p.Names.Shape()
			e.reportNames(reached && oc.stop != "not-called")
		}
		if p.Rej != nil {
			res.Fingerprint += fmt.Sprintf("|rebroadcast=%s answer=%s", p.Rej.Expect(), answerBucket(p.Rej.AnswerMs))
			e.reportRebroadAns(reached && oc.stop != "not-called")
		}
		if p.Pile != nil {
			res.Fingerprint += fmt.Sprintf("|pileup %s outstanding=%s", p.Pile.Shape(), bucket(e.pileSent))
		}
		res.Nontrivial = reached && oc.stop != "not-called"
		res.Count("state/"+p.State, 1)
		if reached {
			res.Count("state_reached/"+p.State, 1)
		}
		for name, n := range e.hook.hitCounts() {
			res.Count("point_hits/"+name, int64(n))
		}
		e.mu.Lock()
		res.Sample = map[string]any{"plan": p, "calls": e.calls, "notes": e.notes, "fingerprint": res.Fingerprint}
		e.mu.Unlock()
	}()

	spacing, span := int64(4), spanFor(p.ChainLen)
	if p.HoldCFUntilHeaders {
		// A genesis block older than 24 h: the client is not current when its
		// filter-header goroutine starts, so that goroutine takes the
		// checkpointed (work-manager, several workers) path rather than
		// leaving it to a start-up race.
		spacing = 16
		span = time.Duration(int64(p.ChainLen+400)*spacing) * time.Second
	}
	w := l2.NewWorld(l2.Config{Seed: p.Seed, Preset: p.Preset, Interval: 4 + int(p.Seed%11), SpacingSec: spacing,
		GenesisAgo: span})
	e.w = w
	defer w.Cleanup()
	w.Net.ConnCap = p.ConnCap
	trunk := w.G.Extend(w.G.Genesis, p.ChainLen, chaingen.PaceNormal)
	e.tip = trunk[len(trunk)-1]
	// Everything the scenario will ever serve is generated BEFORE the client
	// starts: the generator's maps are not safe for extension while peers
	// answer requests from them.
	e.ext = w.G.Extend(e.tip, 2, 0)
	if p.ReorgDepth > 0 {
		d := int32(p.ReorgDepth)
		if d >= e.tip.Height {
			d = e.tip.Height - 1
		}
		f := e.tip.Ancestor(e.tip.Height - d)
		br := w.G.Extend(f, int(d)+1, 0)
		for i := 0; i < 6 && br[len(br)-1].CumWork.Cmp(e.tip.CumWork) <= 0; i++ {
			br = append(br, w.G.Extend(br[len(br)-1], 1, 0)...)
		}
		e.branch, e.branchDepth = br, d
	}
	e.addPeers()
	copts := l2.ClientOpts{PersistToDisk: p.Persist, BlockCache: p.BlockCache}
	var connect []string // nil = every registered peer
	if p.API != nil || p.Names != nil {
		e.rsv = newResolver(e)
		copts.NameResolver = e.rsv.lookup
		for _, sp := range e.peers {
			connect = append(connect, sp.Addr)
		}
	}
	if p.API != nil {
		connect = e.setupAPI()
		// Whatever way the scenario ends: no lookup stays held, no caller
		// keeps running.
		defer func() { e.api.res.open(); e.api.endCallers() }()
	}
	if p.Names != nil {
		// The reachable peers as before (IP literals) plus the host names.
		connect = e.setupNames(connect)
	}
	if p.Rej != nil {
		e.rej = newRejState(e)
		copts.BroadcastTimeout = time.Duration(p.Rej.BroadcastTimeoutMs) * time.Millisecond
		// An exported knob of the client, set before the client exists (this
		// process runs one scenario).
		neutrino.QueryRejectTimeout = time.Duration(p.Rej.RejectTimeoutMs) * time.Millisecond
		// Whatever way the scenario ends: no peer reaction stays held.
		defer func() { e.rej.open(); e.rej.wg.Wait() }()
	}
	if p.Pile != nil {
		e.pile = newPileState(e)
		// Whatever way the scenario ends: no answer stays held.
		defer func() { e.pile.openFirst(); e.pile.openGate() }()
	}
	neutrino.VerifSetPointHook(e.hook.fn)
	defer neutrino.VerifSetPointHook(nil)

	witness := func(extra map[string]any) any {
		e.mu.Lock()
		defer e.mu.Unlock()
		m := map[string]any{"plan": p, "calls": e.calls, "notes": append([]string(nil), e.notes...),
			"event_log_tail": w.Log.Tail(40)}
		if ns := e.rsv.nameStats(); len(ns) > 0 {
			m["permanent_peer_name_lookups"] = ns
		}
		for k, v := range extra {
			m[k] = v
		}
		return m
	}

	// Arm what must be armed before the client starts.
	if p.MidSync() {
		switch p.State {
		case StHdrSync:
			e.trig.arm("headers", p.KTh)
		case StCFCkpt, StCFTip:
			e.trig.arm("cfheaders", p.KTh)
		case StStarted:
		default:
			e.hook.arm(p.Point(), p.KTh)
		}
	}

	// The first peer is reached first (it becomes the sync peer).
	for _, sp := range e.peers[1:] {
		w.Net.Refuse(sp.Addr, true)
	}
	if err := w.StartClient(connect, copts); err != nil {
		res.Inconcl("client start failed: " + err.Error())
		return
	}
	e.src = &neutrino.RescanChainSource{ChainService: w.Svc}
	go func() {
		l2.WaitFor(3*time.Second, func() bool { return e.peers[0].RxCount("getheaders") > 0 })
		for _, sp := range e.peers[1:] {
			w.Net.Refuse(sp.Addr, false)
		}
	}()
	e.startFlappers()
	defer e.stopFlappers()

	parkedPoint := false
	waitTrigger := func(ch <-chan struct{}, what string) bool {
		select {
		case <-ch:
			e.note("trigger: %s", what)
			return true
		case <-time.After(TriggerWait):
			e.note("trigger NOT reached: %s", what)
			res.Count("trigger_missed/"+p.State, 1)
			return false
		}
	}

	if p.State == StStarted {
		// Either right after Start returned, or right after the first peer's
		// handshake (the filter-header goroutine starts then), plus 0-3 ms.
		if p.KTh%2 == 0 {
			select {
			case <-e.peers[0].Ready:
			case <-time.After(5 * time.Second):
			}
		}
		time.Sleep(time.Duration(w.Rng.Intn(3000)) * time.Microsecond)
		reached = true
		e.note("just started")
	} else if p.Pile != nil {
		reached, parkedPoint = e.setupPile()
	} else if p.MidSync() {
		if p.Point() != "" {
			reached = waitTrigger(e.hook.parked, "parked at "+p.Point())
			parkedPoint = reached
		} else {
			reached = waitTrigger(e.trig.ch, fmt.Sprintf("%d-th %s message", p.KTh, e.trig.want))
		}
		if reached && len(p.Inflight) > 0 {
			e.mute(p.MuteAtStop)
			e.startInflight(true)
		}
	} else {
		if !l2.WaitFor(SyncDeadline, func() bool { return w.SyncedTo(e.tip) }) {
			res.Inconcl("initial sync not reached before the scenario's stop state could be set up")
			e.note("initial sync not reached: %+v", w.Sample())
			// Still stop (uncounted) so that the child ends cleanly.
			_, _ = w.StopClient(60 * time.Second)
			return
		}
		e.note("synced to %d", e.tip.Height)
		reached, parkedPoint = e.setupPostSync()
	}

	// Peer-state API family: the callers and the designated call whose
	// lookup is held inside the peer handler start now.
	gateHeld := false
	if p.API != nil && reached {
		if !e.startAPI() {
			reached = false
		}
		gateHeld = e.api.gateHeld
	}

	// --- Stop -------------------------------------------------------------
	if reached {
		e.awaitRetries()
	}
	if p.Rej != nil && reached && p.Rej.AnswerMs < 0 {
		// The peers' reactions race with Stop.
		e.rej.open()
		e.note("peers react to the re-announced transaction")
	}
	if p.StopDelayMs > 0 {
		time.Sleep(time.Duration(p.StopDelayMs) * time.Millisecond)
	}
	if p.ConnCap > 0 {
		if !p.MidSync() {
			e.floodInv()
		}
		d := ParseDump(DumpAll())
		n := CountWhere(d, "peer.(*Peer).outHandler", "netsim.(*half).write")
		res.Count("outhandlers_blocked_on_full_send_buffer_at_stop", int64(n))
	}
	e.mu.Lock()
	for _, c := range e.calls {
		if !c.isDone() {
			c.BlockedAtStop = true
		}
	}
	e.mu.Unlock()
	var stopGid atomic.Int64
	stopCh := make(chan error, 1)
	e.stopCalled.Store(true)
	tCall := time.Now()
	go callStop(w.Svc, &stopGid, stopCh)
	e.note("Stop called")
	stopDone := make(chan struct{})
	var stopErr error
	go func() { stopErr = <-stopCh; close(stopDone) }()
	tFrom := tCall
	// What the harness holds is released a planned time after CALLING Stop
	// (a parked pause point, a held name lookup; in the order of their times).
	type release struct {
		ms int
		fn func()
	}
	var rels []release
	if parkedPoint {
		rels = append(rels, release{p.ReleaseMs, func() {
			select {
			case <-stopDone:
				// Stop did not need the parked goroutine: fine as well.
				res.Count("stop_returned_while_point_parked", 1)
			default:
			}
			close(e.hook.release)
			res.Count("points_parked/"+p.Point(), 1)
			e.note("pause point released")
		}})
	}
	if gateHeld {
		rels = append(rels, release{p.API.GateReleaseMs, func() {
			select {
			case <-stopDone:
				res.Count("stop_returned_while_lookup_held", 1)
			default:
			}
			e.api.res.open()
			e.note("held lookup answered")
		}})
	}
	if p.Rej != nil && reached && p.Rej.AnswerMs >= 0 {
		rels = append(rels, release{p.Rej.AnswerMs, func() {
			select {
			case <-stopDone:
				res.Count("stop_returned_while_rebroadcast_unanswered", 1)
			default:
				res.Count("rebroadcast_answered/released_while_stop_ran", 1)
			}
			e.rej.open()
			e.note("peers react to the re-announced transaction")
		}})
	}
	sort.SliceStable(rels, func(i, j int) bool { return rels[i].ms < rels[j].ms })
	for _, rl := range rels {
		if d := time.Until(tCall.Add(time.Duration(rl.ms) * time.Millisecond)); d > 0 {
			time.Sleep(d)
		}
		rl.fn()
		tFrom = time.Now()
	}
	late := false
	select {
	case <-stopDone:
	case <-time.After(StopWatchdog):
		e.note("Stop watchdog fired")
		// The application callers end (each finishes the call it is in, or
		// stays parked in it) before the process is observed.
		e.quiesceAPI(3 * time.Second)
		returned, hi := e.hangArgument(int(stopGid.Load()), "", stopDone, false)
		if !returned {
			oc.stop = "slow"
			if hi.Stuck {
				oc.stop = "hang"
				res.Violate(evid.Sig("stop-hang", hi.Parked, "waits-for="+hi.WaitsFor),
					fmt.Sprintf("Stop (state %s, in flight %s, peers %s) has not returned %.0f s after it was called: parked in %s while %s; %s",
						p.State, p.InflightKinds(), p.PeerMix(), time.Since(tFrom).Seconds(), hi.Parked, hi.WaitsFor, hi.Why+e.stopContext()),
					witness(map[string]any{"hang": hi}))
			} else {
				e.note("slow stop: %s; parked %s waits for %s", hi.Why, hi.Parked, hi.WaitsFor)
				ret2, stuck, why, set := e.chainArgument(int(stopGid.Load()), stopDone)
				switch {
				case stuck:
					oc.stop = "hang"
					hi.Why = why
					res.Violate(evid.Sig("stop-hang", hi.Parked, "waits-for="+hi.WaitsFor),
						fmt.Sprintf("Stop (state %s, in flight %s, peers %s) has not returned %.0f s after it was called: parked in %s while %s; %s",
							p.State, p.InflightKinds(), p.PeerMix(), time.Since(tFrom).Seconds(), hi.Parked, hi.WaitsFor, why+e.stopContext()),
						witness(map[string]any{"hang": hi, "waits_for_goroutines": set}))
				case ret2:
					res.Inconcl("Stop returned only during the second observation (Stop was parked in " + hi.Parked + ")")
				default:
					res.Inconcl("Stop not returned after the watchdog but the client was " + strings.SplitN(hi.Why, ":", 2)[0] + " (Stop parked in " + hi.Parked + "; " + why + ")")
				}
			}
			res.Count("stop_not_returned", 1)
			close(e.rescanQuit)
			return
		}
		late = true
	}
	lat := time.Since(tFrom)
	e.mu.Lock()
	e.stopRetAt = time.Now()
	e.mu.Unlock()
	close(e.stopReturned)
	if e.api != nil {
		e.api.endCallers()
	}
	oc.stop = "ok"
	if late {
		oc.stop = "late"
		res.Count("stop_returned_after_watchdog", 1)
	}
	_ = stopErr
	res.Count("stop_returned", 1)
	res.Count("stop_latency_ms_sum", lat.Milliseconds())
	writeLatency(p.K, lat)
	e.note("Stop returned after %v", lat)
	e.stopFlappers()

	// --- (2) callers --------------------------------------------------------
	stuckCalls := e.awaitCalls(false, witness)
	e.startAfterStop()
	stuckCalls += e.awaitCalls(true, witness)
	oc.callers = e.summarise()
	close(e.rescanQuit)
	if stuckCalls > 0 {
		oc.reopen = "skipped"
		return
	}

	// --- (3) reopen ---------------------------------------------------------
	if w.DB != nil {
		_ = w.DB.Close()
		w.DB = nil
	}
	oc.reopen = e.reopen(witness)
}

// stopContext describes, for the text of a Stop violation, what the harness
// saw of the scenario's special dimensions while Stop ran (observations only).
func (e *env) stopContext() string {
	out := ""
	if e.p.Names != nil && e.rsv != nil {
		b, d, a := e.rsv.failedLookups()
		out += fmt.Sprintf("; permanent peers given as host names: %s; their lookups failed %d times before Stop was called and %d times since", e.p.Names.Shape(), b, d+a)
	}
	if e.p.Rej != nil && e.rej != nil {
		out += fmt.Sprintf("; the peers reacted to the re-announced transaction %d ms after Stop was called (planned outcome %s; %d requests, %d rejects sent)",
			e.p.Rej.AnswerMs, e.p.Rej.Expect(), e.rej.getdata.Load(), e.rej.rejects.Load())
	}
	return out
}

func orDash(s string) string {
	if s == "" {
		return "-"
	}
	return s
}

func spanFor(n int) time.Duration {
	span := time.Duration(n+400) * 6 * time.Second
	if span < 2*time.Hour {
		span = 2 * time.Hour
	}
	if span > 20*time.Hour {
		span = 20 * time.Hour
	}
	return span
}

func writeLatency(k int, d time.Duration) {
	dir := filepath.Join(l2.Scratch(), "c17-lat")
	if os.Getenv("VERIF_SCRATCH") == "" {
		return
	}
	_ = os.MkdirAll(dir, 0o755)
	_ = os.WriteFile(filepath.Join(dir, fmt.Sprintf("%d", k)), []byte(fmt.Sprint(d.Microseconds())), 0o644)
}

func has(xs []string, k string) bool {
	for _, s := range xs {
		if s == k {
			return true
		}
	}
	return false
}

// startInflight starts the planned calls. early = the client is still in its
// initial sync (only low heights are known to it).
func (e *env) startInflight(early bool) {
	p := e.p
	height := func() int32 {
		if early {
			m := int32(40)
			if e.tip.Height < m {
				m = e.tip.Height
			}
			return 1 + int32(e.w.Rng.Intn(int(m)))
		}
		return e.randHeight()
	}
	for _, kind := range p.Inflight {
		switch kind {
		case CGetBlock:
			for i := 0; i < p.NCalls; i++ {
				e.callGetBlock(height())
			}
		case CGetCF:
			for i := 0; i < p.NCalls; i++ {
				e.callGetCFilter(height())
			}
		case CGetUtxo:
			for _, u := range e.findUtxos(p.NCalls) {
				e.callGetUtxo(u)
			}
		case CSendTx:
			e.callSendTx(e.makeTx())
		case CCFLoop:
			e.loopGetCFilter()
		case CBlockLoop:
			e.loopGetBlock()
		case CRescanErr:
			switch p.State {
			case StRescanCU, StRescanRT, StRescanCur:
				// set up by setupPostSync
			default:
				start := int32(0)
				if !early && e.w.Rng.Intn(2) == 0 {
					start = e.tip.Height
				}
				e.startRescan(start, true, true)
			}
		case CSubRead:
			e.subscribeRead(0, true, CSubRead)
			e.subscribeHistory(CSubRead)
		case CSubscribe:
			if p.State == StSubs {
				e.subscribeRead(1, false, CSubscribe)
			}
		}
	}
}

// setupPostSync brings the synced client into the plan's state. It returns
// whether the state was reached and whether a pause point is parked.
func (e *env) setupPostSync() (reached, parked bool) {
	p, w := e.p, e.w
	hold := func() { time.Sleep(time.Duration(p.HoldMs) * time.Millisecond) }
	waitRx := func(cmd string, base int, d time.Duration) bool {
		return l2.WaitFor(d, func() bool { return e.rx(cmd) > base })
	}
	switch p.State {
	case StIdle:
		e.startInflight(false)
		time.Sleep(time.Duration(e.w.Rng.Intn(200)) * time.Millisecond)
		return true, false

	case ptPrefix + PtRBBetween, ptPrefix + PtRBAfter, ptPrefix + PtReorgAfter:
		if len(p.Inflight) > 0 {
			e.mute(p.MuteAtStop)
			e.startInflight(false)
		}
		br, d := e.branch, e.branchDepth
		e.hook.arm(p.Point(), p.KTh)
		e.setTip(br[len(br)-1])
		// One unsolicited headers message carrying the whole branch: its
		// first header builds on a stored block, so the client takes the
		// reorganisation path (rollBackToHeight) if the branch is heavier.
		e.announce("headers", br...)
		select {
		case <-e.hook.parked:
			e.note("parked at %s inside a reorganisation of depth %d", p.Point(), d)
			e.res.Count("reorgs_parked", 1)
			return true, true
		case <-time.After(TriggerWait):
			e.note("pause point %s not reached by the reorganisation", p.Point())
			e.res.Count("trigger_missed/"+p.State, 1)
			return false, false
		}

	case ptPrefix + PtCFWait:
		// The filter-header goroutine sleeps at the tip. One new block wakes
		// it; having committed that block's filter header it goes back to
		// sleep, and is parked just before it does.
		e.hook.arm(p.Point(), 1)
		nb := e.ext[:1]
		e.setTip(nb[0])
		e.announce("headers", nb...)
		select {
		case <-e.hook.parked:
			return true, true
		case <-time.After(TriggerWait):
			e.res.Count("trigger_missed/"+p.State, 1)
			return false, false
		}

	case ptPrefix + PtNtfnTip:
		e.hook.arm(p.Point(), 1)
		from := uint32(1 + e.w.Rng.Intn(int(e.tip.Height)))
		e.launch(CSubscribe, fmt.Sprintf("from height %d (handler parked at ntfn.afterTip)", from), func() (error, string) {
			sub, err := e.src.Subscribe(from)
			if err != nil {
				return err, ""
			}
			n := 0
			for range sub.Notifications {
				n++
			}
			return fmt.Errorf("channel closed after %d notifications", n), ""
		})
		select {
		case <-e.hook.parked:
			return true, true
		case <-time.After(TriggerWait):
			e.res.Count("trigger_missed/"+p.State, 1)
			return false, false
		}

	case StStorm:
		base := e.rx("getdata")
		for i := 0; i < p.NCalls; i++ {
			e.loopGetBlock()
		}
		e.loopGetCFilter()
		ok := l2.WaitFor(5*time.Second, func() bool { return e.rx("getdata") > base+p.NCalls })
		hold()
		e.res.Count("storm_getdata_answered_before_stop", int64(e.rx("getdata")-base))
		return ok, false

	case StQueries, StUnresp, StNoRead:
		e.mute(p.MuteAtStop)
		b1, b2 := e.rx("getdata"), e.rx("getcfilters")
		e.startInflight(false)
		if p.MuteAtStop != "noread" {
			l2.WaitFor(3*time.Second, func() bool { return e.rx("getdata") > b1 || e.rx("getcfilters") > b2 })
		}
		hold()
		return true, false

	case StNoPeers:
		for _, sp := range e.peers {
			w.Net.Refuse(sp.Addr, true)
		}
		for _, sp := range e.peers {
			sp.Disconnect()
		}
		if !l2.WaitFor(10*time.Second, func() bool { return w.Svc.ConnectedCount() == 0 }) {
			e.note("peers still connected: %d", w.Svc.ConnectedCount())
			return false, false
		}
		e.note("no peer connected")
		e.startInflight(false)
		hold()
		return true, false

	case StUtxo:
		e.mute(p.MuteAtStop)
		b1, b2 := e.rx("getdata"), e.rx("getcfilters")
		e.startInflight(false)
		ok := l2.WaitFor(5*time.Second, func() bool { return e.rx("getdata") > b1 || e.rx("getcfilters") > b2 })
		hold()
		return ok, false

	case StBroadcast:
		e.startInflight(false)
		waitRx("inv", 0, 3*time.Second)
		hold()
		return true, false

	case StRebroadAns:
		return e.setupRebroadAns(), false

	case StRebroad:
		// First broadcast is taken by the peers (getdata, tx accepted
		// silently); then the peers stop asking, a block arrives, and the
		// rebroadcast of the still unconfirmed transaction is in flight.
		for _, sp := range e.peers {
			sp.txGetData.Store(true)
		}
		first := e.callSendTx(e.makeTx())
		select {
		case <-first.done:
		case <-time.After(15 * time.Second):
			e.note("first broadcast still pending")
		}
		for _, sp := range e.peers {
			sp.txGetData.Store(false)
		}
		base := e.txInvSeen.Load()
		nb := e.ext[:1]
		e.setTip(nb[0])
		e.announce(p.Announce, nb...)
		ok := l2.WaitFor(10*time.Second, func() bool { return e.txInvSeen.Load() > base })
		if ok {
			e.res.Count("rebroadcast_in_flight_at_stop", 1)
		}
		e.callSendTx(e.makeTx())
		hold()
		return ok, false

	case StSubs:
		e.startInflight(false)
		// A few notifications in flight as well.
		time.Sleep(100 * time.Millisecond)
		nb := e.ext[:1+e.w.Rng.Intn(2)]
		e.setTip(nb[len(nb)-1])
		e.announce("headers", nb...)
		time.Sleep(time.Duration(e.w.Rng.Intn(300)) * time.Millisecond)
		return true, false

	case StRescanCur:
		subs := e.hook.hitCounts()[PtNtfnTip]
		e.startRescan(e.tip.Height, true, true)
		ok := l2.WaitFor(5*time.Second, func() bool { return e.hook.hitCounts()[PtNtfnTip] > subs })
		time.Sleep(time.Duration(e.w.Rng.Intn(200)) * time.Millisecond)
		return ok, false

	case StRescanCU:
		e.mute(p.MuteAtStop)
		base := e.rx("getcfilters")
		e.startRescan(0, true, true)
		ok := waitRx("getcfilters", base, 5*time.Second)
		hold()
		return ok, false

	case StRescanRT:
		subs := e.hook.hitCounts()[PtNtfnTip]
		rs := e.startRescan(e.tip.Height, true, false)
		if !l2.WaitFor(5*time.Second, func() bool { return e.hook.hitCounts()[PtNtfnTip] > subs }) {
			return false, false
		}
		e.mute("filters")
		base := e.rx("getcfilters")
		nb := e.ext[:1+e.w.Rng.Intn(2)]
		e.setTip(nb[len(nb)-1])
		e.announce("headers", nb...)
		ok := waitRx("getcfilters", base, 10*time.Second)
		// An Update now finds the rescan busy inside handleBlockConnected.
		e.launch(CRescanUpd, "while the rescan retries a block", func() (error, string) {
			return rs.Update(), ""
		})
		hold()
		if ok && p.HoldMs > 6000 {
			e.res.Count("rescan_in_later_retry_at_stop", 1)
		}
		return ok, false
	}
	return false, false
}

// awaitCalls waits (CallGrace) for the calls of one phase and applies the hang
// argument to those that have not returned. It returns the number of calls
// judged blocked forever.
func (e *env) awaitCalls(after bool, witness func(map[string]any) any) int {
	e.mu.Lock()
	var cs []*call
	for _, c := range e.calls {
		if c.AfterStop == after {
			cs = append(cs, c)
		}
	}
	e.mu.Unlock()
	deadline := time.After(CallGrace)
	var pending []*call
	for _, c := range cs {
		select {
		case <-c.done:
		case <-deadline:
			deadline = time.After(0)
			pending = append(pending, c)
		}
	}
	stuck := 0
	var smu sync.Mutex
	var owg sync.WaitGroup
	for _, c := range pending {
		if c.isDone() {
			continue
		}
		c := c
		owg.Add(1)
		// All pending calls are observed over the same span.
		go func() {
			defer owg.Done()
			alt := ""
			if c.Kind == CRescanErr {
				alt = "neutrino.(*Rescan).Start.func"
			}
			returned, hi := e.hangArgument(int(c.gid.Load()), alt, c.done, true)
			smu.Lock()
			defer smu.Unlock()
			if returned {
				e.res.Count("call_returned_after_grace/"+c.Kind, 1)
				return
			}
			rule := "caller-blocked-after-stop"
			what := "was in flight when Stop was called and"
			if after {
				rule = "call-after-stop-blocks"
				what = "was made after Stop had returned and"
			}
			if hi.Spinning {
				rule += "(spinning)"
			}
			stuck++ // also when inconclusive: do not reopen underneath a running call
			if hi.Stuck || hi.Spinning {
				e.res.Violate(evid.Sig(rule, c.Kind, hi.Parked),
					fmt.Sprintf("%s (%s) %s has not returned %.0f s after Stop returned: parked in %s; %s",
						c.Kind, c.Desc, what, time.Since(e.stopRetAt).Seconds(), hi.Parked, hi.Why),
					witness(map[string]any{"hang": hi}))
			} else {
				e.res.Inconcl(fmt.Sprintf("%s not returned after the grace period but the client was %s", c.Kind, strings.SplitN(hi.Why, ":", 2)[0]))
			}
		}()
	}
	owg.Wait()
	// Results of the returned ones.
	e.mu.Lock()
	defer e.mu.Unlock()
	for _, c := range cs {
		if !c.Returned {
			continue
		}
		phase := "in_flight"
		if after {
			phase = "after_stop"
		}
		e.res.Count(fmt.Sprintf("ret/%s/%s/%s", phase, c.Kind, c.Class), 1)
		if !after {
			if c.BlockedAtStop {
				e.res.Count("blocked_callers_released/"+c.Kind, 1)
			} else {
				e.res.Count("calls_completed_before_stop/"+c.Kind, 1)
			}
		}
		if c.Wrong != "" {
			e.res.Violate(evid.Sig("wrong-result-without-error", c.Kind, phase),
				fmt.Sprintf("%s (%s, %s): %s", c.Kind, c.Desc, phase, c.Wrong), witness(nil))
		}
		if after && c.Err == "" {
			switch {
			case c.Kind == CGetBlock || c.Kind == CGetCF:
				// served from a cache: a valid result without the network
				e.res.Count("after_stop_served_from_cache/"+c.Kind, 1)
			case strings.HasPrefix(c.Kind, apiKind):
				// no shutdown error in these signatures; returning is the rule
			case c.Kind == CStopAgain || c.Kind == CStartAfterStop:
				// start-state family: a repeated Stop / a Start after Stop
				// report nothing by design; returning is the rule
			default:
				e.res.Violate(evid.Sig("accepted-after-stop", c.Kind),
					fmt.Sprintf("%s made after Stop had returned reported success", c.Kind), witness(nil))
			}
		}
	}
	return stuck
}

// startAfterStop makes one call of every kind after Stop has returned.
func (e *env) startAfterStop() {
	h := e.randHeight()
	e.callGetBlock(h)
	e.callGetCFilter(e.randHeight())
	if us := e.findUtxos(1); len(us) > 0 {
		e.callGetUtxo(us[0])
	}
	e.callSendTx(e.makeTx())
	n := e.block(e.randHeight())
	r := neutrino.NewRescan(e.src, neutrino.QuitChan(e.rescanQuit),
		neutrino.StartBlock(&headerfs.BlockStamp{Height: n.Height, Hash: n.Hash}),
		neutrino.NotificationHandlers(rpcclient.NotificationHandlers{
			OnFilteredBlockConnected: func(int32, *wire.BlockHeader, []*btcutil.Tx) {},
		}))
	errCh := r.Start()
	e.launch(CRescanErr, "started after Stop", func() (error, string) {
		return <-errCh, ""
	})
	e.launch(CSubscribe, "after Stop", func() (error, string) {
		_, err := e.src.Subscribe(0)
		return err, ""
	})
	if e.api != nil {
		e.apiSweep()
	}
}

func (e *env) summarise() string {
	e.mu.Lock()
	defer e.mu.Unlock()
	rel, first, stuck, wrong := 0, 0, 0, 0
	for _, c := range e.calls {
		switch {
		case !c.Returned:
			stuck++
		case c.Wrong != "":
			wrong++
		case c.AfterStop:
		case c.BlockedAtStop:
			rel++
		default:
			first++
		}
	}
	b := func(n int) string {
		switch {
		case n == 0:
			return "0"
		case n == 1:
			return "1"
		}
		return "n"
	}
	return fmt.Sprintf("released:%s,done-first:%s,stuck:%s,wrong:%s", b(rel), b(first), b(stuck), b(wrong))
}
