package c17

import (
	"errors"
	"fmt"
	"math/rand"
	"net"
	"runtime"
	"sort"
	"strings"
	"sync"
	"sync/atomic"
	"time"

	"github.com/lightninglabs/neutrino"
	"github.com/lightninglabs/neutrino/banman"
)

// Call kinds of the peer-state API family (all carry the prefix apiKind: the
// peer-state API has no error to report a shutdown with, so the rule "a call
// made after Stop reports an error" is not applied to them; that they RETURN
// is).
const (
	apiKind     = "API."
	CAPILoop    = apiKind + "loop"
	CAPIGated   = apiKind + "gated:"
	CAPISweep   = apiKind + "after-stop-sweep"
	apiOpBudget = 60 // calls with a lasting effect (connection requests, bans) per scenario
	apiOpsMax   = 400000
)

// resolver is the Config.NameResolver of the scenario's client. IP literals
// resolve to themselves (what net.LookupIP does). Names are scripted; the
// lookup of gateHost is held until release is closed.
type resolver struct {
	gateHost   string
	gateResult string
	gateArmed  atomic.Bool
	entered    chan struct{}
	release    chan struct{}
	relOnce    sync.Once
	slowMs     int
	hosts      map[string]string // name -> ip | "!" (error) | "" (no addresses)
	spareIP    string
	seq        atomic.Int64
	// Host names among the client's permanent peers (names.go).
	e        *env
	perm     map[string]*permName
	permList []*permName
	permMs   int

	lookups        atomic.Int64
	inHandler      atomic.Int64 // lookups made on the client's peer-handler goroutine
	gateInHandler  atomic.Bool
	nameLookups    atomic.Int64
	slowLookups    atomic.Int64
	slowInProgress atomic.Int64
}

// onPeerHandler reports whether the calling goroutine is the client's peer
// handler (evidence only).
func onPeerHandler() bool {
	var pcs [48]uintptr
	n := runtime.Callers(2, pcs[:])
	fr := runtime.CallersFrames(pcs[:n])
	for {
		f, more := fr.Next()
		if strings.HasSuffix(f.Function, "(*ChainService).peerHandler") {
			return true
		}
		if !more {
			return false
		}
	}
}

func (r *resolver) answer(kind string) ([]net.IP, error) {
	switch kind {
	case LookSpare:
		return []net.IP{net.ParseIP(r.spareIP)}, nil
	case LookUnknown:
		return []net.IP{net.ParseIP("10.77.1.1")}, nil
	case LookEmpty:
		return nil, nil
	}
	return nil, errors.New("lookup: no such host")
}

func (r *resolver) lookup(host string) ([]net.IP, error) {
	r.lookups.Add(1)
	on := onPeerHandler()
	if on {
		r.inHandler.Add(1)
	}
	if host == r.gateHost && r.gateArmed.CompareAndSwap(true, false) {
		r.gateInHandler.Store(on)
		close(r.entered)
		<-r.release
		return r.answer(r.gateResult)
	}
	if ip := net.ParseIP(host); ip != nil {
		return []net.IP{ip}, nil
	}
	if pn := r.perm[host]; pn != nil {
		ip, empty, fail := r.lookupPerm(pn)
		switch {
		case fail:
			return nil, errors.New("lookup " + host + ": no such host")
		case empty:
			return nil, nil
		}
		return []net.IP{net.ParseIP(ip)}, nil
	}
	r.nameLookups.Add(1)
	name := host
	if strings.HasPrefix(name, "slow-") {
		name = strings.TrimPrefix(name, "slow-")
		if r.slowMs > 0 {
			r.slowLookups.Add(1)
			r.slowInProgress.Add(1)
			d := 1 + int(r.seq.Add(1)*7919%int64(r.slowMs))
			time.Sleep(time.Duration(d) * time.Millisecond)
			r.slowInProgress.Add(-1)
		}
	}
	ip, ok := r.hosts[name]
	switch {
	case !ok || ip == "!":
		return nil, errors.New("lookup " + host + ": no such host")
	case ip == "":
		return nil, nil
	}
	return []net.IP{net.ParseIP(ip)}, nil
}

func (r *resolver) open() { r.relOnce.Do(func() { close(r.release) }) }

// newResolver is the resolver of a scenario before anything is scripted: IP
// literals resolve to themselves, every name is unknown.
func newResolver(e *env) *resolver {
	return &resolver{e: e, hosts: map[string]string{}, perm: map[string]*permName{},
		entered: make(chan struct{}), release: make(chan struct{})}
}

func hostOf(addr string) string {
	if h, _, err := net.SplitHostPort(addr); err == nil {
		return h
	}
	return addr
}

// apiState is the run-time part of the family.
type apiState struct {
	res      *resolver
	quit     chan struct{} // closed when the callers shall end (Stop returned / watchdog)
	quitOnce sync.Once
	wg       sync.WaitGroup
	budget   atomic.Int64
	warm     atomic.Int64 // callers that made their first calls
	gateHeld bool

	mu       sync.Mutex
	ops      map[string]int64 // op -> calls
	rets     map[string]int64 // op/class -> calls
	straddle int64            // calls that began before Stop was called and returned after
	during   int64            // calls that began while Stop was running
	sweep    []string         // op=class of the calls made after Stop returned
	hosts    []string         // host names known to the resolver (with ports)
	existing []string
	spares   []string
	unknown  []string
}

func (a *apiState) endCallers() { a.quitOnce.Do(func() { close(a.quit) }) }

// setupAPI adds the spare peers and scripts the resolver (before the client
// starts). It returns the addresses the client is configured with.
func (e *env) setupAPI() (connect []string) {
	ap := e.p.API
	a := &apiState{quit: make(chan struct{}), ops: map[string]int64{}, rets: map[string]int64{}}
	a.budget.Store(apiOpBudget)
	e.api = a
	for _, sp := range e.peers {
		connect = append(connect, sp.Addr)
		a.existing = append(a.existing, sp.Addr)
	}
	hosts := map[string]string{"nx.sim": "!", "void.sim": "", "ghost.sim": "10.77.1.1"}
	for i, sp := range e.peers {
		hosts[fmt.Sprintf("peer%d.sim", i)] = hostOf(sp.Addr)
	}
	for i := 0; i < ap.Spares; i++ {
		np := e.w.AddPeer(e.tip)
		sp := &simPeer{Peer: np, kind: "spare", e: e}
		sp.hdrBatch.Store(int64(e.p.HdrBatch))
		np.Mutate = sp.mutate
		np.OnMsg = sp.onMsg
		e.peers = append(e.peers, sp)
		a.spares = append(a.spares, sp.Addr)
		hosts[fmt.Sprintf("spare%d.sim", i)] = hostOf(sp.Addr)
	}
	for i := 0; i < 6; i++ {
		a.unknown = append(a.unknown, fmt.Sprintf("10.77.2.%d:18444", 1+i))
	}
	for h := range hosts {
		a.hosts = append(a.hosts, h+":18444", h)
	}
	sort.Strings(a.hosts)
	r := e.rsv
	r.hosts, r.slowMs, r.gateResult = hosts, ap.SlowLookupMs, ap.GateResult
	if len(a.spares) > 0 {
		r.spareIP = hostOf(a.spares[0])
	} else {
		r.spareIP = "10.77.1.2"
	}
	if ap.Gate != GateNone {
		r.gateHost = hostOf(ap.GateTarget)
		r.gateArmed.Store(true)
	}
	a.res = r
	return connect
}

func lenClass(n int, isNil bool) string {
	switch {
	case isNil:
		return "nil"
	case n == 0:
		return "empty"
	}
	return "some"
}

func (e *env) pickAddr(rng *rand.Rand) string {
	a := e.api
	switch rng.Intn(4) {
	case 0:
		if len(a.spares) > 0 {
			return a.spares[rng.Intn(len(a.spares))]
		}
	case 1:
		return a.unknown[rng.Intn(len(a.unknown))]
	}
	return a.existing[rng.Intn(len(a.existing))]
}

// apiOp makes one call and returns the class of its result.
func (e *env) apiOp(rng *rand.Rand, op string) string {
	svc, a := e.w.Svc, e.api
	errc := func(err error) string { return classOf(err) }
	lasting := func() bool { return a.budget.Add(-1) >= 0 }
	switch op {
	case OpConnCount:
		if svc.ConnectedCount() > 0 {
			return ">0"
		}
		return "0"
	case OpPeers:
		ps := svc.Peers()
		return lenClass(len(ps), ps == nil)
	case OpPeerByAddr:
		if svc.PeerByAddr(e.pickAddr(rng)) != nil {
			return "found"
		}
		return "nil"
	case OpAdded:
		ps := svc.AddedNodeInfo()
		return lenClass(len(ps), ps == nil)
	case OpGroupCount:
		if svc.OutboundGroupCount(pick(rng, "10.2.0.0", "10.77.0.0", "")) > 0 {
			return ">0"
		}
		return "0"
	case OpForAll:
		svc.ForAllPeers(func(sp *neutrino.ServerPeer) { _ = sp.Addr() })
		return "returned"
	case OpConnPeers:
		ch, cancel, err := svc.ConnectedPeers()
		if err != nil {
			return errc(err)
		}
		n := len(ch)
		cancel()
		return "subscribed/" + lenClass(n, false)
	case OpIsBanned:
		if svc.IsBanned(e.pickAddr(rng)) {
			return "banned"
		}
		return "not-banned"
	case OpConnect:
		if !lasting() {
			return e.instead(rng, OpPeers)
		}
		return errc(svc.ConnectNode(e.pickAddr(rng), rng.Intn(3) == 0))
	case OpConnectHost:
		h := a.hosts[rng.Intn(len(a.hosts))]
		if e.p.API.SlowLookupMs > 0 && rng.Intn(4) != 0 {
			h = "slow-" + h
		}
		// Lookups that fail leave nothing behind: not budgeted.
		if !strings.Contains(h, "nx.sim") && !strings.Contains(h, "void.sim") && !lasting() {
			h = pick(rng, "nx.sim:18444", "void.sim")
			if e.p.API.SlowLookupMs > 0 {
				h = "slow-" + h
			}
		}
		return errc(svc.ConnectNode(h, rng.Intn(3) == 0))
	case OpRemoveAddr:
		if !lasting() {
			return e.instead(rng, OpAdded)
		}
		return errc(svc.RemoveNodeByAddr(e.pickAddr(rng)))
	case OpDiscAddr:
		if !lasting() {
			return e.instead(rng, OpConnCount)
		}
		return errc(svc.DisconnectNodeByAddr(e.pickAddr(rng)))
	case OpRemoveID, OpDiscID:
		if !lasting() {
			return e.instead(rng, OpPeers)
		}
		id := int32(rng.Intn(12))
		if ps := svc.Peers(); len(ps) > 0 && rng.Intn(2) == 0 {
			id = ps[rng.Intn(len(ps))].ID()
		}
		if op == OpRemoveID {
			return errc(svc.RemoveNodeByID(id))
		}
		return errc(svc.DisconnectNodeByID(id))
	case OpBan:
		// Only addresses no peer lives at: a ban outlives the restart.
		if !lasting() {
			return e.instead(rng, OpIsBanned)
		}
		return errc(svc.BanPeer(a.unknown[rng.Intn(len(a.unknown))], banman.ExceededBanThreshold))
	case OpUnban:
		if !lasting() {
			return e.instead(rng, OpIsBanned)
		}
		return errc(svc.UnbanPeer(a.unknown[rng.Intn(len(a.unknown))], rng.Intn(3) == 0))
	}
	return "?"
}

// instead makes a read-only call in place of one with a lasting effect once
// the scenario's budget for those is spent.
func (e *env) instead(rng *rand.Rand, op string) string {
	return "budget-spent:" + op + "=" + e.apiOp(rng, op)
}

// apiLoop is the body of one application goroutine.
func (e *env) apiLoop(idx int) (error, string) {
	a, ap := e.api, e.p.API
	rng := newRng(e.p.Seed*31 + int64(idx)*1009 + 5)
	ops, rets := map[string]int64{}, map[string]int64{}
	var straddle, during int64
	n := 0
	slowAt, paced, sinceStop := time.Time{}, false, 0
loop:
	for ; n < apiOpsMax; n++ {
		select {
		case <-a.quit:
			break loop
		default:
		}
		op := ap.Ops[rng.Intn(len(ap.Ops))]
		before := e.stopCalled.Load()
		beforeRet := false
		if before {
			select {
			case <-e.stopReturned:
				beforeRet = true
			default:
			}
		}
		cls := e.apiOp(rng, op)
		ops[op]++
		rets[op+"/"+cls]++
		switch {
		case !before && e.stopCalled.Load():
			straddle++
		case before && !beforeRet:
			during++
		}
		if n == 2 {
			a.warm.Add(1)
		}
		// Full speed until the client has signalled its goroutines to quit
		// (ConnectedPeers reports that; probed now and then once Stop was
		// called): from then on every call returns at once and the callers
		// only tick over (the machine is shared).
		if before {
			sinceStop++
			switch {
			case paced:
				time.Sleep(time.Millisecond)
			case sinceStop%128 == 0:
				if _, cancel, err := e.w.Svc.ConnectedPeers(); err != nil {
					paced = true
				} else {
					cancel()
				}
				if slowAt.IsZero() {
					slowAt = time.Now().Add(1500 * time.Millisecond)
				} else if time.Now().After(slowAt) {
					paced = true
				}
			}
		}
	}
	a.mu.Lock()
	for k, v := range ops {
		a.ops[k] += v
	}
	for k, v := range rets {
		a.rets[k] += v
	}
	a.straddle += straddle
	a.during += during
	a.mu.Unlock()
	return fmt.Errorf("caller ended after %d calls", n), ""
}

// startAPI starts the callers and the designated (gated) call right before
// Stop. It returns false when a planned gate was not reached.
func (e *env) startAPI() bool {
	a, ap := e.api, e.p.API
	for i := 0; i < ap.Callers; i++ {
		i := i
		a.wg.Add(1)
		e.launch(CAPILoop, fmt.Sprintf("caller %d over %s", i, strings.Join(ap.Ops, ",")), func() (error, string) {
			defer a.wg.Done()
			return e.apiLoop(i)
		})
	}
	if ap.Callers > 0 {
		l2WaitFor(5*time.Second, func() bool { return int(a.warm.Load()) >= ap.Callers })
		time.Sleep(time.Duration(ap.WarmMs) * time.Millisecond)
	}
	if ap.Gate == GateNone {
		if ap.SlowLookupMs > 0 {
			// Stop is best called while a lookup is under way (not required).
			l2WaitFor(2*time.Second, func() bool { return a.res.slowInProgress.Load() > 0 })
		}
		return true
	}
	svc := e.w.Svc
	e.launch(CAPIGated+ap.Gate, fmt.Sprintf("%s permanent=%v; the lookup answers %s", ap.GateTarget, ap.GatePermanent, ap.GateResult), func() (error, string) {
		switch ap.Gate {
		case GateUnbanIP:
			return svc.UnbanPeer(ap.GateTarget, ap.GatePermanent), ""
		default:
			return svc.ConnectNode(ap.GateTarget, ap.GatePermanent), ""
		}
	})
	select {
	case <-a.res.entered:
		a.gateHeld = true
		e.note("lookup of %s held (on the peer handler: %v)", hostOf(ap.GateTarget), a.res.gateInHandler.Load())
		return true
	case <-time.After(TriggerWait):
		e.note("the designated call never reached the lookup")
		e.res.Count("api_gate_missed", 1)
		a.res.gateArmed.Store(false)
		return false
	}
}

func l2WaitFor(d time.Duration, cond func() bool) bool {
	deadline := time.Now().Add(d)
	for !cond() {
		if time.Now().After(deadline) {
			return false
		}
		time.Sleep(2 * time.Millisecond)
	}
	return true
}

// quiesceAPI ends the callers (they finish the call they are in) and waits a
// little for them, so that a goroutine-dump argument that follows does not see
// harness-driven movement. Callers parked inside a call stay where they are.
func (e *env) quiesceAPI(wait time.Duration) {
	a := e.api
	if a == nil {
		return
	}
	a.endCallers()
	done := make(chan struct{})
	go func() { a.wg.Wait(); close(done) }()
	select {
	case <-done:
	case <-time.After(wait):
	}
}

// apiSweep makes one call of every operation after Stop has returned: each
// must return.
func (e *env) apiSweep() {
	e.launch(CAPISweep, "one call of every peer-state operation", func() (error, string) {
		rng := newRng(e.p.Seed + 4242)
		// The budget does not matter any more.
		e.api.budget.Store(1 << 30)
		var got []string
		for _, op := range APIOps {
			got = append(got, op+"="+e.apiOp(rng, op))
		}
		e.api.mu.Lock()
		e.api.sweep = got
		e.api.mu.Unlock()
		return fmt.Errorf("all %d returned", len(got)), ""
	})
}

// reportAPI writes the counters of the family.
func (e *env) reportAPI(reached bool) {
	a, ap := e.api, e.p.API
	if a == nil {
		return
	}
	res := e.res
	res.Count("api_scenarios", 1)
	res.Count("api_mode/"+ap.Mode(), 1)
	a.mu.Lock()
	var total int64
	for k, v := range a.ops {
		res.Count("api_calls/"+k, v)
		total += v
	}
	for k, v := range a.rets {
		res.Count("api_ret/"+k, v)
	}
	res.Count("api_calls_total", total)
	res.Count("api_calls_begun_before_stop_returned_after_it_was_called", a.straddle)
	res.Count("api_calls_begun_while_stop_ran", a.during)
	for _, g := range a.sweep {
		res.Count("api_after_stop/"+g, 1)
	}
	a.mu.Unlock()
	res.Count("api_lookups", a.res.lookups.Load())
	res.Count("api_lookups_on_peer_handler", a.res.inHandler.Load())
	res.Count("api_name_lookups", a.res.nameLookups.Load())
	res.Count("api_slow_lookups", a.res.slowLookups.Load())
	if a.gateHeld {
		res.Count("api_lookup_held_at_stop/"+ap.Gate, 1)
		if a.res.gateInHandler.Load() {
			res.Count("api_lookup_held_inside_peer_handler_at_stop", 1)
		}
	}
	if reached {
		res.Mark(fmt.Sprintf("api|%s|%s|release=%s|callers=%s", e.p.State, ap.Mode(), releaseBucket(ap.GateReleaseMs), bucket(ap.Callers)))
	}
}
