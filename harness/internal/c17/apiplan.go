package c17

import (
	"math/rand"
	"sort"
)

// The peer-state API family: application goroutines call the public
// peer-state API of the complete client (everything that is answered by the
// client's peer handler, plus the ban API that ends in it) while Stop is
// called at one of the stop states of the check. The harness supplies
// Config.NameResolver, so that a call carrying a host name (or an address the
// client has never seen) is INSIDE the peer handler, waiting for the lookup,
// for as long as the scenario wants: "a peer-state query is being served at
// the instant Stop signals the remaining goroutines to quit" is then reached
// deterministically instead of by racing.

// Peer-state API operations.
const (
	OpConnCount   = "ConnectedCount"
	OpPeers       = "Peers"
	OpPeerByAddr  = "PeerByAddr"
	OpAdded       = "AddedNodeInfo"
	OpGroupCount  = "OutboundGroupCount"
	OpForAll      = "ForAllPeers"
	OpConnPeers   = "ConnectedPeers"
	OpConnect     = "ConnectNode"      // IP literal: connected / spare / never-seen address
	OpConnectHost = "ConnectNode.host" // host name: resolved inside the peer handler
	OpRemoveAddr  = "RemoveNodeByAddr"
	OpRemoveID    = "RemoveNodeByID"
	OpDiscAddr    = "DisconnectNodeByAddr"
	OpDiscID      = "DisconnectNodeByID"
	OpBan         = "BanPeer"
	OpUnban       = "UnbanPeer"
	OpIsBanned    = "IsBanned"
)

// APIOps lists every operation (the after-Stop sweep makes one call of each).
var APIOps = []string{
	OpConnCount, OpPeers, OpPeerByAddr, OpAdded, OpGroupCount, OpForAll, OpConnPeers,
	OpConnect, OpConnectHost, OpRemoveAddr, OpRemoveID, OpDiscAddr, OpDiscID,
	OpBan, OpUnban, OpIsBanned,
}

var apiReadOps = []string{OpConnCount, OpPeers, OpPeerByAddr, OpAdded, OpGroupCount, OpForAll, OpConnPeers, OpIsBanned}
var apiWriteOps = []string{OpConnect, OpConnectHost, OpRemoveAddr, OpRemoveID, OpDiscAddr, OpDiscID, OpBan, OpUnban}

// How the lookup of the designated call is held.
const (
	GateNone        = "none"
	GateConnectHost = "ConnectNode(host)" // ConnectNode("some.host:port", ...)
	GateConnectIP   = "ConnectNode(new-ip)"
	GateUnbanIP     = "UnbanPeer(new-ip)" // UnbanPeer ends in ConnectNode
)

// What a held / slow lookup answers in the end.
const (
	LookSpare   = "spare-peer" // the address of a reachable peer the client is not connected to
	LookUnknown = "unreachable-address"
	LookError   = "lookup-error"
	LookEmpty   = "no-addresses"
)

// APIPlan is the peer-state API part of a plan.
type APIPlan struct {
	Fixed string `json:",omitempty"`
	// Callers is the number of application goroutines that call operations
	// drawn from Ops in a loop from shortly before Stop is called until Stop
	// has returned.
	Callers int
	Ops     []string
	// Gate: the designated call whose name lookup (made by the client inside
	// its peer handler) is held until GateReleaseMs after Stop was CALLED.
	Gate          string
	GateTarget    string `json:",omitempty"`
	GatePermanent bool   `json:",omitempty"`
	GateResult    string `json:",omitempty"`
	GateReleaseMs int    `json:",omitempty"`
	// SlowLookupMs > 0: no gate, but host names of the callers' ConnectNode
	// calls take up to this long to resolve (the peer handler spends most of
	// its time inside lookups).
	SlowLookupMs int `json:",omitempty"`
	// Spares: reachable honest peers the client is not configured to connect
	// to (targets for ConnectNode / DisconnectNode).
	Spares int
	// WarmMs: how long the callers run before the gate call / Stop.
	WarmMs int
}

// Stop states the family is laid over (a subset of States: the long-holding
// ones are left to the main rotation).
var apiStates = []string{
	StIdle, StStarted, StHdrSync, StNoPeers, StStorm, StUnresp, StSubs,
	ptPrefix + PtRBBetween, StBroadcast, StQueries, ptPrefix + PtCFBefore, StCFTip,
	StUtxo, ptPrefix + PtNtfnTip, StNoRead, ptPrefix + PtHdrBatch, ptPrefix + PtReorgAfter,
}

// NumAPIFixed is the number of fixed scenarios at the start of the second
// list (two of the family, one more guard for the main oracle).
const NumAPIFixed = 3

// apiKBase separates the scenario numbers of the family from the main list
// (Plan.K names the scenario and its latency file).
const apiKBase = 100000

func stateIndex(st string) int {
	for i, s := range States {
		if s == st {
			return i
		}
	}
	return 0
}

// APIPlanFromSeed derives scenario j of the peer-state API family: a pure
// function of (seed, j).
func APIPlanFromSeed(seed int64, j int) Plan {
	r := rand.New(rand.NewSource(seed*2_000_003 + int64(j)*104729 + 29))
	base := func(st string, lap int) Plan {
		// The plan of the main list for this stop state, from a lap of the
		// rotation the main list never reaches.
		p := PlanFromSeed(seed, NumFixed+stateIndex(st)+len(States)*(4000+lap))
		p.K = apiKBase + j
		if p.HoldMs > 1200 {
			p.HoldMs = 1200
		}
		// Peers that never answer / never read from the first connection on
		// are the main list's subject (an initial sync next to them can take
		// most of its deadline); here every peer takes part in the sync, and
		// the stop states that need it turn all of them silent / non-reading
		// right before Stop (MuteAtStop).
		for i, kd := range p.Peers {
			if kd == PSilent || kd == PNoRead {
				p.Peers[i] = PSlow
			}
		}
		if p.MuteAtStop != "noread" {
			p.ConnCap = 0
		}
		return p
	}

	switch j {
	case 0:
		// Fixed: the lookup of ConnectNode("some.host:18444", permanent) is
		// under way inside the peer handler; Stop is called; the lookup
		// answers 300 ms later.
		p := base(StIdle, j)
		p.ChainLen, p.HdrBatch, p.Preset = 60, 2000, 0
		p.Peers = []string{PHonest, PHonest}
		p.ConnCap, p.Inflight, p.MuteAtStop, p.StopDelayMs = 0, nil, "", 5
		p.API = &APIPlan{
			Fixed: "stop-while-connectnode-resolves-a-host-name",
			Gate:  GateConnectHost, GateTarget: "some.host:18444", GatePermanent: true,
			GateResult: LookUnknown, GateReleaseMs: 300, Spares: 1,
		}
		p.Fixed = p.API.Fixed
		return p
	case 1:
		// Fixed: the same through UnbanPeer of an address the client has
		// never seen, with pollers of the read-only calls around it, and the
		// lookup answering with a reachable peer.
		p := base(StIdle, j)
		p.ChainLen, p.HdrBatch, p.Preset = 80, 2000, 1
		p.Peers = []string{PHonest, PHonest, PHonest}
		p.ConnCap, p.Inflight, p.MuteAtStop, p.StopDelayMs = 0, nil, "", 0
		p.API = &APIPlan{
			Fixed:   "stop-while-unbanpeer-connects-with-pollers",
			Callers: 6, Ops: []string{OpConnCount, OpPeers, OpPeerByAddr, OpAdded, OpGroupCount},
			Gate: GateUnbanIP, GateTarget: "10.77.9.9:18444", GatePermanent: false,
			GateResult: LookSpare, GateReleaseMs: 300, Spares: 1, WarmMs: 30,
		}
		p.Fixed = p.API.Fixed
		return p
	}

	if j == 2 {
		// Fixed, not a peer-state scenario (it lives here so that the main
		// list keeps its numbering): filters are being fetched, accepted and
		// queued for the database (PersistToDisk) without pause while Stop
		// waits for a broadcast no peer reacts to: every step of Stop that
		// comes before the work manager's is exercised with query responses
		// still being handled.
		p := base(StBroadcast, j)
		p.Fixed = "filters-accepted-while-stop-waits-for-a-pending-broadcast"
		p.ChainLen, p.HdrBatch, p.Preset = 2400, 2000, 0
		p.Peers = []string{PHonest, PHonest, PHonest}
		p.Persist = true
		p.Inflight = []string{CCFLoop, CSendTx}
		p.MuteAtStop, p.HoldMs, p.StopDelayMs = "", 300, 0
		return p
	}

	jj := j - NumAPIFixed
	st := apiStates[(jj+int(seed%int64(len(apiStates)))+len(apiStates))%len(apiStates)]
	p := base(st, j)
	a := &APIPlan{Spares: 1 + r.Intn(3), WarmMs: 10 + r.Intn(60)}
	switch jj % 3 {
	case 0:
		// Callers only: the calls race with Stop.
		a.Gate = GateNone
		a.Callers = 6 + r.Intn(11)
	case 1:
		a.Gate = pick(r, GateConnectHost, GateConnectHost, GateConnectIP, GateUnbanIP)
		a.GatePermanent = r.Intn(2) == 0
		a.GateResult = pick(r, LookSpare, LookUnknown, LookError, LookEmpty)
		a.GateReleaseMs = []int{0, 2, 10, 40, 60, 90, 150, 300, 400}[r.Intn(9)]
		a.Callers = r.Intn(9)
		switch a.Gate {
		case GateConnectHost:
			a.GateTarget = pick(r, "gate.sim:18444", "gate.sim", "gate.sim:8333")
		default:
			a.GateTarget = pick(r, "10.77.9.9:18444", "10.77.9.9")
		}
	default:
		a.Gate = GateNone
		a.SlowLookupMs = 2 + r.Intn(30)
		a.Callers = 3 + r.Intn(8)
	}
	if a.Callers > 0 {
		// A seeded subset of the operations, never without a read-only one.
		ops := []string{apiReadOps[r.Intn(3)]} // ConnectedCount | Peers | PeerByAddr
		for _, o := range apiReadOps {
			if r.Intn(2) == 0 {
				ops = append(ops, o)
			}
		}
		if r.Intn(4) != 0 {
			for _, o := range apiWriteOps {
				if r.Intn(2) == 0 {
					ops = append(ops, o)
				}
			}
		}
		if a.SlowLookupMs > 0 {
			ops = append(ops, OpConnectHost, OpConnectHost)
		}
		sort.Strings(ops)
		a.Ops = ops
	}
	p.API = a
	return p
}

// Mode names the shape of the API part (fingerprints).
func (a *APIPlan) Mode() string {
	switch {
	case a == nil:
		return "-"
	case a.Gate != GateNone:
		return "gate:" + a.Gate + "->" + a.GateResult
	case a.SlowLookupMs > 0:
		return "slow-lookups"
	}
	return "callers-only"
}

func bucket(n int) string {
	switch {
	case n == 0:
		return "0"
	case n <= 4:
		return "1-4"
	case n <= 8:
		return "5-8"
	}
	return "9+"
}

func releaseBucket(ms int) string {
	switch {
	case ms < 20:
		return "<20ms"
	case ms < 100:
		return "<100ms"
	}
	return ">=100ms"
}
