package c17

import (
	"fmt"
	"math/rand"
	"sync/atomic"
	"time"
)

// PERMANENT PEERS GIVEN AS HOST NAMES (a dimension of every scenario, and one
// fixed scenario of the third list). Config.ConnectPeers may carry host names;
// the client resolves each of them through Config.NameResolver, in the
// background, for as long as the lookup fails ("network access might not be
// established yet"). Next to the reachable peers (IP literals, as before) a
// scenario's client is configured with a seed-chosen set of names the scripted
// resolver answers with
//
//	an error / an empty result on every lookup, before, during and after Stop
//	  (a typo, a host that no longer exists, DNS down),
//	the address of a reachable peer the client is not otherwise configured
//	  with, at the first lookup,
//	the same, but only from the n-th lookup on (the network comes up late:
//	  before Stop in some scenarios, never within the scenario in others).
//
// Nothing new is asserted: Stop returns, every call returns, the directory
// reopens. The resolver counts the lookups of these names before Stop was
// called, while it ran and after it had returned (evidence and witnesses).

// Kinds of host-name entries.
const (
	NameDeadErr   = "lookup-error"
	NameDeadEmpty = "no-addresses"
	NameSpare     = "resolves-to-reachable-peer"
	NameLate      = "resolves-late"
)

// NameEntry is one ConnectPeers entry given as a host name.
type NameEntry struct {
	Host string // "name" or "name:port", as written in the configuration
	Kind string
	// After (NameLate): the number of failing lookups before the name
	// resolves; Empty: the failures are empty results rather than errors.
	After int  `json:",omitempty"`
	Empty bool `json:",omitempty"`
}

// NamePlan is the host-name part of a plan.
type NamePlan struct {
	Fixed   string `json:",omitempty"`
	Entries []NameEntry
	// LookupMs: every lookup of one of these names takes up to this long.
	LookupMs int
	// First: the names precede the IP literals in ConnectPeers.
	First bool
	// MinRetries: outside the initial sync, Stop is only called once every
	// name that does not resolve has failed this many lookups (the client is
	// in its retry cycle).
	MinRetries int
}

func (n *NamePlan) count(kinds ...string) int {
	if n == nil {
		return 0
	}
	c := 0
	for _, e := range n.Entries {
		for _, k := range kinds {
			if e.Kind == k {
				c++
			}
		}
	}
	return c
}

// Shape names the host-name part in fingerprints.
func (n *NamePlan) Shape() string {
	if n == nil {
		return "-"
	}
	return fmt.Sprintf("dead:%d,spare:%d,late:%d", n.count(NameDeadErr, NameDeadEmpty), n.count(NameSpare), n.count(NameLate))
}

// namesFromSeed derives the host-name dimension of scenario k from its own
// generator (the rest of the plan is what it was without the dimension): half
// of the scenarios have none, the others 0-2 names that never resolve, 0-1 that
// resolves to a reachable spare peer and 0-1 that resolves late.
func namesFromSeed(seed int64, k int) *NamePlan {
	r := rand.New(rand.NewSource(seed*3_000_017 + int64(k)*15485863 + 41))
	if r.Intn(2) == 0 {
		return nil
	}
	n := &NamePlan{LookupMs: []int{0, 0, 2, 8, 20}[r.Intn(5)], First: r.Intn(2) == 0, MinRetries: []int{0, 0, 1, 2, 3}[r.Intn(5)]}
	dead := []int{0, 1, 1, 2}[r.Intn(4)]
	for i := 0; i < dead; i++ {
		host := pick(r, "gone%d.example.sim:18444", "typo%d.sim", "nxdomain%d.sim:8333", "down%d.sim:18444")
		n.Entries = append(n.Entries, NameEntry{Host: fmt.Sprintf(host, i), Kind: pick(r, NameDeadErr, NameDeadErr, NameDeadEmpty)})
	}
	if r.Intn(2) == 0 {
		n.Entries = append(n.Entries, NameEntry{Host: "seed-a.sim:18444", Kind: NameSpare})
	}
	if r.Intn(2) == 0 {
		n.Entries = append(n.Entries, NameEntry{Host: "late.sim:18444", Kind: NameLate,
			After: []int{1, 2, 3, 6, 15, 1000}[r.Intn(6)], Empty: r.Intn(3) == 0})
	}
	if len(n.Entries) == 0 {
		return nil
	}
	r.Shuffle(len(n.Entries), func(i, j int) { n.Entries[i], n.Entries[j] = n.Entries[j], n.Entries[i] })
	return n
}

// permName is the run-time state of one host-name entry.
type permName struct {
	entry   NameEntry
	ip      string // what it resolves to, once it does
	n       atomic.Int64
	failed  [3]atomic.Int64 // failing lookups: before Stop was called / while it ran / after it returned
	okAt    atomic.Int64    // the lookup (1-based) that succeeded first
	lastNs  atomic.Int64
	lookups atomic.Int64
}

// lookupPerm answers the lookup of a permanent peer's name.
func (r *resolver) lookupPerm(pn *permName) (ip string, empty bool, fail bool) {
	if r.permMs > 0 {
		d := 1 + int(r.seq.Add(1)*7919%int64(r.permMs))
		time.Sleep(time.Duration(d) * time.Millisecond)
	}
	k := pn.n.Add(1)
	pn.lookups.Add(1)
	pn.lastNs.Store(time.Now().UnixNano())
	switch pn.entry.Kind {
	case NameSpare:
		pn.okAt.CompareAndSwap(0, k)
		return pn.ip, false, false
	case NameLate:
		if k > int64(pn.entry.After) {
			pn.okAt.CompareAndSwap(0, k)
			return pn.ip, false, false
		}
	}
	pn.failed[r.phase()].Add(1)
	if pn.entry.Kind == NameDeadEmpty || (pn.entry.Kind == NameLate && pn.entry.Empty) {
		return "", true, false
	}
	return "", false, true
}

// phase: 0 before Stop was called, 1 while it runs, 2 after it returned.
func (r *resolver) phase() int {
	if r.e == nil {
		return 0
	}
	return r.e.phase()
}

// setupNames adds the spare peers the names resolve to, scripts the resolver
// and returns the ConnectPeers list: the reachable peers as IP literals (the
// list the scenario had) plus the host names.
func (e *env) setupNames(connect []string) []string {
	np := e.p.Names
	r := e.rsv
	r.permMs = np.LookupMs
	var names []string
	for _, en := range np.Entries {
		pn := &permName{entry: en}
		if en.Kind == NameSpare || en.Kind == NameLate {
			peer := e.w.AddPeer(e.tip)
			sp := &simPeer{Peer: peer, kind: "named", e: e}
			sp.hdrBatch.Store(int64(e.p.HdrBatch))
			peer.Mutate = sp.mutate
			peer.OnMsg = sp.onMsg
			e.peers = append(e.peers, sp)
			pn.ip = hostOf(sp.Addr)
		}
		r.perm[hostOf(en.Host)] = pn
		r.permList = append(r.permList, pn)
		names = append(names, en.Host)
	}
	if np.First {
		return append(names, connect...)
	}
	return append(append([]string(nil), connect...), names...)
}

// awaitRetries waits (bounded) until every name that does not resolve yet has
// failed the planned number of lookups.
func (e *env) awaitRetries() {
	np := e.p.Names
	if np == nil || np.MinRetries == 0 || e.p.MidSync() {
		return
	}
	ok := l2WaitFor(8*time.Second, func() bool {
		for _, pn := range e.rsv.permList {
			if pn.okAt.Load() == 0 && pn.failed[0].Load() < int64(np.MinRetries) {
				return false
			}
		}
		return true
	})
	if !ok {
		e.note("a permanent peer's name was looked up fewer than %d times", np.MinRetries)
		e.res.Count("names_retries_not_reached", 1)
	}
}

// failedLookups sums the failing lookups of the permanent peers' names.
func (r *resolver) failedLookups() (before, during, after int64) {
	if r == nil {
		return
	}
	for _, pn := range r.permList {
		before += pn.failed[0].Load()
		during += pn.failed[1].Load()
		after += pn.failed[2].Load()
	}
	return
}

// nameStats describes the lookups of the permanent peers' names (witnesses).
func (r *resolver) nameStats() []string {
	if r == nil {
		return nil
	}
	var out []string
	for _, pn := range r.permList {
		s := fmt.Sprintf("%s (%s): %d lookups; failing: %d before Stop was called, %d while it ran, %d after it returned",
			pn.entry.Host, pn.entry.Kind, pn.lookups.Load(), pn.failed[0].Load(), pn.failed[1].Load(), pn.failed[2].Load())
		if k := pn.okAt.Load(); k > 0 {
			s += fmt.Sprintf("; resolved to %s at lookup %d", pn.ip, k)
		}
		if t := pn.lastNs.Load(); t > 0 {
			s += fmt.Sprintf("; last lookup %.1f s ago", time.Since(time.Unix(0, t)).Seconds())
		}
		out = append(out, s)
	}
	return out
}

// reportNames writes the counters of the dimension.
func (e *env) reportNames(reached bool) {
	np, r := e.p.Names, e.rsv
	if np == nil || r == nil {
		return
	}
	res := e.res
	res.Count("names_scenarios", 1)
	for _, pn := range r.permList {
		res.Count("names_entries/"+pn.entry.Kind, 1)
		res.Count("names_lookups/"+pn.entry.Kind, pn.lookups.Load())
		if pn.okAt.Load() > 0 {
			res.Count("names_resolved/"+pn.entry.Kind, 1)
		}
		if pn.entry.Kind == NameLate && pn.okAt.Load() == 0 {
			res.Count("names_late_still_unresolved_at_stop", 1)
		}
	}
	b, d, a := r.failedLookups()
	res.Count("names_failing_lookups_before_stop_was_called", b)
	res.Count("names_failing_lookups_while_stop_ran", d)
	res.Count("names_failing_lookups_after_stop_returned", a)
	if b > 0 {
		res.Count("names_scenarios_with_unresolved_permanent_peer_at_stop", 1)
	}
	if b > 1 {
		res.Count("names_scenarios_with_lookup_retried_before_stop", 1)
	}
	if reached {
		res.Mark(fmt.Sprintf("names|%s|%s|unresolved-at-stop=%v", e.p.State, np.Shape(), b > 0))
	}
}
