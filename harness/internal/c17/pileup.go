package c17

import (
	"fmt"
	"math/rand"
	"sort"
	"sync"
	"time"

	"github.com/btcsuite/btcd/wire/v2"

	"verif/internal/l2"
)

// The fifth list of scenarios: Stop while the CHECKPOINTED filter-header sync
// has MANY verified cfheaders answers outstanding at once and the one
// goroutine that writes them to the filter header store is not draining.
//
// The chain is long enough for one round of 6-12 getcfheaders requests (two
// checkpoint intervals = 2000 filter headers each), 6-12 peers hold the
// requests the query workers gave them, the writer is taken out of the game
// (parked at the client's pause point inside the first write of the round, or
// kept behind the chain-change mutex by a reorganisation of the block header
// tip that is itself parked at a pause point), THEN every peer answers at
// once, the harness reads from its event log that the answers went out, and
// Stop is called. The oracle is the one of the main list.

// StCFPile is the stop state of the family.
const StCFPile = "cfhdr-pileup"

// pileKBase separates the scenario numbers of the family.
const pileKBase = 400000

// NumPileFixed is the number of fixed scenarios at the start of the list.
const NumPileFixed = 1

// PilePlan is the part of a Plan that is specific to the family.
type PilePlan struct {
	Fixed string `json:",omitempty"`
	// NPeers honest peers (= query workers), Requests getcfheaders requests in
	// the round (as planned: the client decides how it cuts the round; what it
	// did is measured at run time).
	NPeers   int
	Requests int
	// Where the goroutine that keeps the writer from draining is parked:
	// cf.beforeWrite (the writer itself, inside the first write of the round)
	// or rb.betweenStores / rb.afterBlock (the block handler inside a
	// reorganisation, holding the mutex the writer needs).
	Where string
	// ReleaseBeforeStop: the parked goroutine is released GapUs microseconds
	// BEFORE Stop is called (the writer drains while Stop runs) instead of
	// Plan.ReleaseMs after.
	ReleaseBeforeStop bool `json:",omitempty"`
	GapUs             int  `json:",omitempty"`
	// GraceMs is slept after the last answer was seen going out.
	GraceMs int
}

// Shape is the family's part of the fingerprint.
func (pl *PilePlan) Shape() string {
	rel := "after-stop-was-called"
	if pl.ReleaseBeforeStop {
		rel = "just-before-stop"
	}
	return fmt.Sprintf("held-at=%s peers=%s requests=%s released=%s", pl.Where, bucket(pl.NPeers), bucket(pl.Requests), rel)
}

// PilePlanFromSeed derives scenario i of the family: a pure function of
// (seed, i); i < NumPileFixed does not depend on the seed.
func PilePlanFromSeed(seed int64, i int) Plan {
	r := rand.New(rand.NewSource(seed*9_000_011 + int64(i)*15485863 + 71))
	p := Plan{K: pileKBase + i, Seed: seed*1_000_003 + int64(pileKBase+i), State: StCFPile,
		Preset: 0, HdrBatch: 2000, HoldCFUntilHeaders: true, KTh: 1, NCalls: 1, Announce: "headers"}
	pl := &PilePlan{}
	p.Pile = pl
	intervals := 0
	if i < NumPileFixed {
		// Fixed: ten peers, a round of ten requests; the writer is parked
		// inside the first write of the round; the nine other answers are
		// released together; Stop; the writer is released 150 ms later.
		pl.Fixed = "ten-peers-answer-a-ten-request-round-at-once-while-the-writer-is-parked-then-stop"
		p.Fixed = pl.Fixed
		p.Seed = int64(pileKBase + i) // the chain as well is the same for every seed
		pl.NPeers, pl.Requests, pl.Where, pl.GraceMs = 10, 10, PtCFBefore, 60
		p.ReleaseMs = 150
		intervals = 2 * pl.Requests
		p.ChainLen = (2+intervals)*1000 + 37
	} else {
		ii := i - NumPileFixed
		pl.NPeers = 6 + r.Intn(7)
		pl.Requests = 6 + r.Intn(7)
		pl.Where = []string{PtRBBetween, PtCFBefore, PtRBAfter}[(ii+int(seed%3)+3)%3]
		pl.GraceMs = 20 + r.Intn(130)
		p.ReleaseMs = 30 + r.Intn(370)
		if r.Intn(4) == 0 {
			pl.ReleaseBeforeStop, pl.GapUs = true, r.Intn(3000)
		}
		intervals = 2 * pl.Requests
		if r.Intn(2) == 0 {
			intervals-- // the last request of the round covers one interval
		}
		p.ChainLen = (2+intervals)*1000 + 7 + r.Intn(300)
		p.Persist = r.Intn(2) == 0
		if pl.Where != PtCFBefore {
			// The fork point stays above the last filter checkpoint (the
			// chain ends at least 7 blocks above it).
			p.ReorgDepth = 1 + r.Intn(6)
			p.KTh = 1 + r.Intn(p.ReorgDepth)
		}
		if r.Intn(2) == 0 {
			// Callers blocked on the client when Stop is called.
			var fl []string
			for _, f := range []string{CGetBlock, CGetCF, CSubRead, CRescanErr} {
				if r.Intn(2) == 0 {
					fl = append(fl, f)
				}
			}
			if len(fl) == 0 {
				fl = []string{CSubRead}
			}
			sort.Strings(fl)
			p.Inflight = fl
			p.MuteAtStop = pick(r, "filters", "blocks", "")
			p.NCalls = 1 + r.Intn(3)
			if has(fl, CRescanErr) {
				p.Inflight = append(p.Inflight, CRescanWt, CRescanUpd)
			}
		}
	}
	for j := 0; j < pl.NPeers; j++ {
		p.Peers = append(p.Peers, PHonest)
	}
	if i >= NumPileFixed && r.Intn(3) == 0 {
		// One or two of the peers take 10-40 ms longer than the others.
		for j, n := 0, 1+r.Intn(2); j < n; j++ {
			p.Peers[1+r.Intn(pl.NPeers-1)] = PSlow
		}
	}
	return p
}

// PileScenario is scenario i of the family.
func PileScenario(seed int64, i int, res *l2.Result) {
	Run(PilePlanFromSeed(seed, i), res)
}

// pileState is the run-time side: the gate the peers' answers wait behind.
type pileState struct {
	e *env

	mu            sync.Mutex
	started       bool
	startedCh     chan struct{}
	firstStart    uint32 // start height of the first request of the multi-batch round
	requests      int    // requests the round consists of (from the stored tips when it began)
	firstAnswered bool
	held          int
	open          bool
	gate          chan struct{}
	firstOpen     bool
	firstGate     chan struct{} // the request the writer can write next, when it is not the writer that is parked
}

func newPileState(e *env) *pileState {
	return &pileState{e: e, startedCh: make(chan struct{}), gate: make(chan struct{}), firstGate: make(chan struct{})}
}

func (ps *pileState) openFirst() {
	ps.mu.Lock()
	if !ps.firstOpen {
		ps.firstOpen = true
		close(ps.firstGate)
	}
	ps.mu.Unlock()
}

func (ps *pileState) openGate() {
	ps.mu.Lock()
	if !ps.open {
		ps.open = true
		close(ps.gate)
	}
	ps.mu.Unlock()
}

func (ps *pileState) hasStarted() bool { ps.mu.Lock(); defer ps.mu.Unlock(); return ps.started }

func (ps *pileState) heldNow() int { ps.mu.Lock(); defer ps.mu.Unlock(); return ps.held }

// onGetCFHeaders is called by a peer that is about to answer a getcfheaders
// request; it returns when the answer may go out. The single-batch round the
// client runs first (filter tip still 0) passes. Of the multi-batch round the
// request the writer can write next passes when it is the writer that is to be
// parked (it parks inside that write), and otherwise waits for a gate of its
// own, opened once the reorganisation is parked (the writer then takes that
// answer and waits for the mutex); every other request of the round waits for
// the gate.
func (ps *pileState) onGetCFHeaders(g *wire.MsgGetCFHeaders) {
	ps.mu.Lock()
	if ps.open {
		ps.mu.Unlock()
		return
	}
	if !ps.started {
		_, ft, err := ps.e.w.Svc.RegFilterHeaders.ChainTip()
		if err != nil || ft == 0 {
			ps.mu.Unlock()
			return
		}
		ps.started = true
		iv := int(ft / wire.CFCheckptInterval)
		ps.firstStart = uint32(iv)*wire.CFCheckptInterval + 1
		const perRequest = wire.MaxCFHeadersPerMsg / wire.CFCheckptInterval
		ps.requests = (ps.e.p.ChainLen/wire.CFCheckptInterval - iv + perRequest - 1) / perRequest
		if ps.e.p.Pile.Where == PtCFBefore {
			// Armed before the answer that lets the writer reach the point.
			ps.e.hook.arm(PtCFBefore, 1)
		}
		close(ps.startedCh)
	}
	if g.StartHeight < ps.firstStart {
		// a late repetition of the single-batch round
		ps.mu.Unlock()
		return
	}
	if g.StartHeight == ps.firstStart && ps.e.p.Pile.Where == PtCFBefore && !ps.firstAnswered {
		ps.firstAnswered = true
		ps.mu.Unlock()
		return
	}
	ps.held++
	gate := ps.gate
	if g.StartHeight == ps.firstStart && ps.e.p.Pile.Where != PtCFBefore {
		gate = ps.firstGate
	}
	ps.mu.Unlock()
	select {
	case <-gate:
	case <-time.After(25 * time.Second):
	}
}

// cfheadersSentSince counts the cfheaders messages the peers have sent after
// event number mark of the event log.
func (e *env) cfheadersSentSince(mark int64) int {
	n := 0
	for _, ev := range e.w.Log.Snapshot() {
		if ev.Seq > mark && ev.Dir == "tx" && ev.Cmd == "cfheaders" {
			n++
		}
	}
	return n
}

// setupPile brings the client into the family's stop state. It returns whether
// the state was reached and whether a pause point is still parked.
func (e *env) setupPile() (reached, parked bool) {
	p, pl, ps := e.p, e.p.Pile, e.pile
	miss := func(what string) (bool, bool) {
		ps.openFirst()
		ps.openGate()
		// Nothing stays parked behind the scenario's back.
		e.hook.mu.Lock()
		e.hook.armed = false
		e.hook.mu.Unlock()
		select {
		case <-e.hook.parked:
			close(e.hook.release)
		default:
		}
		e.note("pile-up not reached: %s", what)
		e.res.Count("trigger_missed/"+p.State, 1)
		return false, false
	}
	select {
	case <-ps.startedCh:
	case <-time.After(TriggerWait):
		return miss("the multi-batch round of the checkpointed filter-header sync did not begin")
	}
	t0 := time.Now()
	ps.mu.Lock()
	nReq, first := ps.requests, ps.firstStart
	ps.mu.Unlock()
	e.note("multi-batch round: %d requests from height %d on, %d peers", nReq, first, len(e.peers))

	if pl.Where != PtCFBefore {
		// A heavier branch forking a few blocks below the block header tip,
		// announced in one headers message: the block handler rolls the tip
		// back under the chain-change mutex and is parked there.
		br := e.branch
		e.hook.arm(pl.Where, p.KTh)
		e.setTip(br[len(br)-1])
		e.announce("headers", br...)
	}
	select {
	case <-e.hook.parked:
	case <-time.After(TriggerWait):
		return miss("pause point " + pl.Where + " not reached")
	}
	e.note("parked at %s %.0f ms after the round began", pl.Where, time.Since(t0).Seconds()*1000)
	if pl.Where != PtCFBefore {
		e.res.Count("reorgs_parked", 1)
	}

	// Every worker has a request out (one per peer, the round permitting).
	remaining := nReq
	mark := e.w.Log.Len()
	if pl.Where == PtCFBefore {
		remaining--
	} else {
		// The answer the writer can write next goes out first; the writer
		// takes it and waits for the mutex the reorganisation holds (seen in a
		// goroutine dump: it is inside writeCFHeadersMsg).
		ps.openFirst()
		ok := l2.WaitFor(time.Second, func() bool {
			return CountWhere(ParseDump(DumpAll()), "(*blockManager).writeCFHeadersMsg") > 0
		})
		e.note("first answer of the round released; writer waiting for the chain-change mutex: %v", ok)
	}
	want := remaining
	if want > len(e.peers) {
		want = len(e.peers)
	}
	// Bounded below the query workers' first timeout (2 s).
	l2.WaitFor(1200*time.Millisecond-minDur(time.Since(t0), time.Second), func() bool { return ps.heldNow() >= want })
	held := ps.heldNow()
	ps.openGate()
	e.note("%d peers held a request of the round; all answer now", held)

	// The event log tells when the answers have gone out: all that remain of
	// the round, or no further one for 400 ms.
	sent, lastChange, tOpen := 0, time.Now(), time.Now()
	for time.Since(tOpen) < 6*time.Second {
		n := e.cfheadersSentSince(mark)
		if n != sent {
			sent, lastChange = n, time.Now()
		}
		if sent >= remaining || (sent > 0 && time.Since(lastChange) > 400*time.Millisecond) {
			break
		}
		time.Sleep(5 * time.Millisecond)
	}
	time.Sleep(time.Duration(pl.GraceMs) * time.Millisecond)
	sent = e.cfheadersSentSince(mark)
	e.note("%d cfheaders answers of the round went out within %.0f ms while nothing is written", sent, time.Since(tOpen).Seconds()*1000)

	d := ParseDump(DumpAll())
	inWrite := CountWhere(d, "(*blockManager).writeCFHeadersMsg")
	e.res.Count("pileup/requests_in_the_round", int64(nReq))
	e.res.Count("pileup/peers_holding_a_request_when_released", int64(held))
	e.res.Count("pileup/answers_sent_while_the_writer_was_held", int64(sent))
	e.res.Count("pileup/writer_inside_a_write_at_stop", int64(inWrite))
	e.res.Count("pileup/query_workers_inside_a_response_handler_at_stop", int64(CountWhere(d, "query.(*worker).Run", "handleResponse")))
	e.res.Count("pileup/held_at/"+pl.Where, 1)
	e.res.Mark(fmt.Sprintf("pileup held-at=%s answers-outstanding=%s workers=%s", pl.Where, bucket(sent), bucket(len(e.peers))))
	e.pileSent = sent
	if sent < 5 || inWrite == 0 {
		// Not the state the family is about (fewer than a handful of answers
		// outstanding, or the writer is not inside a write): Stop is still
		// called and judged, the scenario is not counted as non-trivial.
		e.note("fewer answers outstanding than intended, or the writer is not held")
		e.res.Count("pileup/shape_not_reached", 1)
		reached = false
	} else {
		e.res.Count("pileup/stops_with_5_or_more_verified_answers_outstanding", 1)
		reached = true
	}

	if len(p.Inflight) > 0 {
		e.mute(p.MuteAtStop)
		e.startInflight(true)
	}
	if pl.ReleaseBeforeStop {
		close(e.hook.release)
		e.res.Count("points_parked/"+pl.Where, 1)
		e.res.Count("pileup/released_just_before_stop", 1)
		e.note("pause point released (before Stop)")
		time.Sleep(time.Duration(pl.GapUs) * time.Microsecond)
		return reached, false
	}
	return reached, true
}

func minDur(a, b time.Duration) time.Duration {
	if a < b {
		return a
	}
	return b
}
