// Package c17 holds the scenarios of the C17 check ("Stop always completes
// and releases every blocked caller"): the complete real ChainService is
// brought into a seed-chosen state against scripted wire peers, Stop is called
// at a seed-chosen moment, and the oracle observes (1) that Stop returns, (2)
// what every call that was in flight returns, and calls started afterwards,
// (3) that the data directory reopens with valid stores and a second client
// syncs from it. The scenario function is exported so that a race-detector
// program can drive the same executions.
package c17

import (
	"fmt"
	"math/rand"
	"sort"
	"strings"
)

// States at which Stop is called.
const (
	StIdle       = "idle"
	StHdrSync    = "hdr-sync"
	StCFCkpt     = "cfhdr-checkpointed"
	StCFTip      = "cfhdr-tip"
	StQueries    = "queries"
	StStorm      = "query-storm"
	StRescanCU   = "rescan-catchup"
	StRescanRT   = "rescan-retry"
	StRescanCur  = "rescan-current"
	StUtxo       = "utxo"
	StBroadcast  = "broadcast"
	StRebroad    = "rebroadcast"
	StSubs       = "subs"
	StUnresp     = "unresponsive"
	StNoRead     = "noread"
	StNoPeers    = "no-peers"
	StStarted    = "just-started" // Stop within milliseconds of Start / of the first handshake
	ptPrefix     = "pt:"
	PtHdrBatch   = "hdr.beforeBatchWrite"
	PtCFBefore   = "cf.beforeWrite"
	PtCFAfter    = "cf.afterWrite"
	PtRBBetween  = "rb.betweenStores"
	PtRBAfter    = "rb.afterBlock"
	PtReorgAfter = "hdr.reorg.afterRollback"
	PtNtfnTip    = "ntfn.afterTip"
	PtCFWait     = "cf.beforeWait"
)

// States is the rotation of stop states (scenario k>=NumFixed uses
// States[(k-NumFixed) % len(States)]).
var States = []string{
	StIdle, StHdrSync, StStorm, StCFCkpt, StCFTip,
	ptPrefix + PtHdrBatch, ptPrefix + PtCFBefore, ptPrefix + PtCFAfter,
	ptPrefix + PtRBBetween, ptPrefix + PtRBAfter, ptPrefix + PtReorgAfter, StStorm, ptPrefix + PtNtfnTip,
	StQueries, StRescanCU, StRescanRT, StRescanCur,
	StUtxo, StBroadcast, StStorm, StRebroad, StSubs, StUnresp, StNoRead, StNoPeers,
	StStarted, StStarted, ptPrefix + PtCFWait,
}

// Peer kinds.
const (
	PHonest = "honest"
	PSlow   = "slow"
	PSilent = "silent"
	PNoRead = "noread"
	PFlap   = "flap"
)

// In-flight call kinds.
const (
	CGetBlock  = "GetBlock"
	CGetCF     = "GetCFilter"
	CGetUtxo   = "GetUtxo"
	CSendTx    = "SendTransaction"
	CRescanErr = "Rescan.err"
	CRescanWt  = "Rescan.WaitForShutdown"
	CRescanUpd = "Rescan.Update"
	CSubscribe = "Subscribe"
	CSubRead   = "Subscription.read"
	CBlockLoop = "GetBlock.loop"
	CCFLoop    = "GetCFilter.loop"
)

// NumFixed is the number of fixed scenarios at the start of every case list.
const NumFixed = 4

// Plan of one scenario: a pure function of (seed, k).
type Plan struct {
	K     int
	Seed  int64
	Fixed string `json:",omitempty"`
	State string
	// HoldCFUntilHeaders: peers stay silent on getcfcheckpt until the client
	// has all block headers (steering for the multi-worker fixed scenarios).
	HoldCFUntilHeaders bool `json:",omitempty"`
	ChainLen           int
	Preset             int
	HdrBatch           int      // headers per `headers` message served
	Peers              []string // peer kinds; Peers[0] is honest and is the first the client reaches
	ConnCap            int      // per-direction connection buffer (0 = unbounded)
	Persist            bool     // PersistToDisk (filter batch writer running)
	BlockCache         uint64   `json:",omitempty"` // block cache size in bytes (0 = default)
	Inflight           []string // call kinds started before Stop
	NCalls             int      // how many GetBlock / GetCFilter / GetUtxo calls each
	KTh                int      // the k-th message / pause-point hit triggers Stop
	// StopDelayMs is slept between the trigger and calling Stop; ReleaseMs is
	// how long after CALLING Stop a parked pause point is released.
	StopDelayMs int
	ReleaseMs   int
	ReorgDepth  int
	// HoldMs: how long in-flight calls are left pending before Stop (moves
	// Stop across the first / later tries of the query workers).
	HoldMs int
	// MuteAtStop: peer behaviour switched on right before the in-flight calls
	// are started: "" | "silent" (all peers stop answering) | "noread" (all
	// peers stop reading) | "filters" | "blocks" (silent for those only).
	MuteAtStop string
	Announce   string
	// API: the peer-state API family (apiplan.go) laid over the stop state.
	API *APIPlan `json:",omitempty"`
	// Names: permanent peers given as host names (names.go), a dimension of
	// every non-fixed scenario.
	Names *NamePlan `json:",omitempty"`
	// Rej: what the peers answer to a rebroadcast while Stop runs (rebroad.go).
	Rej *RejPlan `json:",omitempty"`
	// Start: the start-state family (startstate.go): a client that was never
	// started / whose Start failed / that is stopped twice.
	Start *StartPlan `json:",omitempty"`
	// Pile: the pile-up family (pileup.go): Stop while many verified
	// cfheaders answers are outstanding and their writer is not draining.
	Pile *PilePlan `json:",omitempty"`
}

func (p Plan) Point() string {
	if p.Pile != nil {
		return p.Pile.Where
	}
	if strings.HasPrefix(p.State, ptPrefix) {
		return strings.TrimPrefix(p.State, ptPrefix)
	}
	return ""
}

// MidSync reports whether Stop is called while the initial sync is running.
func (p Plan) MidSync() bool {
	switch p.State {
	case StHdrSync, StCFCkpt, StCFTip, ptPrefix + PtHdrBatch, ptPrefix + PtCFBefore, ptPrefix + PtCFAfter, StStarted:
		return true
	}
	return false
}

// PeerMix is the sorted multiset of peer kinds.
func (p Plan) PeerMix() string {
	c := map[string]int{}
	for _, k := range p.Peers {
		c[k]++
	}
	var ks []string
	for k := range c {
		ks = append(ks, k)
	}
	sort.Strings(ks)
	s := ""
	for _, k := range ks {
		s += fmt.Sprintf("%s×%d ", k, c[k])
	}
	return strings.TrimSpace(s)
}

func pick(r *rand.Rand, xs ...string) string { return xs[r.Intn(len(xs))] }

// PlanFromSeed derives scenario k.
func PlanFromSeed(seed int64, k int) Plan {
	r := rand.New(rand.NewSource(seed*1_000_003 + int64(k)*7919 + 17))
	p := Plan{K: k, Seed: seed*1_000_003 + int64(k)}
	p.Preset = k % 3
	p.Announce = pick(r, "inv", "headers")
	p.StopDelayMs = r.Intn(40)
	if r.Intn(3) == 0 {
		p.StopDelayMs = 0
	}
	p.ReleaseMs = 30 + r.Intn(90)
	p.Persist = r.Intn(2) == 0
	p.NCalls = 1 + r.Intn(3)
	p.KTh = 1

	switch k {
	case 0:
		// Fixed: a UTXO scan is fetching its first block when every peer has
		// gone away (no worker can take the query); then Stop.
		p.Fixed = "utxo-scan-with-no-peer-connected"
		p.State = StNoPeers
		p.ChainLen = 60
		p.HdrBatch = 2000
		p.Peers = []string{PHonest}
		p.Inflight = []string{CGetUtxo}
		p.NCalls = 1
		p.HoldMs = 300
		return p
	case 1:
		// Fixed: a UTXO scan is waiting for a block from peers that stay
		// connected but never answer getdata; then Stop.
		p.Fixed = "utxo-scan-with-silent-peers"
		p.State = StUtxo
		p.ChainLen = 60
		p.HdrBatch = 2000
		p.Peers = []string{PHonest, PHonest}
		p.Inflight = []string{CGetUtxo}
		p.MuteAtStop = "blocks"
		p.NCalls = 1
		p.HoldMs = 300
		return p
	}

	if k == 2 || k == 3 {
		// Fixed: Stop while a LONG checkpointed filter-header fetch is under
		// way on several peers at once (many query batches, several workers
		// handing verified responses to the filter-header goroutine), right
		// after the first (k==2) / third (k==3) cfheaders response went out.
		p.Fixed = "stop-during-multi-worker-checkpointed-cfheaders"
		// The filter-header goroutine is parked right before it writes the
		// first verified batch (k==2) or right after (k==3), so that the
		// other workers' responses pile up behind it when Stop arrives.
		p.State = ptPrefix + PtCFBefore
		if k == 3 {
			p.State = ptPrefix + PtCFAfter
		}
		p.ChainLen = 7000 + 500*(k-2)
		p.Preset = 0
		p.HdrBatch = 2000
		p.Peers = []string{PHonest, PHonest, PHonest, PHonest}
		// The first round runs as soon as 2000 headers are in (one batch, one
		// peer); the later rounds fetch several intervals from several peers.
		p.HoldCFUntilHeaders = true
		// Hit 1 is the single-batch round up to the height the handler
		// captured when it started (2000); hit 2 is the first write of the
		// round that fetches the rest in several batches.
		p.KTh = 2
		p.StopDelayMs = 39 // let the other workers' responses arrive
		p.ReleaseMs = 60
		p.NCalls = 0
		return p
	}

	p.State = States[(k-NumFixed)%len(States)]

	// Chain length by state.
	switch p.State {
	case StCFCkpt:
		p.ChainLen = 2001 + r.Intn(500)
	case StCFTip:
		p.ChainLen = 50 + r.Intn(900)
	case StHdrSync, ptPrefix + PtHdrBatch:
		p.ChainLen = 600 + r.Intn(1900)
	case ptPrefix + PtCFBefore, ptPrefix + PtCFAfter:
		if r.Intn(2) == 0 {
			p.ChainLen = 2001 + r.Intn(500)
		} else {
			p.ChainLen = 50 + r.Intn(900)
		}
	default:
		if r.Intn(4) == 0 {
			p.ChainLen = 1000 + r.Intn(1500)
		} else {
			p.ChainLen = 50 + r.Intn(400)
		}
	}
	p.HdrBatch = 2000
	if r.Intn(2) == 0 {
		p.HdrBatch = 100 + r.Intn(700)
	}

	// Peers: the first is honest (a silent sync peer would cost a 90 s btcd
	// stall timeout before anything happens); 0-4 others.
	p.Peers = []string{PHonest}
	n := r.Intn(5)
	kinds := []string{PHonest, PHonest, PSlow, PSilent, PNoRead, PFlap}
	for i := 0; i < n; i++ {
		p.Peers = append(p.Peers, kinds[r.Intn(len(kinds))])
	}
	for _, kd := range p.Peers {
		if kd == PNoRead {
			p.ConnCap = []int{256, 1024, 4096}[r.Intn(3)]
		}
	}

	// Trigger position.
	switch p.State {
	case StHdrSync, ptPrefix + PtHdrBatch:
		batches := (p.ChainLen + p.HdrBatch - 1) / p.HdrBatch
		p.KTh = 1 + r.Intn(batches)
	case StCFCkpt:
		p.KTh = 1 + r.Intn(2)
	case ptPrefix + PtCFBefore, ptPrefix + PtCFAfter:
		p.KTh = 1
		if p.ChainLen > 2000 {
			p.KTh = 1 + r.Intn(2)
		}
	case ptPrefix + PtRBBetween, ptPrefix + PtRBAfter:
		p.ReorgDepth = 1 + r.Intn(6)
		p.KTh = 1 + r.Intn(p.ReorgDepth)
	case ptPrefix + PtReorgAfter:
		p.ReorgDepth = 1 + r.Intn(6)
	}

	// In-flight calls.
	any := func(min int, from ...string) []string {
		var out []string
		for _, f := range from {
			if r.Intn(2) == 0 {
				out = append(out, f)
			}
		}
		for len(out) < min {
			out = append(out, from[r.Intn(len(from))])
		}
		sort.Strings(out)
		// dedupe
		var d []string
		for i, s := range out {
			if i == 0 || out[i-1] != s {
				d = append(d, s)
			}
		}
		return d
	}
	p.HoldMs = []int{0, 50, 300, 1200, 2500, 4500}[r.Intn(6)]
	switch p.State {
	case StIdle:
		if r.Intn(3) == 0 {
			p.Inflight = []string{CSubRead}
		}
	case StStorm:
		// Many answered queries per second: workers hand in results all the
		// time while Stop runs. A tiny block cache keeps the queries going
		// to the network.
		p.Inflight = []string{CBlockLoop, CCFLoop}
		p.ChainLen = 1200 + r.Intn(1300)
		p.Peers = nil
		for i, n := 0, 4+r.Intn(5); i < n; i++ {
			p.Peers = append(p.Peers, PHonest)
		}
		p.ConnCap = 0
		p.BlockCache = 30_000
		p.NCalls = 8 + r.Intn(9)
		p.HoldMs = []int{20, 80, 200, 400}[r.Intn(4)]
	case StQueries:
		p.Inflight = any(1, CGetBlock, CGetCF)
		p.MuteAtStop = pick(r, "silent", "filters", "blocks", "silent")
	case StRescanCU, StRescanRT, StRescanCur:
		p.Inflight = []string{CRescanErr, CRescanWt, CRescanUpd}
		switch p.State {
		case StRescanCU:
			p.MuteAtStop = pick(r, "filters", "silent")
		case StRescanRT:
			// block and filter headers of the new block must still arrive
			p.MuteAtStop = "filters"
		}
		if p.State == StRescanRT {
			// first attempt (0.05-1.5 s) or inside a later retry (> 6 s: a
			// GetCFilter with NumRetries(2) fails after 2+4 s)
			// Every even lap of the state rotation stops inside a later
			// retry, odd laps anywhere.
			if ((k-NumFixed)/len(States))%2 == 0 {
				p.HoldMs = 6300 + r.Intn(1500)
			} else {
				p.HoldMs = []int{50, 600, 1500, 3000, 6500}[r.Intn(5)]
			}
		}
	case StUtxo:
		p.Inflight = []string{CGetUtxo}
		p.MuteAtStop = pick(r, "filters", "blocks", "silent", "delay", "delay")
		// A scan against silent peers is only abandoned when its query has
		// used up its retries; keep most holds short.
		p.HoldMs = []int{50, 300, 1200, 2500}[r.Intn(4)]
	case StBroadcast, StRebroad:
		p.Inflight = []string{CSendTx}
		p.HoldMs = []int{0, 50, 300, 1200}[r.Intn(4)]
	case StSubs:
		p.Inflight = []string{CSubRead, CSubscribe}
	case StUnresp:
		p.Inflight = any(2, CGetBlock, CGetCF, CSendTx, CSubRead, CRescanErr)
		p.MuteAtStop = "silent"
	case StNoRead:
		p.Inflight = any(2, CGetBlock, CGetCF, CSendTx, CSubRead, CRescanErr)
		p.MuteAtStop = "noread"
		if p.ConnCap == 0 {
			p.ConnCap = []int{256, 1024, 4096}[r.Intn(3)]
		}
	case StNoPeers:
		p.Inflight = any(1, CGetBlock, CGetCF, CGetUtxo, CSendTx, CSubRead, CRescanErr)
	case ptPrefix + PtNtfnTip:
		p.Inflight = []string{CSubscribe}
	default:
		// mid-sync and reorganisation states: sometimes calls on top
		if r.Intn(2) == 0 {
			p.Inflight = any(1, CGetBlock, CGetCF, CSubRead, CRescanErr)
			p.MuteAtStop = pick(r, "filters", "blocks", "")
			p.HoldMs = 0
		}
	}
	has := func(k string) bool {
		for _, s := range p.Inflight {
			if s == k {
				return true
			}
		}
		return false
	}
	if has(CRescanErr) && !has(CRescanWt) {
		p.Inflight = append(p.Inflight, CRescanWt, CRescanUpd)
	}
	// Host names among the permanent peers: drawn from a generator of their
	// own, the rest of the plan does not depend on them.
	p.Names = namesFromSeed(seed, k)
	return p
}

// InflightKinds is the sorted list of in-flight call kinds.
func (p Plan) InflightKinds() string {
	if len(p.Inflight) == 0 {
		return "none"
	}
	s := append([]string(nil), p.Inflight...)
	sort.Strings(s)
	return strings.Join(s, "+")
}
