package c17

import (
	"fmt"
	"math/rand"
	"sort"
	"sync"
	"sync/atomic"
	"time"

	"github.com/btcsuite/btcd/chainhash/v2"
	"github.com/btcsuite/btcd/wire/v2"
)

// STOP WHILE A REBROADCAST IS BEING ANSWERED (stop state StRebroadAns, third
// list). A transaction was accepted earlier (it is pending in the client's
// broadcaster); one new block makes the client announce it again; the peers
// hold that announcement, Stop is called, and a planned time after Stop was
// CALLED they react: they request the transaction and then reject it with a
// seed-chosen reject message (or take it silently, or stay silent). What the
// re-announcement ends with - "confirmed meanwhile", "in the mempool",
// "invalid", accepted, nobody replied - is therefore decided while Stop is
// under way. The main list's rebroadcast state only has peers that never
// react to the re-announcement.

// StRebroadAns is the stop state of the family.
const StRebroadAns = "rebroadcast-answered"

// Reactions of a peer to the re-announced transaction.
const (
	RxReject = "reject" // getdata, then a reject message once the transaction arrived
	RxAccept = "accept" // getdata, nothing after the transaction arrived
	RxSilent = "silent" // no reaction at all
)

// rejClass is one reject message a peer may send for a transaction and what
// it means (the meanings are those of bitcoind / btcd peers).
type rejClass struct {
	Name    string
	Code    wire.RejectCode
	Reason  string
	Meaning string // confirmed | mempool | invalid | fee | unknown
}

var rejClasses = []rejClass{
	{"known", wire.RejectDuplicate, "txn-already-known", "confirmed"},
	{"exists", wire.RejectDuplicate, "transaction already exists", "confirmed"},
	{"in-mempool", wire.RejectDuplicate, "txn-already-in-mempool", "mempool"},
	{"have-tx", wire.RejectDuplicate, "already have transaction 5c1f09ab", "mempool"},
	{"missing-inputs", wire.RejectInvalid, "bad-txns-inputs-missingorspent", "invalid"},
	{"non-final", wire.RejectNonstandard, "non-final", "invalid"},
	{"conflict", wire.RejectDuplicate, "txn-mempool-conflict", "invalid"},
	{"spent", wire.RejectDuplicate, "output 6f5e:1 already spent by transaction 9a1c in the memory pool", "invalid"},
	{"fee", wire.RejectInsufficientFee, "min relay fee not met", "fee"},
	{"other", wire.RejectDuplicate, "duplicate of something else", "unknown"},
}

func rejClassByName(n string) rejClass {
	for _, c := range rejClasses {
		if c.Name == n {
			return c
		}
	}
	return rejClasses[len(rejClasses)-1]
}

func rejNamesMeaning(m string) []string {
	var out []string
	for _, c := range rejClasses {
		if c.Meaning == m {
			out = append(out, c.Name)
		}
	}
	return out
}

// Reaction of one peer.
type Reaction struct {
	Kind  string
	Class string `json:",omitempty"` // reject class name
}

// RejPlan is the rebroadcast part of a plan.
type RejPlan struct {
	Fixed string `json:",omitempty"`
	// Reactions[i] is the reaction of peer i to the RE-announced transaction
	// (every peer takes the first announcement silently).
	Reactions []Reaction
	// AnswerMs: the peers react this long after Stop was CALLED (< 0: right
	// before Stop is called, the reactions race with it).
	AnswerMs int
	// RejectDelayMs: between the arrival of the transaction and the reject.
	RejectDelayMs int
	// Client configuration: Config.BroadcastTimeout and the exported
	// QueryRejectTimeout (how long a peer that requested the transaction may
	// take to reject it).
	BroadcastTimeoutMs int
	RejectTimeoutMs    int
	// SecondSend: one more SendTransaction (no peer reacts to it) is pending
	// when Stop is called.
	SecondSend bool
	Blocks     int // new blocks announced (1-2)
}

// Expect is what the re-announcement ends with if every planned reaction is
// delivered (fingerprints / counters only; nothing is asserted about it).
func (rp *RejPlan) Expect() string {
	replied, rejected := 0, 0
	byMeaning := map[string]int{}
	for _, rx := range rp.Reactions {
		switch rx.Kind {
		case RxAccept:
			replied++
		case RxReject:
			replied++
			rejected++
			byMeaning[rejClassByName(rx.Class).Meaning]++
		}
	}
	switch {
	case replied == 0:
		return "nobody-replied"
	case rejected == 0:
		return "accepted"
	case rejected == replied:
		var ms []string
		for m := range byMeaning {
			ms = append(ms, m)
		}
		sort.Slice(ms, func(i, j int) bool {
			if byMeaning[ms[i]] != byMeaning[ms[j]] {
				return byMeaning[ms[i]] > byMeaning[ms[j]]
			}
			return ms[i] < ms[j]
		})
		if len(ms) > 1 && byMeaning[ms[0]] == byMeaning[ms[1]] {
			return "all-reject:tie"
		}
		return "all-reject:" + ms[0]
	}
	return "some-reject"
}

func answerBucket(ms int) string {
	switch {
	case ms < 0:
		return "before-stop"
	case ms < 20:
		return "<20ms"
	case ms < 200:
		return "<200ms"
	}
	return ">=200ms"
}

// rejPlanFromSeed fills the seed-chosen rebroadcast part for n peers.
// meaning: what most peers' reject says ("" = seed-chosen mixture).
func rejPlanFromSeed(r *rand.Rand, n int, meaning string) *RejPlan {
	rp := &RejPlan{
		AnswerMs:           []int{-1, 0, 5, 30, 100, 250, 400, 800}[r.Intn(8)],
		BroadcastTimeoutMs: []int{2500, 3500, 5000}[r.Intn(3)],
		RejectTimeoutMs:    []int{300, 600, 1000}[r.Intn(3)],
		SecondSend:         r.Intn(3) == 0,
		Blocks:             1 + r.Intn(2),
	}
	rp.RejectDelayMs = []int{0, 0, 10, 60, 120}[r.Intn(5)]
	if rp.RejectDelayMs > rp.RejectTimeoutMs-200 {
		rp.RejectDelayMs = rp.RejectTimeoutMs - 200
	}
	names := rejNamesMeaning(meaning)
	for i := 0; i < n; i++ {
		switch {
		case meaning != "" && r.Intn(8) != 0:
			rp.Reactions = append(rp.Reactions, Reaction{RxReject, names[r.Intn(len(names))]})
		case meaning != "":
			// the odd one out: another reject, or no reject at all
			switch r.Intn(4) {
			case 0:
				rp.Reactions = append(rp.Reactions, Reaction{Kind: RxAccept})
			case 1:
				rp.Reactions = append(rp.Reactions, Reaction{Kind: RxSilent})
			default:
				rp.Reactions = append(rp.Reactions, Reaction{RxReject, rejClasses[r.Intn(len(rejClasses))].Name})
			}
		default:
			switch r.Intn(5) {
			case 0:
				rp.Reactions = append(rp.Reactions, Reaction{Kind: RxAccept})
			case 1:
				rp.Reactions = append(rp.Reactions, Reaction{Kind: RxSilent})
			default:
				rp.Reactions = append(rp.Reactions, Reaction{RxReject, rejClasses[r.Intn(len(rejClasses))].Name})
			}
		}
	}
	return rp
}

// rejState is the run-time part: what the peers do with transaction
// announcements in this stop state.
type rejState struct {
	e       *env
	mu      sync.Mutex
	tx      chainhash.Hash
	armed   bool // the first broadcast is over: announcements of tx are held now
	react   map[string]Reaction
	gate    chan struct{}
	once    sync.Once
	wg      sync.WaitGroup
	held    atomic.Int64 // re-announcements held by peers
	getdata atomic.Int64 // requests sent after the gate opened
	txSeen  atomic.Int64 // the transaction arrived (again) at a peer
	txDurin atomic.Int64 // ... while Stop was running
	rejects atomic.Int64
	openAt  atomic.Int64
	sent    map[string]int64
}

func newRejState(e *env) *rejState {
	return &rejState{e: e, react: map[string]Reaction{}, gate: make(chan struct{}), sent: map[string]int64{}}
}

func (rs *rejState) open() {
	rs.once.Do(func() { rs.openAt.Store(time.Now().UnixNano()); close(rs.gate) })
}

// onMsg scripts a peer's handling of transaction announcements and
// transactions; it returns true when the message was dealt with.
func (rs *rejState) onMsg(sp *simPeer, m wire.Message) bool {
	switch t := m.(type) {
	case *wire.MsgInv:
		handled := false
		for _, iv := range t.InvList {
			if iv.Type != wire.InvTypeTx && iv.Type != wire.InvTypeWitnessTx {
				continue
			}
			handled = true
			rs.mu.Lock()
			ours, armed := iv.Hash == rs.tx, rs.armed
			rx := rs.react[sp.Addr]
			rs.mu.Unlock()
			sp.e.txInvSeen.Add(1)
			gd := wire.NewMsgGetData()
			_ = gd.AddInvVect(wire.NewInvVect(iv.Type, &iv.Hash))
			switch {
			case !ours:
				// another transaction (the second SendTransaction): no reaction
			case !armed:
				// first announcement: requested at once, taken silently
				if !sp.Silent.Load() {
					_ = sp.Send(gd)
				}
			default:
				rs.held.Add(1)
				if rx.Kind == RxSilent || rx.Kind == "" {
					continue
				}
				rs.wg.Add(1)
				go func() {
					defer rs.wg.Done()
					<-rs.gate
					if sp.Send(gd) == nil {
						rs.getdata.Add(1)
					}
				}()
			}
		}
		return handled
	case *wire.MsgTx:
		h := t.TxHash()
		rs.mu.Lock()
		ours, armed := h == rs.tx, rs.armed
		rx := rs.react[sp.Addr]
		rs.mu.Unlock()
		if !ours || !armed {
			return true
		}
		rs.txSeen.Add(1)
		if rs.e.phase() == 1 {
			rs.txDurin.Add(1)
		}
		if rx.Kind != RxReject {
			return true
		}
		cl := rejClassByName(rx.Class)
		rej := wire.NewMsgReject(wire.CmdTx, cl.Code, cl.Reason)
		rej.Hash = h
		rs.wg.Add(1)
		go func() {
			defer rs.wg.Done()
			if d := rs.e.p.Rej.RejectDelayMs; d > 0 {
				time.Sleep(time.Duration(d) * time.Millisecond)
			}
			if sp.Send(rej) == nil {
				rs.rejects.Add(1)
				rs.mu.Lock()
				rs.sent[cl.Meaning]++
				rs.mu.Unlock()
			}
		}()
		return true
	}
	return false
}

// phase: 0 before Stop was called, 1 while it runs, 2 after it returned.
func (e *env) phase() int {
	if !e.stopCalled.Load() {
		return 0
	}
	select {
	case <-e.stopReturned:
		return 2
	default:
		return 1
	}
}

// setupRebroadAns brings the synced client into the state: transaction
// accepted, new block(s) announced, the re-announcement held by the peers.
func (e *env) setupRebroadAns() (reached bool) {
	rp, rs := e.p.Rej, e.rej
	tx := e.makeTx()
	rs.mu.Lock()
	for i, sp := range e.peers {
		rx := Reaction{Kind: RxSilent}
		if i < len(rp.Reactions) {
			rx = rp.Reactions[i]
		}
		rs.react[sp.Addr] = rx
	}
	rs.tx = tx.TxHash()
	rs.mu.Unlock()
	first := e.callSendTx(tx)
	select {
	case <-first.done:
	case <-time.After(20 * time.Second):
		e.note("first broadcast still pending")
		return false
	}
	e.mu.Lock()
	ferr := first.Err
	e.mu.Unlock()
	if ferr != "" {
		e.note("first broadcast failed: %s", ferr)
		return false
	}
	rs.mu.Lock()
	rs.armed = true
	rs.mu.Unlock()
	conn := 0
	for _, sp := range e.peers {
		if sp.Conn() != nil {
			conn++
		}
	}
	nb := e.ext[:rp.Blocks]
	e.setTip(nb[len(nb)-1])
	e.announce(e.p.Announce, nb...)
	// Every connected peer holds the re-announcement (at least one does).
	l2WaitFor(10*time.Second, func() bool { return int(rs.held.Load()) >= conn })
	if rs.held.Load() == 0 {
		e.note("the transaction was not announced again")
		return false
	}
	e.note("re-announcement held by %d of %d connected peers", rs.held.Load(), conn)
	if rp.SecondSend {
		e.callSendTx(e.makeTx())
	}
	time.Sleep(time.Duration(e.p.HoldMs) * time.Millisecond)
	return true
}

// reportRebroadAns writes the counters of the family.
func (e *env) reportRebroadAns(reached bool) {
	rp, rs := e.p.Rej, e.rej
	if rp == nil || rs == nil {
		return
	}
	res := e.res
	res.Count("rebroadcast_answered_scenarios", 1)
	res.Count("rebroadcast_answered/reannouncements_held_at_stop", rs.held.Load())
	res.Count("rebroadcast_answered/requests_sent_after_release", rs.getdata.Load())
	res.Count("rebroadcast_answered/tx_served_again", rs.txSeen.Load())
	res.Count("rebroadcast_answered/tx_served_while_stop_ran", rs.txDurin.Load())
	res.Count("rebroadcast_answered/rejects_sent", rs.rejects.Load())
	rs.mu.Lock()
	for m, n := range rs.sent {
		res.Count("rebroadcast_answered/rejects_sent/"+m, n)
	}
	rs.mu.Unlock()
	if reached {
		res.Count("rebroadcast_answered/planned_outcome/"+rp.Expect(), 1)
		if rs.txDurin.Load() > 0 {
			res.Count("rebroadcast_answered/outcome_decided_while_stop_ran/"+rp.Expect(), 1)
		}
		res.Mark(fmt.Sprintf("rebroadcast-answered|%s|answer=%s|second-send=%v|decided-during-stop=%v",
			rp.Expect(), answerBucket(rp.AnswerMs), rp.SecondSend, rs.txDurin.Load() > 0))
	}
}
