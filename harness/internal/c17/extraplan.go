package c17

import "math/rand"

// The third list of scenarios (after the main list and the peer-state API
// family): two fixed scenarios, then Stop while a rebroadcast is being
// answered (rebroad.go) with the host-name dimension (names.go) on top.

// NumExtraFixed is the number of fixed scenarios at the start of the list.
const NumExtraFixed = 2

// extraKBase separates the scenario numbers of the third list.
const extraKBase = 200000

// ExtraPlanFromSeed derives scenario j of the third list: a pure function of
// (seed, j).
func ExtraPlanFromSeed(seed int64, j int) Plan {
	r := rand.New(rand.NewSource(seed*5_000_011 + int64(j)*611953 + 53))
	base := func(st string) Plan {
		p := PlanFromSeed(seed, NumFixed+stateIndex(st)+len(States)*(8000+j))
		p.K = extraKBase + j
		for i, kd := range p.Peers {
			if kd != PHonest && kd != PSlow {
				p.Peers[i] = PSlow
			}
		}
		p.ConnCap, p.MuteAtStop, p.API = 0, "", nil
		return p
	}

	switch j {
	case 0:
		// Fixed: an idle, synced client one of whose permanent peers is a host
		// name that never resolves (every lookup fails: before, during and
		// after Stop); Stop.
		p := base(StIdle)
		p.Fixed = "idle-client-with-a-permanent-peer-whose-name-never-resolves"
		p.ChainLen, p.HdrBatch, p.Preset = 60, 2000, 0
		p.Peers = []string{PHonest, PHonest}
		p.Inflight, p.StopDelayMs, p.Persist = nil, 0, false
		p.Names = &NamePlan{Fixed: p.Fixed, MinRetries: 3, Entries: []NameEntry{{Host: "never.resolves.sim:18444", Kind: NameDeadErr}}}
		return p
	case 1:
		// Fixed: transaction accepted, one block announced, the client
		// announces the transaction again; Stop is called; 400 ms later every
		// peer requests it and rejects it as already confirmed.
		p := base(StRebroad)
		p.Fixed = "every-peer-rejects-the-rebroadcast-as-confirmed-400ms-after-stop-was-called"
		p.State = StRebroadAns
		p.ChainLen, p.HdrBatch, p.Preset = 80, 2000, 1
		p.Peers = []string{PHonest, PHonest, PHonest}
		p.Inflight, p.StopDelayMs, p.HoldMs, p.Announce, p.Names = []string{CSendTx}, 0, 50, "headers", nil
		p.Rej = &RejPlan{Fixed: p.Fixed, AnswerMs: 400, RejectDelayMs: 0, BroadcastTimeoutMs: 5000, RejectTimeoutMs: 300, Blocks: 1,
			Reactions: []Reaction{{RxReject, "known"}, {RxReject, "known"}, {RxReject, "exists"}}}
		return p
	}

	jj := j - NumExtraFixed
	p := base(StRebroad)
	p.State = StRebroadAns
	p.Inflight = []string{CSendTx}
	p.ChainLen = 50 + r.Intn(400)
	if len(p.Peers) > 5 {
		p.Peers = p.Peers[:5]
	}
	if p.HoldMs > 300 {
		p.HoldMs = 300
	}
	// What most peers say rotates with the scenario number (shifted by the
	// seed); every fourth scenario is a seed-chosen mixture.
	meaning := []string{"confirmed", "mempool", "invalid", "", "confirmed", "fee"}[(jj+int(seed%6)+6)%6]
	p.Rej = rejPlanFromSeed(r, len(p.Peers), meaning)
	return p
}
