package c17

import (
	"fmt"
	"path/filepath"
	"time"

	"github.com/btcsuite/btcwallet/walletdb"
	_ "github.com/btcsuite/btcwallet/walletdb/bdb"
	"github.com/lightninglabs/neutrino/headerfs"

	"verif/internal/chaingen"
	"verif/internal/evid"
	"verif/internal/l2"
	"verif/internal/ref"
)

// ValidateStores is l2.World.ValidateStored for stores opened by the caller:
// valid block chain (C01), filter tip <= block tip and every committed filter
// header equal to the generator's ground truth for the stored block at that
// height (C03; all C17 peers are honest for filters, they are only ever silent).
func ValidateStores(g *chaingen.Gen, bh headerfs.BlockHeaderStore, fh headerfs.FilterHeaderStore) (what string, blockTip, filterTip int) {
	chain, err := l2.ReadChain(bh)
	if err != nil {
		return "block header store unreadable: " + err.Error(), -1, -1
	}
	if i, r := ref.CheckChain(g.P, chain, time.Now()); r != "" {
		return fmt.Sprintf("stored block header %d breaks rule %s", i, r), len(chain) - 1, -1
	}
	fc, err := l2.ReadFilterChain(fh)
	if err != nil {
		return "filter header store unreadable: " + err.Error(), len(chain) - 1, -1
	}
	if len(fc) > len(chain) {
		return fmt.Sprintf("filter tip %d above block tip %d", len(fc)-1, len(chain)-1), len(chain) - 1, len(fc) - 1
	}
	for h := 1; h < len(fc); h++ {
		n := g.Lookup(chain[h].BlockHash())
		if n == nil {
			return "stored block unknown to the generator", len(chain) - 1, len(fc) - 1
		}
		if fc[h] != n.FilterHeader {
			return fmt.Sprintf("committed filter header at height %d differs from the ground truth", h), len(chain) - 1, len(fc) - 1
		}
	}
	return "", len(chain) - 1, len(fc) - 1
}

// reopen performs oracle (3): the data directory is opened again (database,
// both header stores), the stores are validated, and a second client started
// on the directory must reach the honest tip.
func (e *env) reopen(witness func(map[string]any) any) string {
	w, p := e.w, e.p
	e.res.Count("reopen_checks", 1)
	cls := p.State
	db, err := walletdb.Open("bdb", filepath.Join(w.Dir, "neutrino.db"), true, 10*time.Second, false)
	if err != nil {
		e.res.Violate(evid.Sig("reopen", "database-does-not-open", cls),
			"after Stop returned and the database was closed it cannot be opened again: "+err.Error(), witness(nil))
		return "db-open-failed"
	}
	bh, err := headerfs.NewBlockHeaderStore(w.Dir, db, w.G.P)
	if err != nil {
		_ = db.Close()
		e.res.Violate(evid.Sig("reopen", "block-header-store-does-not-open", cls),
			"after Stop the block header store cannot be opened again: "+err.Error(), witness(nil))
		return "block-store-open-failed"
	}
	fh, err := headerfs.NewFilterHeaderStore(w.Dir, db, headerfs.RegularFilter, w.G.P, nil)
	if err != nil {
		_ = db.Close()
		e.res.Violate(evid.Sig("reopen", "filter-header-store-does-not-open", cls),
			"after Stop the filter header store cannot be opened again: "+err.Error(), witness(nil))
		return "filter-store-open-failed"
	}
	what, bt, ft := ValidateStores(w.G, bh, fh)
	_ = db.Close()
	e.note("reopened: block tip %d filter tip %d %s", bt, ft, what)
	if what != "" {
		e.res.Violate(evid.Sig("reopen", "stores-invalid", cls, shape(what)),
			"the stores reopened after Stop are not valid: "+what, witness(map[string]any{"block_tip": bt, "filter_tip": ft}))
		return "stores-invalid"
	}
	e.res.Count("reopen_ok", 1)
	if ft < bt {
		e.res.Count("reopen_filter_tip_behind_block_tip", 1)
	}
	if int32(bt) < e.tip.Height {
		e.res.Count("reopen_block_tip_behind_honest_tip", 1)
	}

	if p.Start != nil && !p.Start.SecondClient {
		// start-state family: this scenario ends with the validated stores.
		return "ok-stores-only"
	}

	// Second client on the same directory; every peer is now plainly honest.
	e.allHonest()
	e.hook.mu.Lock()
	e.hook.armed = false
	e.hook.mu.Unlock()
	if err := w.StartClient(nil, l2.ClientOpts{Dir: w.Dir, PersistToDisk: p.Persist}); err != nil {
		e.res.Violate(evid.Sig("reopen", "second-client-does-not-start", cls),
			"a second client cannot be started on the directory: "+err.Error(), witness(nil))
		return "second-client-start-failed"
	}
	start := time.Now()
	lastChange := start
	prev := w.Sample()
	ok := false
	for time.Since(start) < SecondSyncMax {
		s := w.Sample()
		if s.Err == "" && s.BestHash == e.tip.Hash {
			ok = true
			break
		}
		if s != prev {
			prev, lastChange = s, time.Now()
		}
		time.Sleep(10 * time.Millisecond)
	}
	out := "ok"
	switch {
	case ok:
		e.res.Count("second_client_synced", 1)
		if v := w.ValidateStored(true); v != "" {
			e.res.Violate(evid.Sig("reopen", "second-client-stores-invalid", cls, shape(v)),
				"after the second client synced: "+v, witness(nil))
			out = "second-client-stores-invalid"
		}
	case time.Since(lastChange) > SecondSyncMax/3:
		e.res.Violate(evid.Sig("reopen", "second-client-stuck", cls),
			fmt.Sprintf("a second client started on the reopened directory (block tip %d, filter tip %d) did not reach the honest tip %d within %v with only honest peers, and its state did not change during the last third of that time (best height %d)",
				bt, ft, e.tip.Height, SecondSyncMax, prev.BestHeight), witness(nil))
		out = "second-client-stuck"
	default:
		e.res.Inconcl("second client still progressing at its deadline")
		out = "second-client-slow"
	}
	if okStop, _ := w.StopClient(60 * time.Second); !okStop {
		e.res.Inconcl("Stop of the second (idle) client did not return within 60 s")
	}
	return out
}

// shape strips numbers from a validator message for use in a signature.
func shape(s string) string {
	out := make([]rune, 0, len(s))
	for _, r := range s {
		if r >= '0' && r <= '9' {
			continue
		}
		if r == ' ' {
			r = '-'
		}
		out = append(out, r)
	}
	if len(out) > 60 {
		out = out[:60]
	}
	return string(out)
}
