package c17

import (
	"bytes"
	"context"
	"encoding/binary"
	"fmt"
	"math/rand"
	"os"
	"path/filepath"
	"sort"
	"strings"
	"sync/atomic"
	"time"

	"github.com/btcsuite/btcd/wire/v2"
	"github.com/btcsuite/btcwallet/walletdb"
	"github.com/lightninglabs/neutrino"
	"github.com/lightninglabs/neutrino/headerfs"

	"verif/internal/chaingen"
	"verif/internal/evid"
	"verif/internal/l2"
)

// START-STATE FAMILY (fourth list). "From any state" includes the states a
// client is in BEFORE its subsystems run: a ChainService that was constructed
// and never started, and one whose Start returned an error. The realistic way
// into the second: Config.HeadersImport is set and the import fails (a file of
// another network, a truncated file, a file that does not connect to the
// stores, a missing file), so ChainService.Start returns the import error
// before any subsystem was started; the application then calls Stop to clean
// up, closes the database and opens the directory again. The family drives
// exactly that and judges it with the oracle of the main list: (1) Stop returns
// (watchdog + goroutine-dump argument of run.go/dump.go, nothing weaker), (2)
// every public call in flight returns, one call of every kind made after Stop
// returns, (3) the directory reopens with valid stores and (where planned) a
// second client WITHOUT the import syncs a short chain from an honest peer and
// stops. The last shape is a started client: Stop, Stop again, Start after
// Stop: each must return.

// Shapes of the family (Plan.State is "start:"+shape).
const (
	stStartPrefix   = "start:"
	ShNeverStarted  = "never-started"
	ShStartFailed   = "start-failed"
	ShStartedTwice  = "started-stop-twice"
	CBestBlock      = "BestBlock"
	CGetHeader      = "GetBlockHeader"
	CStopAgain      = "Stop.again"
	CStartAfterStop = "Start.after-stop"
)

// What makes the import (and with it Start) fail. Every one of them is
// refused by the importer BEFORE it writes anything to the stores.
const (
	FailWrongNet     = "file-of-another-network"
	FailTruncated    = "truncated-block-header-file"
	FailGap          = "file-starts-above-the-store-tip"
	FailDisconnected = "first-header-does-not-connect-to-the-store"
	FailMissingFile  = "filter-header-file-missing"
	FailBrokenLink   = "header-missing-inside-the-file"
	FailNoFilterPath = "filter-source-not-configured"
)

var importFailures = []string{FailWrongNet, FailTruncated, FailGap, FailDisconnected, FailMissingFile, FailBrokenLink, FailNoFilterPath}

// StartPlan is the start-state part of a plan.
type StartPlan struct {
	Fixed string `json:",omitempty"`
	Shape string
	// ImportFail: Config.HeadersImport is set and the import fails this way
	// ("" = no import configured).
	ImportFail string `json:",omitempty"`
	// Pre: public calls made before Stop is called (the blocking ones are in
	// flight when it is).
	Pre []string `json:",omitempty"`
	// SyncFirst (started shape): Stop is called once the client is synced
	// (else right after Start returned).
	SyncFirst bool `json:",omitempty"`
	// StopAgain / StartAgain: a second Stop / a Start after Stop has returned.
	StopAgain  bool `json:",omitempty"`
	StartAgain bool `json:",omitempty"`
	// SecondClient: after the stores were reopened and validated a second
	// client (no import configured) is started on the directory, must reach
	// the honest tip and is stopped.
	SecondClient bool
}

// NumStartFixed is the number of fixed scenarios at the start of the list.
const NumStartFixed = 4

// startKBase separates the scenario numbers of the family.
const startKBase = 300000

// StartPlanFromSeed derives scenario i of the family: a pure function of
// (seed, i); i < NumStartFixed does not depend on the seed.
func StartPlanFromSeed(seed int64, i int) Plan {
	r := rand.New(rand.NewSource(seed*7_000_003 + int64(i)*32452843 + 61))
	p := Plan{K: startKBase + i, Seed: seed*1_000_003 + int64(startKBase+i), Preset: i % 3,
		HdrBatch: 2000, Peers: []string{PHonest}, ChainLen: 60, KTh: 1, NCalls: 1, Announce: "headers"}
	sp := &StartPlan{}
	p.Start = sp
	switch i {
	case 0:
		sp.Fixed = "constructed-never-started-then-stop"
		sp.Shape = ShNeverStarted
	case 1:
		sp.Fixed = "import-of-a-file-of-another-network-fails-start-then-stop"
		sp.Shape, sp.ImportFail = ShStartFailed, FailWrongNet
		sp.StartAgain = true
	case 2:
		sp.Fixed = "import-of-a-file-that-does-not-connect-fails-start-then-stop-then-reopen-and-sync"
		sp.Shape, sp.ImportFail = ShStartFailed, FailGap
		sp.SecondClient, p.Persist = true, true
	case 3:
		sp.Fixed = "started-synced-stop-stop-again-start-again"
		sp.Shape, sp.SyncFirst, sp.StopAgain, sp.StartAgain, sp.SecondClient = ShStartedTwice, true, true, true, true
	}
	if i < NumStartFixed {
		p.Seed = int64(startKBase + i) // the chain as well is the same for every seed
		p.Fixed = sp.Fixed
		p.State = stStartPrefix + sp.Shape
		return p
	}

	ii := i - NumStartFixed
	sp.Shape = []string{ShStartFailed, ShNeverStarted, ShStartFailed, ShStartedTwice}[(ii+int(seed%4)+4)%4]
	p.ChainLen = 30 + r.Intn(90)
	p.Persist = r.Intn(2) == 0
	p.StopDelayMs = []int{0, 0, 5, 40}[r.Intn(4)]
	sp.SecondClient = r.Intn(2) == 0
	any := func(from ...string) []string {
		var out []string
		for _, f := range from {
			if r.Intn(2) == 0 {
				out = append(out, f)
			}
		}
		if len(out) == 0 {
			out = append(out, from[r.Intn(len(from))])
		}
		sort.Strings(out)
		return out
	}
	switch sp.Shape {
	case ShStartFailed:
		// The kind of failure rotates with the scenario number (shifted by
		// the seed) so that a handful of scenarios covers several.
		sp.ImportFail = importFailures[(ii/2+int(seed%int64(len(importFailures)))+len(importFailures))%len(importFailures)]
		sp.Pre = any(CGetUtxo, CSubRead, CBestBlock, CGetHeader, CGetBlock, CSendTx)
		sp.StartAgain = r.Intn(2) == 0
		sp.StopAgain = r.Intn(2) == 0
	case ShNeverStarted:
		sp.Pre = any(CGetUtxo, CSubRead, CBestBlock, CGetHeader, CGetBlock, CSendTx)
		sp.StopAgain = r.Intn(2) == 0
	case ShStartedTwice:
		sp.SyncFirst = r.Intn(3) != 0
		sp.StopAgain, sp.StartAgain = true, true
		if sp.SyncFirst {
			sp.Pre = any(CGetUtxo, CSubRead, CBestBlock, CGetHeader, CGetBlock)
		} else {
			sp.Pre = any(CSubRead, CBestBlock, CGetHeader)
		}
		if r.Intn(2) == 0 {
			p.Peers = append(p.Peers, PHonest)
		}
	}
	p.State = stStartPrefix + sp.Shape
	return p
}

// StateTag names the start state in signatures: never-started |
// start-failed:<what made the import fail> | started.
func (sp *StartPlan) StateTag() string {
	switch sp.Shape {
	case ShNeverStarted:
		return "never-started"
	case ShStartFailed:
		return "start-failed:" + sp.ImportFail
	}
	return "started"
}

func (sp *StartPlan) preKinds() string {
	if len(sp.Pre) == 0 {
		return "none"
	}
	return strings.Join(sp.Pre, "+")
}

// StartStateScenario is scenario i of the family.
func StartStateScenario(seed int64, i int, res *l2.Result) {
	RunStartState(StartPlanFromSeed(seed, i), res)
}

// importMeta is the 10-byte metadata of chainimport's file format
// (chainimport/headers.go): network magic (uint32 LE), format version (0),
// header type (0 block / 1 regular filter), start height (uint32 LE); raw
// headers follow (80 bytes / 32 bytes each).
func importMeta(magic wire.BitcoinNet, htype headerfs.HeaderType, start uint32) []byte {
	b := make([]byte, 10)
	binary.LittleEndian.PutUint32(b[0:], uint32(magic))
	b[4] = 0
	b[5] = byte(htype)
	binary.LittleEndian.PutUint32(b[6:], start)
	return b
}

// writeFailingImport writes a pair of import files cut from the honest chain
// (heights 0..n of path unless the kind says otherwise) that the importer
// must refuse in the planned way, and returns the import configuration.
func writeFailingImport(dir string, g *chaingen.Gen, path []*chaingen.Node, kind string, rng *rand.Rand) (*neutrino.HeadersImportConfig, error) {
	if err := os.MkdirAll(dir, 0o755); err != nil {
		return nil, err
	}
	n := len(path) / 2
	if n < 8 {
		n = len(path) - 1
	}
	nodes := append([]*chaingen.Node(nil), path[:n+1]...)
	start, magic := uint32(0), g.P.Net
	switch kind {
	case FailWrongNet:
		magic = wire.MainNet
		if g.P.Net == wire.MainNet {
			magic = wire.TestNet3
		}
	case FailGap:
		start, nodes = 5, nodes[5:]
	case FailDisconnected:
		// Labelled as starting at height 1, but the first header is the one
		// of height 2: its PrevBlock is not the stored genesis block.
		start, nodes = 1, nodes[2:]
	case FailBrokenLink:
		m := len(nodes) / 2
		nodes = append(nodes[:m:m], nodes[m+1:]...)
	}
	var bb, fb bytes.Buffer
	for _, nd := range nodes {
		if err := nd.Hdr.Serialize(&bb); err != nil {
			return nil, err
		}
		fb.Write(nd.FilterHeader[:])
	}
	bFile := append(importMeta(magic, headerfs.Block, start), bb.Bytes()...)
	fFile := append(importMeta(magic, headerfs.RegularFilter, start), fb.Bytes()...)
	if kind == FailTruncated {
		bFile = bFile[:len(bFile)-1-rng.Intn(79)]
	}
	cfg := &neutrino.HeadersImportConfig{
		BlockHeadersSource:  filepath.Join(dir, "block-headers.bin"),
		FilterHeadersSource: filepath.Join(dir, "filter-headers.bin"),
	}
	if err := os.WriteFile(cfg.BlockHeadersSource, bFile, 0o644); err != nil {
		return nil, err
	}
	if kind != FailMissingFile {
		if err := os.WriteFile(cfg.FilterHeadersSource, fFile, 0o644); err != nil {
			return nil, err
		}
	}
	if kind == FailNoFilterPath {
		cfg.FilterHeadersSource = ""
	}
	return cfg, nil
}

// callStart is a named function so that the goroutine is recognisable in dumps.
func callStart(svc *neutrino.ChainService, gid *atomic.Int64, ch chan<- error) {
	gid.Store(int64(CurGID()))
	ch <- svc.Start(context.Background())
}

// RunStartState executes one plan of the family.
func RunStartState(p Plan, res *l2.Result) {
	sp := p.Start
	res.Name = fmt.Sprintf("c17-start-%d-%s", p.K-startKBase, sp.Shape)
	e := &env{p: p, res: res, hook: newPointHook(), trig: newTrigger(),
		stopReturned: make(chan struct{}), rescanQuit: make(chan struct{})}
	oc := outcome{stop: "not-called", callers: "-", reopen: "-"}
	reached := false
	startClass := "-"
	defer func() {
		res.Fingerprint = fmt.Sprintf("%s|fail=%s|persist=%v|pre=%s|again=stop:%v,start:%v|second-client=%v|start=%s|stop=%s callers=%s reopen=%s",
			p.State, orDash(sp.ImportFail), p.Persist, sp.preKinds(), sp.StopAgain, sp.StartAgain, sp.SecondClient,
			startClass, oc.stop, oc.callers, oc.reopen)
		res.Nontrivial = reached && oc.stop != "not-called"
		res.Count("state/"+p.State, 1)
		res.Count("start_state_scenarios", 1)
		res.Count("start_state/shape/"+sp.Shape, 1)
		if sp.ImportFail != "" {
			res.Count("start_state/import_failure_planned/"+sp.ImportFail, 1)
		}
		if reached {
			res.Count("state_reached/"+p.State, 1)
			res.Count("start_state/reached/"+sp.StateTag(), 1)
			if oc.stop != "not-called" {
				res.Count("start_state/stop_called_in/"+sp.Shape+"/outcome="+oc.stop, 1)
				res.Mark(fmt.Sprintf("start-state|%s|pre=%s|persist=%v|stop=%s", sp.StateTag(), sp.preKinds(), p.Persist, oc.stop))
			}
		}
		e.mu.Lock()
		res.Sample = map[string]any{"plan": p, "calls": e.calls, "notes": e.notes, "fingerprint": res.Fingerprint}
		e.mu.Unlock()
	}()

	w := l2.NewWorld(l2.Config{Seed: p.Seed, Preset: p.Preset, Interval: 4 + int(p.Seed%11), SpacingSec: 4,
		GenesisAgo: spanFor(p.ChainLen)})
	e.w = w
	defer w.Cleanup()
	trunk := w.G.Extend(w.G.Genesis, p.ChainLen, chaingen.PaceNormal)
	e.tip = trunk[len(trunk)-1]
	e.ext = w.G.Extend(e.tip, 2, 0)
	e.addPeers()
	neutrino.VerifSetPointHook(e.hook.fn)
	defer neutrino.VerifSetPointHook(nil)

	witness := func(extra map[string]any) any {
		e.mu.Lock()
		defer e.mu.Unlock()
		m := map[string]any{"plan": p, "calls": e.calls, "notes": append([]string(nil), e.notes...),
			"event_log_tail": w.Log.Tail(40)}
		for k, v := range extra {
			m[k] = v
		}
		return m
	}

	// The application's part: directory, database, configuration, service.
	dir := filepath.Join(l2.Scratch(), fmt.Sprintf("c17-start-%d-%d", p.K, time.Now().UnixNano()))
	if err := os.MkdirAll(dir, 0o755); err != nil {
		res.Inconcl("scratch directory: " + err.Error())
		return
	}
	w.Dir = dir
	db, err := walletdb.Create("bdb", filepath.Join(dir, "neutrino.db"), true, 10*time.Second, false)
	if err != nil {
		res.Inconcl("database: " + err.Error())
		return
	}
	w.DB = db
	defer func() {
		if w.DB != nil {
			_ = w.DB.Close()
			w.DB = nil
		}
	}()
	var addrs []string
	for _, peer := range e.peers {
		addrs = append(addrs, peer.Addr)
	}
	cfg := neutrino.Config{DataDir: dir, Database: db, ChainParams: *w.G.P, ConnectPeers: addrs,
		Dialer: w.Net.Dial, PersistToDisk: p.Persist}
	if sp.ImportFail != "" {
		impDir := dir + "-import"
		defer os.RemoveAll(impDir)
		ic, err := writeFailingImport(impDir, w.G, e.tip.Path(), sp.ImportFail, w.Rng)
		if err != nil {
			res.Inconcl("import files: " + err.Error())
			return
		}
		cfg.HeadersImport = ic
	}
	svc, err := neutrino.NewChainService(cfg)
	if err != nil {
		res.Inconcl("NewChainService: " + err.Error())
		return
	}
	w.Svc = svc
	e.src = &neutrino.RescanChainSource{ChainService: svc}
	e.note("service constructed (import configured: %v)", cfg.HeadersImport != nil)

	// --- Start (or not) -----------------------------------------------------
	switch sp.Shape {
	case ShNeverStarted:
		reached = true
		e.note("Start is never called")
	default:
		var gid atomic.Int64
		ch := make(chan error, 1)
		go callStart(svc, &gid, ch)
		var serr error
		select {
		case serr = <-ch:
		case <-time.After(StopWatchdog):
			// Not this property's subject: nothing is asserted about Start.
			res.Inconcl("Start did not return within the watchdog")
			e.note("Start did not return")
			return
		}
		startClass = "ok"
		if serr != nil {
			startClass = "error"
			res.Count("start_state/start_error/"+classOf(serr), 1)
			e.note("Start returned the error: %v", serr)
		} else {
			e.note("Start returned nil")
		}
		switch {
		case sp.Shape == ShStartFailed && serr != nil:
			reached = true
			res.Count("start_state/start_failed_by_import/"+sp.ImportFail, 1)
		case sp.Shape == ShStartFailed:
			// The importer took the file: the scenario is an ordinary started
			// client (still stopped and judged, not counted as the state).
			res.Count("start_state/import_unexpectedly_accepted/"+sp.ImportFail, 1)
		case serr != nil:
			res.Inconcl("client start failed: " + serr.Error())
			return
		case sp.SyncFirst:
			if !l2.WaitFor(SyncDeadline, func() bool { return w.SyncedTo(e.tip) }) {
				res.Inconcl("initial sync not reached before the scenario's stop state could be set up")
				_, _ = w.StopClient(60 * time.Second)
				return
			}
			e.note("synced to %d", e.tip.Height)
			reached = true
		default:
			reached = true
		}
	}

	// --- calls before Stop --------------------------------------------------
	synced := sp.Shape == ShStartedTwice && sp.SyncFirst
	for _, kind := range sp.Pre {
		switch kind {
		case CGetUtxo:
			if us := e.findUtxos(1); len(us) > 0 {
				e.callGetUtxo(us[0])
			}
		case CSubRead:
			e.subscribeRead(0, true, CSubRead)
		case CBestBlock:
			e.launch(CBestBlock, "", func() (error, string) {
				bs, err := svc.BestBlock()
				if err == nil && bs == nil {
					return nil, "BestBlock returned a nil stamp and a nil error"
				}
				return err, ""
			})
		case CGetHeader:
			gh := w.G.Genesis.Hash
			e.launch(CGetHeader, "genesis", func() (error, string) {
				h, err := svc.GetBlockHeader(&gh)
				if err == nil && (h == nil || h.BlockHash() != gh) {
					return nil, "GetBlockHeader returned a different header than requested and a nil error"
				}
				return err, ""
			})
		case CGetBlock:
			if synced {
				e.callGetBlock(e.randHeight())
			} else {
				// The one block a client without headers can ask for.
				e.callGetBlock(0)
			}
		case CSendTx:
			e.callSendTx(e.makeTx())
		}
	}
	if len(sp.Pre) > 0 {
		// Let the blocking ones get to where they block.
		time.Sleep(time.Duration(30+p.StopDelayMs) * time.Millisecond)
	}

	// --- (1) Stop -------------------------------------------------------------
	if !e.judgeStop(svc, sp.StateTag(), &oc, witness) {
		close(e.rescanQuit)
		return
	}

	// --- (2) callers; Stop again, Start after Stop -----------------------------
	stuckCalls := e.awaitCalls(false, witness)
	e.startAfterStop()
	if sp.StopAgain {
		e.launch(CStopAgain, "second Stop, after the first returned", func() (error, string) {
			return svc.Stop(), ""
		})
	}
	if sp.StartAgain && sp.Shape != ShNeverStarted {
		e.launch(CStartAfterStop, "Start called again after Stop returned", func() (error, string) {
			return svc.Start(context.Background()), ""
		})
	}
	stuckCalls += e.awaitCalls(true, witness)
	oc.callers = e.summarise()
	close(e.rescanQuit)
	if stuckCalls > 0 {
		oc.reopen = "skipped"
		return
	}

	// --- (3) reopen -----------------------------------------------------------
	_ = w.DB.Close()
	w.DB = nil
	oc.reopen = e.reopen(witness)
	if reached {
		res.Count("start_state/reopen/"+sp.Shape+"/"+oc.reopen, 1)
	}
}

// judgeStop calls Stop and applies oracle (1) the way Run does: Stop returns;
// after StopWatchdog the verdict is 'violated' only by the goroutine-dump
// argument (hangArgument, then chainArgument), otherwise inconclusive. The
// signature of a hang carries the start state.
func (e *env) judgeStop(svc *neutrino.ChainService, stateTag string, oc *outcome, witness func(map[string]any) any) bool {
	p, res := e.p, e.res
	e.mu.Lock()
	for _, c := range e.calls {
		if !c.isDone() {
			c.BlockedAtStop = true
		}
	}
	e.mu.Unlock()
	var stopGid atomic.Int64
	stopCh := make(chan error, 1)
	e.stopCalled.Store(true)
	tCall := time.Now()
	go callStop(svc, &stopGid, stopCh)
	e.note("Stop called (state %s)", stateTag)
	stopDone := make(chan struct{})
	go func() { <-stopCh; close(stopDone) }()
	late := false
	select {
	case <-stopDone:
	case <-time.After(StopWatchdog):
		e.note("Stop watchdog fired")
		returned, hi := e.hangArgument(int(stopGid.Load()), "", stopDone, false)
		if !returned {
			oc.stop = "slow"
			text := func(why string) string {
				return fmt.Sprintf("Stop of a client in state %s (calls made before: %s; PersistToDisk %v) has not returned %.0f s after it was called: parked in %s while %s; %s",
					stateTag, p.Start.preKinds(), p.Persist, time.Since(tCall).Seconds(), hi.Parked, hi.WaitsFor, why)
			}
			sig := evid.Sig("stop-hang", hi.Parked, "waits-for="+hi.WaitsFor, "state="+stateTag)
			if hi.Stuck {
				oc.stop = "hang"
				res.Violate(sig, text(hi.Why), witness(map[string]any{"hang": hi}))
			} else {
				e.note("slow stop: %s; parked %s waits for %s", hi.Why, hi.Parked, hi.WaitsFor)
				ret2, stuck, why, set := e.chainArgument(int(stopGid.Load()), stopDone)
				switch {
				case stuck:
					oc.stop = "hang"
					hi.Why = why
					res.Violate(sig, text(why), witness(map[string]any{"hang": hi, "waits_for_goroutines": set}))
				case ret2:
					res.Inconcl("Stop returned only during the second observation (Stop was parked in " + hi.Parked + ")")
				default:
					res.Inconcl("Stop not returned after the watchdog but the client was " + strings.SplitN(hi.Why, ":", 2)[0] + " (Stop parked in " + hi.Parked + "; " + why + ")")
				}
			}
			res.Count("stop_not_returned", 1)
			res.Count("start_state/stop_not_returned/"+stateTag, 1)
			return false
		}
		late = true
	}
	lat := time.Since(tCall)
	e.mu.Lock()
	e.stopRetAt = time.Now()
	e.mu.Unlock()
	close(e.stopReturned)
	oc.stop = "ok"
	if late {
		oc.stop = "late"
		res.Count("stop_returned_after_watchdog", 1)
	}
	res.Count("stop_returned", 1)
	res.Count("start_state/stop_returned/"+stateTag, 1)
	res.Count("stop_latency_ms_sum", lat.Milliseconds())
	writeLatency(p.K, lat)
	e.note("Stop returned after %v", lat)
	return true
}
