package c17

import (
	"fmt"
	"regexp"
	"runtime"
	"sort"
	"strconv"
	"strings"
)

// Goroutine dumps are the only basis of a "blocked forever" verdict: a call
// that has not returned after its watchdog is a violation only if several
// dumps, spread over more than the longest timer of the client (32 s, the
// query worker's maximum per-try timeout), show the call parked in the same
// frames, every other goroutine that runs client code parked in the same
// frames too, none of them runnable, no client goroutine created or ended in
// between, and no message exchanged with any simulated peer. Everything else
// is inconclusive.

// G is one goroutine of a dump.
type G struct {
	ID      int
	State   string   // "select", "chan receive", "running", ...
	Frames  []string // "pkg.func file.go:123", innermost first
	Created string
	WaitMin int // minutes the runtime reports the goroutine as continuously blocked (0 = less than one)
}

var hdrRe = regexp.MustCompile(`^goroutine (\d+) \[([^\],]+)(?:, [^\]]*)?\]:$`)
var waitRe = regexp.MustCompile(`, (\d+) minutes`)

// DumpAll returns the stacks of all goroutines.
func DumpAll() string {
	buf := make([]byte, 1<<20)
	for {
		n := runtime.Stack(buf, true)
		if n < len(buf) {
			return string(buf[:n])
		}
		buf = make([]byte, 2*len(buf))
	}
}

// CurGID returns the id of the calling goroutine (parsed from its own stack
// header; used only to find the goroutine again in a dump).
func CurGID() int {
	buf := make([]byte, 64)
	n := runtime.Stack(buf, false)
	f := strings.Fields(string(buf[:n]))
	if len(f) >= 2 {
		id, _ := strconv.Atoi(f[1])
		return id
	}
	return -1
}

// ParseDump splits a runtime.Stack(all) dump.
func ParseDump(s string) map[int]*G {
	out := map[int]*G{}
	for _, blk := range strings.Split(s, "\n\n") {
		lines := strings.Split(strings.TrimSpace(blk), "\n")
		if len(lines) == 0 {
			continue
		}
		m := hdrRe.FindStringSubmatch(strings.TrimSpace(lines[0]))
		if m == nil {
			continue
		}
		id, _ := strconv.Atoi(m[1])
		g := &G{ID: id, State: m[2]}
		if wm := waitRe.FindStringSubmatch(lines[0]); wm != nil {
			g.WaitMin, _ = strconv.Atoi(wm[1])
		}
		for i := 1; i < len(lines); i++ {
			l := lines[i]
			if strings.HasPrefix(l, "\t") {
				continue
			}
			fn := l
			if strings.HasPrefix(fn, "created by ") {
				fn = strings.TrimPrefix(fn, "created by ")
				if j := strings.Index(fn, " in goroutine"); j > 0 {
					fn = fn[:j]
				}
				g.Created = fn
				continue
			}
			if j := strings.LastIndex(fn, "("); j > 0 {
				fn = fn[:j]
			}
			loc := ""
			if i+1 < len(lines) && strings.HasPrefix(lines[i+1], "\t") {
				loc = strings.TrimSpace(lines[i+1])
				if j := strings.Index(loc, " +0x"); j > 0 {
					loc = loc[:j]
				}
				if j := strings.LastIndex(loc, "/"); j >= 0 {
					loc = loc[j+1:]
				}
			}
			g.Frames = append(g.Frames, fn+" "+loc)
		}
		out[id] = g
	}
	return out
}

var clientPrefixes = []string{
	"github.com/lightninglabs/neutrino",
	"github.com/btcsuite/btcd/peer",
	"github.com/btcsuite/btcd/connmgr",
	"github.com/btcsuite/btcd/addrmgr",
	"github.com/lightningnetwork/lnd/queue",
	"github.com/lightningnetwork/lnd/ticker",
}

// IsClient reports whether the goroutine runs (or was started by) code of the
// client under test.
func (g *G) IsClient() bool {
	for _, f := range g.Frames {
		for _, p := range clientPrefixes {
			if strings.HasPrefix(f, p) {
				return true
			}
		}
	}
	for _, p := range clientPrefixes {
		if strings.HasPrefix(g.Created, p) {
			return true
		}
	}
	return false
}

// Key is the comparable shape of a goroutine.
func (g *G) Key() string { return g.State + "\n" + strings.Join(g.Frames, "\n") }

// Has reports whether some frame contains sub.
func (g *G) Has(sub string) bool {
	for _, f := range g.Frames {
		if strings.Contains(f, sub) {
			return true
		}
	}
	return false
}

// InnerClientFrame returns the innermost frame that belongs to the client
// (function name only): the place the goroutine is parked in.
func (g *G) InnerClientFrame() string {
	for _, f := range g.Frames {
		for _, p := range clientPrefixes {
			if strings.HasPrefix(f, p) {
				fn := strings.Fields(f)[0]
				fn = strings.TrimPrefix(fn, "github.com/lightninglabs/neutrino")
				fn = strings.TrimPrefix(fn, "github.com/btcsuite/btcd/")
				fn = strings.TrimPrefix(fn, "github.com/lightningnetwork/lnd/")
				return strings.TrimLeft(fn, "./")
			}
		}
	}
	return "none"
}

// OuterClientFrame returns the outermost frame that belongs to the client:
// the public call (or goroutine body) the goroutine is executing.
func (g *G) OuterClientFrame() string {
	for i := len(g.Frames) - 1; i >= 0; i-- {
		f := g.Frames[i]
		for _, p := range clientPrefixes {
			if strings.HasPrefix(f, p) {
				fn := strings.Fields(f)[0]
				fn = strings.TrimPrefix(fn, "github.com/lightninglabs/neutrino")
				fn = strings.TrimPrefix(fn, "github.com/btcsuite/btcd/")
				fn = strings.TrimPrefix(fn, "github.com/lightningnetwork/lnd/")
				return strings.TrimLeft(fn, "./")
			}
		}
	}
	return "none"
}

// Top returns the first n frames.
func (g *G) Top(n int) []string {
	if len(g.Frames) < n {
		n = len(g.Frames)
	}
	return g.Frames[:n]
}

// Progress compares two dumps: it returns "" when every client goroutine of
// a is present in b with the same state and frames, none is running or
// runnable in either, and b has no client goroutine that a did not have.
// self is the id of the observing goroutine (ignored).
func Progress(a, b map[int]*G, self int) string {
	for id, ga := range a {
		if id == self || !ga.IsClient() {
			continue
		}
		if ga.State == "running" || ga.State == "runnable" {
			return fmt.Sprintf("goroutine %d is %s in %s", id, ga.State, ga.InnerClientFrame())
		}
		gb, ok := b[id]
		if !ok {
			return fmt.Sprintf("goroutine %d (%s) ended", id, ga.InnerClientFrame())
		}
		if ga.Key() != gb.Key() {
			return fmt.Sprintf("goroutine %d moved: %s -> %s", id, ga.InnerClientFrame(), gb.InnerClientFrame())
		}
	}
	for id, gb := range b {
		if id == self || !gb.IsClient() {
			continue
		}
		if gb.State == "running" || gb.State == "runnable" {
			return fmt.Sprintf("goroutine %d is %s in %s", id, gb.State, gb.InnerClientFrame())
		}
		if _, ok := a[id]; !ok {
			return fmt.Sprintf("goroutine %d (%s) is new", id, gb.InnerClientFrame())
		}
	}
	return ""
}

// Census counts where the client goroutines of a dump are parked.
func Census(d map[int]*G) map[string]int {
	out := map[string]int{}
	for _, g := range d {
		if g.IsClient() {
			out[g.State+" @ "+g.InnerClientFrame()]++
		}
	}
	return out
}

// CensusList is Census as sorted lines (for witnesses).
func CensusList(d map[int]*G) []string {
	c := Census(d)
	var out []string
	for k, n := range c {
		out = append(out, fmt.Sprintf("%dx %s", n, k))
	}
	sort.Strings(out)
	return out
}

// CountWhere counts goroutines having all the given substrings in frames.
func CountWhere(d map[int]*G, subs ...string) int {
	n := 0
	for _, g := range d {
		ok := true
		for _, s := range subs {
			if !g.Has(s) {
				ok = false
				break
			}
		}
		if ok {
			n++
		}
	}
	return n
}
