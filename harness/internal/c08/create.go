package c08

import (
	"path/filepath"
	"time"

	"github.com/btcsuite/btcd/chaincfg/v2"
	"github.com/btcsuite/btcwallet/walletdb"
	"github.com/lightninglabs/neutrino/headerfs"
)

// CreationPoints runs the FIRST start on an empty directory (both store
// constructors write their genesis entry: flat file first, index second) and
// announces a crash point before and after every index commit they make.
// onPoint is called with the point while the process state on disk is exactly
// what a process dying there would leave (the caller copies the directory).
// The flat files are not wrapped here (the constructors open them
// themselves): a torn genesis record is covered by the torn-append points of
// the script family together with the open-time trimming.
func CreationPoints(dir string, p *chaincfg.Params, onPoint func(pt Point)) error {
	r := &Runner{Params: p, Dir: dir, KillAt: -1, curOp: 0, creating: true, OnPoint: onPoint}
	raw, err := walletdb.Create("bdb", filepath.Join(dir, dbName), true, 10*time.Second, false)
	if err != nil {
		return err
	}
	r.raw = raw
	cdb := &crashDB{DB: raw, r: r}
	r.curOpK = Op{Kind: "createB"}
	b, err := headerfs.NewBlockHeaderStore(dir, cdb, p)
	if err != nil {
		raw.Close()
		return err
	}
	r.curOpK = Op{Kind: "createF"}
	f, err := headerfs.NewFilterHeaderStore(dir, cdb, headerfs.RegularFilter, p, nil)
	if err != nil {
		closeStoreFile(b)
		raw.Close()
		return err
	}
	CloseAll(raw, b, f)
	return nil
}
