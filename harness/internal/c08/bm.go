package c08

import (
	"fmt"
	"runtime/debug"
	"sync"
	"time"

	"github.com/btcsuite/btcd/blockchain"
	"github.com/btcsuite/btcd/chaincfg/v2"
	"github.com/btcsuite/btcd/wire/v2"
	"github.com/lightninglabs/neutrino"
	"github.com/lightninglabs/neutrino/banman"
	"github.com/lightninglabs/neutrino/headerfs"
)

// "Syncing resumes from that state": after the store-level recovery oracle
// has passed on a crash image, the REAL block manager is constructed on the
// reopened stores (neutrino.VerifNewBlockManager -> newBlockManager, exactly
// what ChainService does at start-up) and is handed ONE valid next header
// through its own headers handler; the block store's tip must advance by
// exactly that header.

// fixedClock is a trivial blockchain.MedianTimeSource.
type fixedClock struct{ t time.Time }

func (c fixedClock) AdjustedTime() time.Time         { return c.t }
func (c fixedClock) AddTimeSample(string, time.Time) {}
func (c fixedClock) Offset() time.Duration           { return 0 }

var _ blockchain.MedianTimeSource = fixedClock{}

// BMOpts says how the block manager restart check gets its clock and its one
// valid next header for a recovered block chain.
type BMOpts struct {
	// Now is the clock handed to the block manager (never the wall clock).
	// Zero: one hour after the recovered tip's timestamp.
	Now time.Time
	// Next returns a header that validly extends chain (connects, right
	// difficulty bits, proof of work, timestamp). nil: a header is mined for
	// parameters without retargeting (regtest-like).
	Next func(chain []wire.BlockHeader) *wire.BlockHeader
}

// MineNext builds a valid next header for parameters whose required difficulty
// is always the proof-of-work limit (PoWNoRetargeting).
func MineNext(p *chaincfg.Params, chain []wire.BlockHeader) *wire.BlockHeader {
	prev := chain[len(chain)-1]
	h := wire.BlockHeader{Version: 4, PrevBlock: prev.BlockHash(),
		Timestamp: time.Unix(prev.Timestamp.Unix()+7, 0), Bits: p.PowLimitBits}
	copy(h.MerkleRoot[:], []byte("c08 block manager restart check."))
	tgt := blockchain.CompactToBig(h.Bits)
	for n := uint32(0); ; n++ {
		h.Nonce = n
		hash := h.BlockHash()
		if blockchain.HashToBig(&hash).Cmp(tgt) <= 0 {
			return &h
		}
	}
}

// BMStats counts what the restart checks did (thread-safe).
type BMStats struct {
	mu                                     sync.Mutex
	Constructed, HeadersHandled, TipsMoved int64
	// ServiceRestarts counts restarts made through NewChainService.
	ServiceRestarts int64
	// counters / marks of the started-restart (filter-header resume) step.
	counters map[string]int64
	marks    map[string]int64
}

func (s *BMStats) count(name string, n int64) {
	if s == nil {
		return
	}
	s.mu.Lock()
	if s.counters == nil {
		s.counters = map[string]int64{}
	}
	s.counters[name] += n
	s.mu.Unlock()
}

func (s *BMStats) mark(name string) {
	if s == nil {
		return
	}
	s.mu.Lock()
	if s.marks == nil {
		s.marks = map[string]int64{}
	}
	s.marks[name]++
	s.mu.Unlock()
}

// Counters returns a copy of the named counters and of the shape marks (with
// how often each shape was seen) of the started-restart step.
func (s *BMStats) Counters() (counters, marks map[string]int64) {
	s.mu.Lock()
	defer s.mu.Unlock()
	counters, marks = map[string]int64{}, map[string]int64{}
	for k, v := range s.counters {
		counters[k] = v
	}
	for k, v := range s.marks {
		marks[k] = v
	}
	return counters, marks
}

func (s *BMStats) addService() {
	if s == nil {
		return
	}
	s.mu.Lock()
	s.ServiceRestarts++
	s.mu.Unlock()
}

// Services returns how many restarts went through NewChainService.
func (s *BMStats) Services() int64 {
	s.mu.Lock()
	defer s.mu.Unlock()
	return s.ServiceRestarts
}

func (s *BMStats) add(c, h, t int64) {
	if s == nil {
		return
	}
	s.mu.Lock()
	s.Constructed += c
	s.HeadersHandled += h
	s.TipsMoved += t
	s.mu.Unlock()
}

// Snapshot returns the counters.
func (s *BMStats) Snapshot() (constructed, handled, moved int64) {
	s.mu.Lock()
	defer s.mu.Unlock()
	return s.Constructed, s.HeadersHandled, s.TipsMoved
}

var bmPeerSeq struct {
	mu sync.Mutex
	n  int
}

// guarded runs f with a panic guard and a generous watchdog. timedOut is an
// inconclusive outcome, never a verdict.
func guarded(f func()) (panicked string, timedOut bool) {
	done := make(chan string, 1)
	go func() {
		defer func() {
			if r := recover(); r != nil {
				done <- fmt.Sprintf("%v\n%s", r, debug.Stack())
				return
			}
			done <- ""
		}()
		f()
	}()
	t := time.NewTimer(90 * time.Second)
	defer t.Stop()
	select {
	case p := <-done:
		return p, false
	case <-t.C:
		return "", true
	}
}

// bmInconclusive is returned (as rule) when the watchdog fired.
const bmInconclusive = "inconclusive"

// ConstructBM only constructs the block manager on the given stores.
func ConstructBM(p *chaincfg.Params, b headerfs.BlockHeaderStore, f headerfs.FilterHeaderStore,
	now time.Time) (bm *neutrino.VerifBlockManager, rule, what string) {

	var err error
	pan, to := guarded(func() {
		bm, err = neutrino.VerifNewBlockManager(&neutrino.VerifBlockManagerConfig{
			ChainParams:      *p,
			BlockHeaders:     b,
			RegFilterHeaders: f,
			TimeSource:       fixedClock{now},
			BanPeer:          func(string, banman.Reason) error { return nil },
		})
	})
	switch {
	case to:
		return nil, bmInconclusive, "watchdog: block manager construction did not return in 90 s"
	case pan != "":
		return nil, "blockmanager-does-not-start", "constructing the block manager on the recovered stores panicked: " + pan
	case err != nil:
		return nil, "blockmanager-does-not-start", "constructing the block manager on the recovered stores failed: " + err.Error()
	}
	return bm, "", ""
}

// RestartBM constructs the real block manager on reopened stores holding the
// block chain gotB and feeds it one valid next header. It returns the header
// that is now the tip ("" rule), or the broken rule with a description.
func RestartBM(p *chaincfg.Params, b headerfs.BlockHeaderStore, f headerfs.FilterHeaderStore,
	gotB []wire.BlockHeader, o *BMOpts, st *BMStats) (next *wire.BlockHeader, rule, what string) {

	now := o.Now
	if now.IsZero() {
		now = gotB[len(gotB)-1].Timestamp.Add(time.Hour)
	}
	bm, rule, what := ConstructBM(p, b, f, now)
	if rule != "" {
		return nil, rule, what
	}
	st.add(1, 0, 0)

	if o.Next != nil {
		next = o.Next(gotB)
	} else {
		next = MineNext(p, gotB)
	}
	if next == nil {
		return nil, "", "" // nothing to feed (end of the generated chain)
	}

	// A real (never connected) btcd peer inside a real ServerPeer: the
	// handler updates its last block height and may push a getheaders, which
	// an unconnected peer drops.
	sp, err := standInPeer(p, b)
	if err != nil {
		return nil, bmInconclusive, "harness: cannot make a peer: " + err.Error()
	}
	msg := wire.NewMsgHeaders()
	hc := *next
	msg.Headers = []*wire.BlockHeader{&hc}
	pan, to := guarded(func() { bm.HandleHeaders(sp, msg) })
	switch {
	case to:
		return nil, bmInconclusive, "watchdog: the headers handler did not return in 90 s"
	case pan != "":
		return nil, "blockmanager-does-not-resume", "the restarted block manager panicked on a valid next header: " + pan
	}
	st.add(0, 1, 0)
	tip, ht, err := b.ChainTip()
	switch {
	case err != nil:
		return nil, "blockmanager-does-not-resume", fmt.Sprintf("block store unreadable after the restarted block manager handled a valid next header: %v", err)
	case int(ht) != len(gotB) || *tip != *next:
		return nil, "blockmanager-does-not-resume", fmt.Sprintf(
			"the restarted block manager was handed a valid header for height %d; the block tip is now height %d (%v), expected height %d (%v)",
			len(gotB), ht, tip.BlockHash(), len(gotB), next.BlockHash())
	}
	st.add(0, 0, 1)
	return next, "", ""
}
