package c08

import (
	"errors"
	"fmt"
	"runtime"
	"strconv"
	"sync"
	"time"

	"github.com/btcsuite/btcd/btcutil/v2"
	"github.com/btcsuite/btcd/chaincfg/v2"
	"github.com/btcsuite/btcd/chainhash/v2"
	"github.com/btcsuite/btcd/peer"
	"github.com/btcsuite/btcd/wire/v2"
	"github.com/lightninglabs/neutrino"
	"github.com/lightninglabs/neutrino/banman"
	"github.com/lightninglabs/neutrino/headerfs"
	"github.com/lightninglabs/neutrino/query"
)

// "Syncing resumes from that state", FILTER-header half, on a QUIET chain.
//
// After the store-level recovery oracle has passed on a crash image, the REAL
// block manager is constructed on the reopened stores and STARTED (its block
// handler and its filter-header handler goroutines run), with one honest
// scripted peer behind the two network functions the filter-header handler
// uses (the all-peers query and the batch dispatcher). The peer knows exactly
// the image's block chain, answers getcfheaders / getcfcheckpt for it from the
// ground truth below, and NEVER announces a block. Nothing else happens: no new
// header, no second peer.
//
// Oracle (a statement of the property, at the handler's own quiescent point):
// when the filter-header handler announces that it goes to sleep until new
// block headers arrive (the client's pause point before that wait, reported
// on the handler's goroutine), the filter-header store must have reached the
// block tip, and what it holds must be the ground truth for that block chain.
// A handler that goes to sleep with the filter tip below the block tip while
// block headers are current can only be woken by a block that is not coming:
// syncing did not resume. No wall-clock value takes part in a verdict; the
// watchdog is inconclusive.
//
// Ground truth: the filter hash of a block is a fixed function of its block
// hash (FilterHashOf) and filter header h = dsha256(filter hash h || filter
// header h-1) from the store's own genesis filter header. The script family
// writes exactly these headers (Runner.Exec), so the peer is honest about the
// whole chain. Stores filled with arbitrary filter headers (the import family's
// files) are served relative to what is stored: the stored headers as they are,
// the chain rule above the stored tip; where no honest answer exists for such a
// store (a checkpointed fetch through the arbitrary part) the step is skipped
// and counted.

// FilterHashOf is the ground-truth filter hash of the block with this hash.
func FilterHashOf(block chainhash.Hash) chainhash.Hash {
	return chainhash.HashH(append([]byte("verif c08: filter of block "), block[:]...))
}

// NextFilterHeader chains the ground-truth filter header of a block onto prev.
func NextFilterHeader(prev, block chainhash.Hash) chainhash.Hash {
	fh := FilterHashOf(block)
	return chainhash.DoubleHashH(append(fh[:], prev[:]...))
}

// curGID returns the id of the calling goroutine.
func curGID() int64 {
	var buf [64]byte
	s := buf[:runtime.Stack(buf[:], false)]
	// "goroutine 123 [running]:"
	const pre = len("goroutine ")
	i := pre
	for i < len(s) && s[i] >= '0' && s[i] <= '9' {
		i++
	}
	n, _ := strconv.ParseInt(string(s[pre:i]), 10, 64)
	return n
}

var (
	resumeHookOnce sync.Once
	// goroutine id -> *resumeSession, for every goroutine seen inside a
	// session's clock or network functions. The pause point below is only ever
	// reached on a filter-header handler goroutine, which calls both before it
	// can reach the point.
	resumeByGID sync.Map
	// pendingClose counts image checks whose stop-and-close runs in the
	// background (see ImageCheck.Run).
	pendingClose sync.WaitGroup
)

// Slow outcomes (the no-progress verdict costs the client's retry pauses, the
// watchdog two minutes) are not repeated for thousands of images: after a few
// of them in one process the step is skipped (and counted). By then the run's
// verdict is already a violation / inconclusive.
var (
	resumeSlowMu       sync.Mutex
	resumeSlowFailures int
)

const resumeSlowFailuresMax = 6

func resumeSlow(add int) int {
	resumeSlowMu.Lock()
	defer resumeSlowMu.Unlock()
	resumeSlowFailures += add
	return resumeSlowFailures
}

// WaitPending blocks until every background stop-and-close has finished.
func WaitPending() { pendingClose.Wait() }

func resumeHook(name string) {
	if name != "cf.beforeWait" {
		bmPauseHook(name) // block-manager family (bmcrash.go): the other pause points
		return
	}
	if v, ok := resumeByGID.Load(curGID()); ok {
		v.(*resumeSession).event("idle")
	}
}

type resumeSession struct {
	f      headerfs.FilterHeaderStore
	blocks []wire.BlockHeader
	height map[chainhash.Hash]int
	fhash  []chainhash.Hash // ground-truth filter hash by height (0 unused)
	truth  []chainhash.Hash // ground-truth filter header by height
	m0     int              // filter tip at the restart
	sp     *neutrino.ServerPeer
	rev    bool // batch requests are answered in reverse order

	mu       sync.Mutex
	gids     []int64
	nCFH     int // all-peers getcfheaders queries
	nCkpt    int // all-peers getcfcheckpt queries
	nOther   int // other all-peers queries (left unanswered)
	nBatches int // dispatcher batches
	nReqs    int // requests in them
	answered int // getcfheaders answered in full (either path)
	bans     []string
	events   chan string
}

func (s *resumeSession) note() {
	g := curGID()
	s.mu.Lock()
	for _, k := range s.gids {
		if k == g {
			s.mu.Unlock()
			return
		}
	}
	s.gids = append(s.gids, g)
	s.mu.Unlock()
	resumeByGID.Store(g, s)
}

func (s *resumeSession) event(e string) {
	select {
	case s.events <- e:
	default:
	}
}

func (s *resumeSession) release() {
	s.mu.Lock()
	for _, g := range s.gids {
		resumeByGID.Delete(g)
	}
	s.mu.Unlock()
}

// resumeClock is the session's fixed clock; every caller's goroutine is noted.
type resumeClock struct {
	t time.Time
	s *resumeSession
}

func (c *resumeClock) AdjustedTime() time.Time         { c.s.note(); return c.t }
func (c *resumeClock) AddTimeSample(string, time.Time) {}
func (c *resumeClock) Offset() time.Duration           { return 0 }

// cfHeaders is the honest answer to a getcfheaders request, nil when an honest
// peer has none (unknown stop block, empty or oversized range).
func (s *resumeSession) cfHeaders(req *wire.MsgGetCFHeaders) *wire.MsgCFHeaders {
	stop, ok := s.height[req.StopHash]
	start := int(req.StartHeight)
	if !ok || req.FilterType != wire.GCSFilterRegular || start < 1 || start > stop ||
		stop-start+1 > wire.MaxCFHeadersPerMsg {
		return nil
	}
	resp := wire.NewMsgCFHeaders()
	resp.FilterType = req.FilterType
	resp.StopHash = req.StopHash
	resp.PrevFilterHeader = s.truth[start-1]
	for h := start; h <= stop; h++ {
		fh := s.fhash[h]
		_ = resp.AddCFHash(&fh)
	}
	return resp
}

func (s *resumeSession) cfCheckpt(req *wire.MsgGetCFCheckpt) *wire.MsgCFCheckpt {
	stop, ok := s.height[req.StopHash]
	if !ok || req.FilterType != wire.GCSFilterRegular {
		return nil
	}
	resp := wire.NewMsgCFCheckpt(req.FilterType, &req.StopHash, stop/wire.CFCheckptInterval)
	for h := wire.CFCheckptInterval; h <= stop; h += wire.CFCheckptInterval {
		cp := s.truth[h]
		_ = resp.AddCFHeader(&cp)
	}
	return resp
}

// noProgressRounds: that many all-peers getcfheaders rounds (answered in full
// by the honest peer, or asking for something no honest peer has) with the
// filter tip still where it was at the restart is "does not resume" (each
// failed round costs the client its own retry pause, so this is only ever
// reached by a client that cannot ask for, or cannot commit, what it lacks).
const noProgressRounds = 4

// queryAll is the scripted all-peers query: the one peer answers on the
// caller's goroutine, as the client's own implementation hands responses over
// serially.
func (s *resumeSession) queryAll(msg wire.Message,
	check func(sp *neutrino.ServerPeer, resp wire.Message, quit chan<- struct{}, peerQuit chan<- struct{}),
	_ ...neutrino.QueryOption) {

	s.note()
	var resp wire.Message
	switch m := msg.(type) {
	case *wire.MsgGetCFHeaders:
		s.mu.Lock()
		done := s.nCFH
		s.nCFH++
		s.mu.Unlock()
		if done >= noProgressRounds {
			if _, ft, err := s.f.ChainTip(); err == nil && int(ft) <= s.m0 {
				s.event("noprogress")
			}
		}
		if r := s.cfHeaders(m); r != nil {
			resp = r
			s.mu.Lock()
			s.answered++
			s.mu.Unlock()
		}
	case *wire.MsgGetCFCheckpt:
		s.mu.Lock()
		s.nCkpt++
		s.mu.Unlock()
		if r := s.cfCheckpt(m); r != nil {
			resp = r
		}
	default:
		s.mu.Lock()
		s.nOther++
		s.mu.Unlock()
	}
	if resp == nil {
		return
	}
	check(s.sp, resp, make(chan struct{}), make(chan struct{}))
}

// Query is the scripted batch dispatcher (query.Dispatcher): every request is
// answered by the one peer.
func (s *resumeSession) Query(reqs []*query.Request, _ ...query.QueryOption) chan error {
	s.note()
	s.mu.Lock()
	s.nBatches++
	s.nReqs += len(reqs)
	s.mu.Unlock()
	errChan := make(chan error, 1)
	go func() {
		for i := range reqs {
			req := reqs[i]
			if s.rev {
				req = reqs[len(reqs)-1-i]
			}
			var resp wire.Message
			if m, ok := req.Req.(*wire.MsgGetCFHeaders); ok {
				if r := s.cfHeaders(m); r != nil {
					resp = r
				}
			}
			if resp == nil || !req.HandleResp(req.Req, resp, s.sp.Addr()).Finished {
				errChan <- errors.New("scripted peer: request not answered or answer not accepted")
				return
			}
			s.mu.Lock()
			s.answered++
			s.mu.Unlock()
		}
		errChan <- nil
	}()
	return errChan
}

// standInPeer is a real (never connected) btcd peer inside a real ServerPeer.
func standInPeer(p *chaincfg.Params, b headerfs.BlockHeaderStore) (*neutrino.ServerPeer, error) {
	bmPeerSeq.mu.Lock()
	bmPeerSeq.n++
	addr := fmt.Sprintf("10.8.%d.%d:18444", (bmPeerSeq.n/250)%250, 1+bmPeerSeq.n%250)
	bmPeerSeq.mu.Unlock()
	pp, err := peer.NewOutboundPeer(&peer.Config{
		NewestBlock: func() (*chainhash.Hash, int32, error) {
			h, ht, err := b.ChainTip()
			if err != nil {
				return nil, 0, err
			}
			hash := h.BlockHash()
			return &hash, int32(ht), nil
		},
		UserAgentName: "verif-c08", UserAgentVersion: "0.0.1", ChainParams: p,
		Services: wire.SFNodeWitness | wire.SFNodeCF, ProtocolVersion: wire.AddrV2Version,
		DisableRelayTx: true, AllowSelfConns: true,
	}, addr)
	if err != nil {
		return nil, err
	}
	return neutrino.VerifNewServerPeer(pp, *p, b), nil
}

func lagClass(n, m int) string {
	switch d := n - m; {
	case d == 0:
		return "level"
	case d == 1:
		return "1"
	case d < wire.CFCheckptInterval && n/wire.CFCheckptInterval == m/wire.CFCheckptInterval:
		return "within-interval"
	case d < wire.CFCheckptInterval:
		return "across-checkpoint"
	default:
		return "interval-or-more"
	}
}

// ResumeFilterSync starts the real block manager on reopened stores holding
// the block chain gotB and the filter-header chain gotF (a crash image that
// passed the store-level oracle), with the one honest quiet peer, and judges
// it at the filter-header handler's quiescent point. It returns what the
// filter store must hold now. stop (non-nil once the manager was started)
// blocks until the manager has stopped and must be called before the stores
// are closed; it may be called from another goroutine, later. Rules starting
// with "resume/" are this step's own: their shape is the restart state (how far
// the filter tip is below the block tip, what was asked), not the crash point
// that left it.
func ResumeFilterSync(p *chaincfg.Params, b headerfs.BlockHeaderStore, f headerfs.FilterHeaderStore,
	gotB []wire.BlockHeader, gotF []chainhash.Hash, st *BMStats) (newF []chainhash.Hash, stop func(), rule, what string) {

	n, m := len(gotB)-1, len(gotF)-1
	if m > n || m < 0 {
		return gotF, nil, "", ""
	}
	s := &resumeSession{f: f, blocks: gotB, height: make(map[chainhash.Hash]int, n+1), m0: m,
		fhash: make([]chainhash.Hash, n+1), truth: make([]chainhash.Hash, n+1), rev: (n+m)%2 == 1,
		events: make(chan string, 16)}
	arbitrary := false
	s.truth[0] = gotF[0]
	for h := 0; h <= n; h++ {
		bh := gotB[h].BlockHash()
		s.height[bh] = h
		if h == 0 {
			continue
		}
		s.fhash[h] = FilterHashOf(bh)
		s.truth[h] = chainhash.DoubleHashH(append(s.fhash[h][:], s.truth[h-1][:]...))
		if h <= m && gotF[h] != s.truth[h] {
			arbitrary = true
			s.truth[h] = gotF[h]
		}
	}
	if arbitrary && n >= wire.CFCheckptInterval && m%wire.CFCheckptInterval != 0 {
		// A checkpointed fetch would have to re-derive stored headers that are
		// no hash chain: no honest answer exists for this store.
		st.count("resume_skipped_no_honest_answer_for_arbitrary_stored_headers", 1)
		return gotF, nil, "", ""
	}
	if resumeSlow(0) >= resumeSlowFailuresMax {
		st.count("resume_skipped_after_repeated_slow_failures", 1)
		return gotF, nil, "", ""
	}
	sp, err := standInPeer(p, b)
	if err != nil {
		return gotF, nil, bmInconclusive, "harness: cannot make a peer: " + err.Error()
	}
	s.sp = sp
	resumeHookOnce.Do(func() { neutrino.VerifSetPointHook(resumeHook) })

	first := make(chan struct{})
	close(first)
	var bm *neutrino.VerifBlockManager
	pan, to := guarded(func() {
		bm, err = neutrino.VerifNewBlockManager(&neutrino.VerifBlockManagerConfig{
			ChainParams:      *p,
			BlockHeaders:     b,
			RegFilterHeaders: f,
			TimeSource:       &resumeClock{t: gotB[n].Timestamp.Add(time.Hour), s: s},
			QueryDispatcher:  s,
			BanPeer: func(addr string, why banman.Reason) error {
				s.mu.Lock()
				s.bans = append(s.bans, fmt.Sprintf("%s (%v)", addr, why))
				s.mu.Unlock()
				return nil
			},
			GetBlock: func(chainhash.Hash, ...neutrino.QueryOption) (*btcutil.Block, error) {
				return nil, errors.New("scripted peer: headers only")
			},
			QueryAllPeers:   s.queryAll,
			FirstPeerSignal: first,
		})
	})
	switch {
	case to:
		s.release()
		return gotF, nil, bmInconclusive, "watchdog: block manager construction did not return in 90 s"
	case pan != "":
		s.release()
		return gotF, nil, "blockmanager-does-not-start", "constructing the block manager on the recovered stores panicked: " + pan
	case err != nil:
		s.release()
		return gotF, nil, "blockmanager-does-not-start", "constructing the block manager on the recovered stores failed: " + err.Error()
	}
	// The wait the oracle judges at is the one for NEW block headers; a manager
	// that does not consider its block headers current waits for the rest of
	// the chain instead, which is not this step's subject.
	if !bm.BlockHeadersSynced() {
		s.release()
		st.count("resume_skipped_block_headers_not_current", 1)
		return gotF, nil, "", ""
	}

	// Nobody subscribes: drain the (unbuffered) notification channel.
	drainQuit, drainDone := make(chan struct{}), make(chan struct{})
	var ntfns int64
	go func() {
		defer close(drainDone)
		for {
			select {
			case <-bm.Notifications():
				ntfns++
			case <-drainQuit:
				return
			}
		}
	}()
	bm.Start()
	st.count("resume_block_managers_started", 1)
	stopped := make(chan struct{})
	var stopOnce sync.Once
	stop = func() {
		stopOnce.Do(func() {
			_ = bm.Stop()
			close(drainQuit)
			<-drainDone
			s.release()
			st.count("resume_block_connected_notifications", ntfns)
			close(stopped)
		})
		<-stopped
	}

	lag := lagClass(n, m)
	if m < n {
		st.count("resume_restarts_filter_tip_below_block_tip", 1)
	} else {
		st.count("resume_restarts_tips_level_control", 1)
	}
	wd := time.NewTimer(120 * time.Second)
	defer wd.Stop()
	var ev string
	select {
	case ev = <-s.events:
	case <-wd.C:
		resumeSlow(1)
		s.mu.Lock()
		q := fmt.Sprintf("%d getcfheaders, %d getcfcheckpt, %d batches", s.nCFH, s.nCkpt, s.nBatches)
		s.mu.Unlock()
		return gotF, stop, bmInconclusive, fmt.Sprintf("watchdog: the started block manager's filter-header handler neither went idle nor was seen stuck in 120 s (block tip %d, filter tip at restart %d, queries: %s)", n, m, q)
	}
	s.mu.Lock()
	nCFH, nCkpt, nBatches, nReqs, answered, bans := s.nCFH, s.nCkpt, s.nBatches, s.nReqs, s.answered, append([]string(nil), s.bans...)
	s.mu.Unlock()
	st.count("resume_getcfheaders_all_peers_queries", int64(nCFH))
	st.count("resume_getcfcheckpt_all_peers_queries", int64(nCkpt))
	st.count("resume_batch_queries", int64(nBatches))
	st.count("resume_batch_requests", int64(nReqs))
	path := "none"
	switch {
	case nBatches > 0 && nCFH > 0:
		path = "checkpointed+at-tip"
	case nBatches > 0:
		path = "checkpointed"
	case nCFH > 0:
		path = "at-tip"
	}
	st.mark(fmt.Sprintf("resume|lag:%s|fetch:%s", lag, path))
	asked := "no-query-sent"
	if nCFH+nBatches > 0 {
		asked = "after-queries"
	}
	banned := ""
	if len(bans) > 0 {
		banned = fmt.Sprintf("; it banned the honest peer: %v", bans)
	}
	_, ft, ferr := f.ChainTip()
	_, bt, berr := b.ChainTip()
	switch {
	case ferr != nil || berr != nil:
		return gotF, stop, "resume/stores-unreadable-after-resume", fmt.Sprintf("after the restarted block manager ran: filter ChainTip err=%v, block ChainTip err=%v", ferr, berr)
	case int(bt) != n:
		return gotF, stop, "resume/filter-sync-moves-block-tip", fmt.Sprintf("no block was announced to the restarted block manager, yet the block tip moved from %d to %d", n, bt)
	case ev == "noprogress":
		resumeSlow(1)
		return gotF, stop, "resume/filter-sync-makes-no-progress/lag:" + lag, fmt.Sprintf(
			"restart on block tip %d, filter tip %d with one honest peer and no new block: the client made %d getcfheaders rounds (%d answered in full from the chain's ground truth, the others asked for nothing an honest peer has) and the filter tip is still %d%s",
			n, m, nCFH, answered, ft, banned)
	case int(ft) != n:
		return gotF, stop, "resume/filter-sync-does-not-resume/" + asked + "/lag:" + lag, fmt.Sprintf(
			"restart on block tip %d, filter tip %d with block headers current, one honest peer connected and no new block: the filter-header handler went to sleep until new block headers arrive with the filter tip at %d (queries it made: %d getcfheaders, %d getcfcheckpt, %d batch requests)%s; only a block that is not coming wakes it",
			n, m, ft, nCFH, nCkpt, nReqs, banned)
	}
	// Reached the block tip: what was committed is the ground truth.
	newF = make([]chainhash.Hash, n+1)
	for h := 0; h <= n; h++ {
		fh, err := f.FetchHeaderByHeight(uint32(h))
		if err != nil {
			return gotF, stop, "resume/stores-unreadable-after-resume", fmt.Sprintf("filter FetchHeaderByHeight(%d/%d) after the filter-header sync resumed: %v", h, n, err)
		}
		if *fh != s.truth[h] {
			where := "committed-on-resume"
			if h <= m {
				where = "stored-before"
			}
			return gotF, stop, "resume/filter-headers-after-resume-differ/" + where, fmt.Sprintf(
				"restart on block tip %d, filter tip %d: after the filter-header sync resumed, the filter header at height %d is %v, the chain's is %v", n, m, h, fh, s.truth[h])
		}
		newF[h] = *fh
	}
	if m < n {
		st.count("resume_filter_tip_reached_block_tip", 1)
		st.count("resume_filter_headers_committed", int64(n-m))
	} else {
		st.count("resume_level_stayed_level", 1)
	}
	return newF, stop, "", ""
}
