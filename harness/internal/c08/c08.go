// Package c08 is the crash runner for property C08: seeded scripts of store
// operations run on the REAL headerfs stores; at every crash point — before /
// after every flat-file write and truncate, at several torn lengths INSIDE
// every flat-file write, and after every index commit — the on-disk state is
// captured (in-process: the data directory is copied at that instant, which
// is exactly what a process kill would leave; child mode: the process
// SIGKILLs itself there) and then opened afresh and checked.
package c08

import (
	"fmt"
	"io"
	"math/rand"
	"os"
	"path/filepath"
	"strings"
	"syscall"
	"time"

	"github.com/btcsuite/btcd/chaincfg/v2"
	"github.com/btcsuite/btcd/chainhash/v2"
	"github.com/btcsuite/btcd/wire/v2"
	"github.com/btcsuite/btcwallet/walletdb"
	_ "github.com/btcsuite/btcwallet/walletdb/bdb"
	"github.com/lightninglabs/neutrino"
	"github.com/lightninglabs/neutrino/headerfs"
)

const (
	dbName    = "neutrino.db"
	blockFile = "block_headers.bin"
	filtFile  = "reg_filter_headers.bin"
)

// Model is the plain reference state.
type Model struct {
	Blocks  []wire.BlockHeader
	Filters []chainhash.Hash
}

func (m *Model) clone() *Model {
	return &Model{Blocks: append([]wire.BlockHeader(nil), m.Blocks...),
		Filters: append([]chainhash.Hash(nil), m.Filters...)}
}

// Op is one primitive store call of a script.
type Op struct {
	Kind string // appB appF rollF rollB
	N    int
	Tag  string // composite operation this primitive belongs to ("" / "reorg" / "cfbatch")
}

func (o Op) String() string { return fmt.Sprintf("%s(%d)%s", o.Kind, o.N, o.Tag) }

// GenScript derives a script (pure function of the seed). The scripts obey
// the caller contract of the real callers: filter headers are only written
// for stored blocks, and on a rollback the filter store is rolled back before
// the block store (blockManager.rollBackToHeight).
func GenScript(seed int64, nOps int) []Op {
	return genScript(rand.New(rand.NewSource(seed)), nOps, nil)
}

// Script kinds (see ScriptFor).
const (
	ScriptSeeded = 0 // GenScript(seed, nOps)
	ScriptFixed  = 1 // FixedScripts[seed - FixedScriptSeed0], whatever the run's seed
	ScriptLong   = 2 // a chain longer than one filter checkpoint interval first, then as GenScript
	ScriptHuge   = 3 // a short seeded history, ONE append of several thousand block headers, the filter store brought up in one or two huge batches, a short seeded tail
)

// HugeSizes are the batch sizes the "huge" append class is drawn around: one
// WriteHeaders call with several thousand headers, as the headers import makes
// (its default write batch is 65536 headers); a P2P headers message never
// exceeds 2000. Nothing in the runner or the oracle depends on the values.
var HugeSizes = []int{2500, 4100, 5000, 9000, 13000}

// FixedScriptSeed0 is the script seed of FixedScripts[0] (it only drives the
// contents of the generated headers).
const FixedScriptSeed0 = int64(9_000_000_000_001)

// FixedScripts are run by every run, whatever its seed. Every crash point of
// them is taken like those of the seeded scripts.
//
//	0: block headers 1..5 written, then filter headers 1..3, then 4..5, one more
//	   block, its filter header: the crash points inside and between these
//	   leave block tip 5 with filter tip 0, 3, 5 and block tip 6 with filter
//	   tip 5: "block header batch written, its cfheaders batch not (yet /
//	   completely)". On restart with no new block the filter tip must reach
//	   the block tip.
//	1: the same on a chain longer than one filter checkpoint interval: block
//	   tip 1203 with filter tip 0 (checkpointed fetch, then the rest), 300
//	   (checkpointed fetch starting inside the stored part), 1100 and 1160
//	   (nothing left for the checkpointed fetch), then 1207 with 1160.
//	2: a short history (block tip 7, filter tip 4), then ONE append of 9000 block
//	   headers and ONE filter-header batch of 9003 (both stores to 9007): every
//	   durable step of a several-thousand-header WriteHeaders call is a crash
//	   point (the flat-file write with its torn lengths, and every index
//	   commit the call makes, however many those are).
var FixedScripts = [][]Op{
	{{"appB", 5, ""}, {"appF", 3, "cfbatch"}, {"appF", 2, "cfbatch"}, {"appB", 1, ""}, {"appF", 1, "cfbatch"}},
	{{"appB", 1203, ""}, {"appF", 300, "cfbatch"}, {"appF", 800, "cfbatch"}, {"appF", 60, "cfbatch"}, {"appB", 4, ""}, {"appF", 47, "cfbatch"}},
	{{"appB", 7, ""}, {"appF", 4, "cfbatch"}, {"appB", 9000, "huge"}, {"appF", 9003, "huge"}},
}

// ScriptFor returns the script of (kind, seed, nOps): a pure function of its
// arguments, the same in the enumerating parent and in a SIGKILL child.
func ScriptFor(kind int, seed int64, nOps int) []Op {
	switch kind {
	case ScriptFixed:
		return append([]Op(nil), FixedScripts[int(seed-FixedScriptSeed0)]...)
	case ScriptLong:
		// Block tip 1000..2600 first, the filter store brought to a drawn
		// height below it in one or two batches, then a seeded script.
		r := rand.New(rand.NewSource(seed))
		n := 1000 + r.Intn(1601)
		pre := []Op{{"appB", n, ""}}
		switch r.Intn(3) {
		case 0: // within the last checkpoint interval
			k := n/1000*1000 + r.Intn(n%1000+1)
			if a := r.Intn(k + 1); a > 0 && a < k {
				pre = append(pre, Op{"appF", a, "cfbatch"}, Op{"appF", k - a, "cfbatch"})
			} else if k > 0 {
				pre = append(pre, Op{"appF", k, "cfbatch"})
			}
		case 1: // anywhere
			if k := r.Intn(n + 1); k > 0 {
				pre = append(pre, Op{"appF", k, "cfbatch"})
			}
		default: // on a checkpoint
			pre = append(pre, Op{"appF", (1 + r.Intn(n/1000)) * 1000, "cfbatch"})
		}
		return genScript(r, nOps, pre)
	case ScriptHuge:
		// 0-3 seeded small ops, one huge block append (a size of HugeSizes plus
		// a drawn remainder), the filter store brought up to (or near) the new
		// tip in one huge batch / a small batch then a huge one / a huge batch
		// that stops a drawn distance below the tip, then nOps seeded ops.
		r := rand.New(rand.NewSource(seed))
		pre := genScript(r, r.Intn(4), nil)
		bt, ft := 0, 0
		for _, op := range pre {
			switch op.Kind {
			case "appB":
				bt += op.N
			case "appF":
				ft += op.N
			case "rollB":
				bt -= op.N
			case "rollF":
				ft -= op.N
			}
		}
		n := HugeSizes[r.Intn(len(HugeSizes))] + r.Intn(97)
		pre = append(pre, Op{"appB", n, "huge"})
		bt += n
		switch r.Intn(3) {
		case 0:
			pre = append(pre, Op{"appF", bt - ft, "huge"})
		case 1:
			k := 1 + r.Intn(40)
			pre = append(pre, Op{"appF", k, "cfbatch"}, Op{"appF", bt - ft - k, "huge"})
		default:
			pre = append(pre, Op{"appF", bt - ft - r.Intn(1500), "huge"})
		}
		return genScript(r, nOps, pre)
	default:
		return GenScript(seed, nOps)
	}
}

func genScript(r *rand.Rand, nOps int, pre []Op) []Op {
	ops := append([]Op(nil), pre...)
	bt, ft := 0, 0
	for _, op := range pre {
		switch op.Kind {
		case "appB":
			bt += op.N
		case "appF":
			ft += op.N
		case "rollB":
			bt -= op.N
		case "rollF":
			ft -= op.N
		}
	}
	nOps += len(pre)
	for len(ops) < nOps {
		switch k := r.Intn(10); {
		case k < 3:
			n := 1 + r.Intn(6)
			if r.Intn(6) == 0 {
				n = 20 + r.Intn(200)
			}
			ops = append(ops, Op{"appB", n, ""})
			bt += n
		case k < 6:
			if ft >= bt {
				continue
			}
			n := 1 + r.Intn(bt-ft)
			ops = append(ops, Op{"appF", n, "cfbatch"})
			ft += n
		case k < 7:
			if ft == 0 {
				continue
			}
			// Not a caller pattern on its own, but part of every rollback.
			if ft == bt {
				ops = append(ops, Op{"rollF", 1, "reorg"}, Op{"rollB", 1, "reorg"})
				ft--
				bt--
			}
		case k < 9:
			// A reorganisation: roll back d blocks the way the block
			// manager does, then write the first new header alone and the
			// rest as a batch.
			if bt == 0 {
				continue
			}
			d := 1 + r.Intn(min(bt, 5))
			for i := 0; i < d; i++ {
				if bt <= ft {
					ops = append(ops, Op{"rollF", 1, "reorg"})
					ft--
				}
				ops = append(ops, Op{"rollB", 1, "reorg"})
				bt--
			}
			ops = append(ops, Op{"appB", 1, "reorg"})
			bt++
			if n := d + r.Intn(3); n > 0 {
				ops = append(ops, Op{"appB", n, "reorg"})
				bt += n
			}
		default:
			// Multi-header rollback of the block store (importer / API use),
			// only above the filter tip.
			if bt-ft < 1 {
				continue
			}
			n := 1 + r.Intn(bt-ft)
			ops = append(ops, Op{"rollB", n, ""})
			bt -= n
		}
	}
	return ops
}

// Point is one crash point.
type Point struct {
	Op    int    // index of the primitive op in flight
	Name  string // e.g. "block-file/write/torn-record+1"
	Class string // normalised class for signatures
}

// Runner executes a script on real stores with crash hooks.
type Runner struct {
	Params *chaincfg.Params
	Dir    string
	Rng    *rand.Rand

	raw   walletdb.DB
	Block headerfs.BlockHeaderStore
	Filt  headerfs.FilterHeaderStore
	bf    *crashFile
	ff    *crashFile

	Model  *Model
	curOp  int
	curOpK Op
	// OnPoint is invoked at every crash point.
	OnPoint func(p Point)
	// KillAt >= 0: SIGKILL this process at the KillAt-th point (child mode).
	KillAt  int
	npoints int
	// creating: the store constructors are running on an empty directory
	// (CreationPoints); a point is then announced BEFORE each index commit
	// too, as the flat files are not wrapped yet.
	creating bool
	// Ordinal of the index commit within the store call in flight (names only).
	commitOp, commitOpSeq, opCommits, opSeq int
}

func (r *Runner) point(name, class string) {
	p := Point{Op: r.curOp, Name: name, Class: class}
	if r.KillAt >= 0 && r.npoints == r.KillAt {
		_ = syscall.Kill(os.Getpid(), syscall.SIGKILL)
		time.Sleep(time.Hour)
	}
	r.npoints++
	if r.OnPoint != nil {
		r.OnPoint(p)
	}
}

// Points returns how many crash points were passed so far.
func (r *Runner) Points() int { return r.npoints }

// crashDB announces a crash point after every committed update.
type crashDB struct {
	walletdb.DB
	r *Runner
}

func (d *crashDB) Update(f func(tx walletdb.ReadWriteTx) error, reset func()) error {
	if d.r.creating {
		d.r.point("index/commit/before", "index-commit/before")
	}
	err := d.DB.Update(f, reset)
	if d.r.curOp >= 0 {
		// Every write transaction the store call makes is a crash point of its
		// own: their number is whatever the call does (one today for every
		// call, whatever the batch size), never assumed. The second and later
		// ones of one call carry their ordinal in the point's name.
		name := "index/commit/after"
		if !d.r.creating {
			if d.r.commitOp != d.r.curOp || d.r.commitOpSeq != d.r.opSeq {
				d.r.commitOp, d.r.commitOpSeq, d.r.opCommits = d.r.curOp, d.r.opSeq, 0
			}
			if d.r.opCommits++; d.r.opCommits > 1 {
				name = fmt.Sprintf("index/commit/after#%d", d.r.opCommits)
			}
		}
		d.r.point(name, "index-commit/after")
	}
	return err
}

// crashFile announces crash points around and inside writes and truncates.
type crashFile struct {
	headerfs.File
	r    *Runner
	name string
	rec  int
}

func (f *crashFile) Write(p []byte) (int, error) {
	if f.r.curOp < 0 {
		return f.File.Write(p)
	}
	f.r.point(f.name+"/write/before", "file-write/before")
	// Torn lengths, increasing: 1 byte, record-1, exactly one record (of a
	// longer batch), record+1, total-1.
	type cut struct {
		at   int
		name string
	}
	var cuts []cut
	add := func(at int, name string) {
		if at > 0 && at < len(p) && (len(cuts) == 0 || at > cuts[len(cuts)-1].at) {
			cuts = append(cuts, cut{at, name})
		}
	}
	add(1, "torn-1byte")
	add(f.rec-1, "torn-record-1")
	add(f.rec, "torn-one-record-of-batch")
	add(f.rec+1, "torn-record+1")
	add(len(p)-1, "torn-total-1")
	done := 0
	for _, c := range cuts {
		n, err := f.File.Write(p[done:c.at])
		done += n
		if err != nil {
			return done, err
		}
		f.r.point(f.name+"/write/"+c.name, "file-write/"+c.name)
	}
	n, err := f.File.Write(p[done:])
	done += n
	if err != nil {
		return done, err
	}
	f.r.point(f.name+"/write/after", "file-write/after")
	return done, nil
}

func (f *crashFile) Truncate(size int64) error {
	err := f.File.Truncate(size)
	if f.r.curOp >= 0 {
		f.r.point(f.name+"/truncate/after", "file-truncate/after")
	}
	return err
}

// OpenDir opens the stores in dir.
func OpenDir(dir string, p *chaincfg.Params) (walletdb.DB, headerfs.BlockHeaderStore, headerfs.FilterHeaderStore, error) {
	db, err := walletdb.Create("bdb", filepath.Join(dir, dbName), true, 10*time.Second, false)
	if err != nil {
		return nil, nil, nil, fmt.Errorf("open db: %w", err)
	}
	b, err := headerfs.NewBlockHeaderStore(dir, db, p)
	if err != nil {
		db.Close()
		return nil, nil, nil, fmt.Errorf("NewBlockHeaderStore: %w", err)
	}
	f, err := headerfs.NewFilterHeaderStore(dir, db, headerfs.RegularFilter, p, nil)
	if err != nil {
		closeStoreFile(b)
		db.Close()
		return nil, nil, nil, fmt.Errorf("NewFilterHeaderStore: %w", err)
	}
	return db, b, f, nil
}

// closeStoreFile closes a store's flat file (the stores have no Close).
func closeStoreFile(store interface{}) {
	_ = headerfs.VerifWrapFile(store, func(f headerfs.File) headerfs.File {
		_ = f.Close()
		return f
	})
}

// CloseAll closes flat files and database.
func CloseAll(db walletdb.DB, b headerfs.BlockHeaderStore, f headerfs.FilterHeaderStore) {
	if b != nil {
		closeStoreFile(b)
	}
	if f != nil {
		closeStoreFile(f)
	}
	if db != nil {
		db.Close()
	}
}

// NewRunner opens the stores in dir (a copy of a template holding genesis)
// with the crash hooks installed.
func NewRunner(dir string, p *chaincfg.Params, seed int64) (*Runner, error) {
	r := &Runner{Params: p, Dir: dir, Rng: rand.New(rand.NewSource(seed)), KillAt: -1, curOp: -1}
	raw, err := walletdb.Create("bdb", filepath.Join(dir, dbName), true, 10*time.Second, false)
	if err != nil {
		return nil, err
	}
	r.raw = raw
	cdb := &crashDB{DB: raw, r: r}
	if r.Block, err = headerfs.NewBlockHeaderStore(dir, cdb, p); err != nil {
		return nil, err
	}
	if r.Filt, err = headerfs.NewFilterHeaderStore(dir, cdb, headerfs.RegularFilter, p, nil); err != nil {
		return nil, err
	}
	_ = headerfs.VerifWrapFile(r.Block, func(f headerfs.File) headerfs.File {
		r.bf = &crashFile{File: f, r: r, name: "block-file", rec: 80}
		return r.bf
	})
	_ = headerfs.VerifWrapFile(r.Filt, func(f headerfs.File) headerfs.File {
		r.ff = &crashFile{File: f, r: r, name: "filter-file", rec: 32}
		return r.ff
	})
	g, _, err := r.Block.ChainTip()
	if err != nil {
		return nil, err
	}
	fg, _, err := r.Filt.ChainTip()
	if err != nil {
		return nil, err
	}
	r.Model = &Model{Blocks: []wire.BlockHeader{*g}, Filters: []chainhash.Hash{*fg}}
	return r, nil
}

// Close releases the runner's files.
func (r *Runner) Close() { CloseAll(r.raw, r.Block, r.Filt) }

func (r *Runner) newHeader(prev *wire.BlockHeader) wire.BlockHeader {
	h := wire.BlockHeader{Version: 4, PrevBlock: prev.BlockHash(),
		Timestamp: time.Unix(prev.Timestamp.Unix()+1+int64(r.Rng.Intn(600)), 0),
		Bits:      0x207fffff, Nonce: r.Rng.Uint32()}
	r.Rng.Read(h.MerkleRoot[:])
	return h
}

// Exec runs primitive op i. before/after are the model states around it.
func (r *Runner) Exec(i int, op Op) (before, after *Model, err error) {
	before = r.Model.clone()
	m := r.Model
	r.curOp, r.curOpK = i, op
	r.opSeq++
	defer func() { r.curOp = -1 }()
	switch op.Kind {
	case "appB":
		batch := make([]headerfs.BlockHeader, 0, op.N)
		prev := m.Blocks[len(m.Blocks)-1]
		next := m.clone()
		for k := 0; k < op.N; k++ {
			h := r.newHeader(&prev)
			hc := h
			batch = append(batch, headerfs.BlockHeader{BlockHeader: &hc, Height: uint32(len(next.Blocks))})
			next.Blocks = append(next.Blocks, h)
			prev = h
		}
		if err = r.Block.WriteHeaders(batch...); err != nil {
			return before, nil, err
		}
		r.Model = next
	case "appF":
		next := m.clone()
		batch := make([]headerfs.FilterHeader, 0, op.N)
		for k := 0; k < op.N; k++ {
			// The filter header of the block at this height, chained onto the
			// previous one (the ground truth a scripted peer can serve, see
			// resume.go). The draw keeps the script's random stream as it was.
			var fh chainhash.Hash
			r.Rng.Read(fh[:])
			fh = NextFilterHeader(next.Filters[len(next.Filters)-1], next.Blocks[len(next.Filters)].BlockHash())
			batch = append(batch, headerfs.FilterHeader{FilterHash: fh})
			next.Filters = append(next.Filters, fh)
		}
		// As writeCFHeadersMsg does: only the last entry names its block.
		last := len(next.Filters) - 1
		batch[len(batch)-1].HeaderHash = next.Blocks[last].BlockHash()
		batch[len(batch)-1].Height = uint32(last)
		if err = r.Filt.WriteHeaders(batch...); err != nil {
			return before, nil, err
		}
		r.Model = next
	case "rollF":
		next := m.clone()
		next.Filters = next.Filters[:len(next.Filters)-1]
		newTip := next.Blocks[len(next.Filters)-1].BlockHash()
		if _, err = r.Filt.RollbackLastBlock(&newTip); err != nil {
			return before, nil, err
		}
		r.Model = next
	case "rollB":
		next := m.clone()
		next.Blocks = next.Blocks[:len(next.Blocks)-op.N]
		if _, err = r.Block.RollbackBlockHeaders(uint32(op.N)); err != nil {
			return before, nil, err
		}
		r.Model = next
	default:
		return before, nil, fmt.Errorf("unknown op %q", op.Kind)
	}
	return before, r.Model.clone(), nil
}

// CopyDir copies the three data files of src into a new directory dst.
func CopyDir(src, dst string) error {
	if err := os.MkdirAll(dst, 0o755); err != nil {
		return err
	}
	for _, n := range []string{dbName, blockFile, filtFile} {
		in, err := os.Open(filepath.Join(src, n))
		if os.IsNotExist(err) && n != dbName {
			continue // first start: a flat file that was not created yet
		}
		if err != nil {
			return err
		}
		out, err := os.Create(filepath.Join(dst, n))
		if err != nil {
			in.Close()
			return err
		}
		_, err = io.Copy(out, in)
		in.Close()
		out.Close()
		if err != nil {
			return err
		}
	}
	return nil
}

// Finding of the recovery oracle.
type Finding struct {
	Sig  string
	What string
}

// CheckImage opens the crash image in dir in the way a restarted client does
// and checks it against the model states before/after the interrupted
// primitive. rng drives the follow-up append. (Store-level oracle only; see
// ImageCheck for the block manager restart part.)
func CheckImage(dir string, p *chaincfg.Params, before, after *Model, op Op, pt Point, rng *rand.Rand) []Finding {
	fs, _ := (&ImageCheck{Dir: dir, Params: p, Before: before, After: after, Rng: rng,
		Sig: ScriptSig(op, pt), Ctx: ScriptCtx(op, pt)}).Run()
	return fs
}

// ScriptSig builds the signatures of the script family: c08/<rule>/<primitive
// kind @ composite>/<crash-point class>.
func ScriptSig(op Op, pt Point) func(rule string) string {
	shape := fmt.Sprintf("%s%s/%s", op.Kind, tagOf(op), pt.Class)
	return func(rule string) string { return "c08/" + rule + "/" + shape }
}

// ScriptCtx describes a crash point of the script family.
func ScriptCtx(op Op, pt Point) string { return fmt.Sprintf("crash at %s during %v", pt.Name, op) }

// ImageCheck is the recovery oracle applied to one crash image.
type ImageCheck struct {
	Dir           string
	Params        *chaincfg.Params
	Before, After *Model // states around the interrupted durable step
	Sig           func(rule string) string
	Ctx           string // "crash at <point> during <operation>"
	Rng           *rand.Rand
	// BM, when set, adds "syncing resumes": the real block manager is
	// constructed on the reopened stores and handed one valid next header.
	BM    *BMOpts
	Stats *BMStats
	// Extra, when set, runs on the reopened stores after the store-level
	// rules passed and before anything is appended (it must only read).
	Extra func(gotB []wire.BlockHeader, gotF []chainhash.Hash) []Finding
	// Resume, when set, runs next on the same reopened stores and may change
	// them (the import family re-runs the import here); it returns what the
	// stores must hold afterwards. With BM set, the block manager is first
	// constructed (only) on the untouched recovered stores; the one-header
	// restart check and the follow-up appends then run on the resumed state.
	Resume func(b headerfs.BlockHeaderStore, f headerfs.FilterHeaderStore) (m *Model, fs []Finding, inconclusive string)
	// Service, when set, makes the restart the complete client's:
	// neutrino.NewChainService with this configuration opens the directory (in
	// the client's own order, with its block manager and the other users of
	// the database), the oracle then reads the service's own stores, and the
	// public API must report a best block consistent with them. Unset: the
	// harness opens the two stores itself (block, then filter).
	Service *StartSpec
}

// Run opens the crash image like a restarting client and applies the oracle.
// inconclusive is non-empty when a watchdog (not the oracle) ended the check.
func (c *ImageCheck) Run() (out []Finding, inconclusive string) {
	dir, p, before, after, rng, ctx := c.Dir, c.Params, c.Before, c.After, c.Rng, c.Ctx
	sig := c.Sig
	var (
		db  walletdb.DB
		b   headerfs.BlockHeaderStore
		f   headerfs.FilterHeaderStore
		svc *neutrino.ChainService
		err error
	)
	if c.Service != nil {
		var pan string
		var to bool
		db, svc, err, pan, to = OpenService(dir, c.Service)
		switch {
		case to:
			return nil, "watchdog: NewChainService on a crash image did not return in 90 s"
		case pan != "":
			return []Finding{{sig("reopen-panics"), fmt.Sprintf("NewChainService panics on restart after a %s: %s", ctx, pan)}}, ""
		case err != nil:
			return []Finding{{sig("reopen-fails"), fmt.Sprintf("the client does not start (NewChainService, %v) after a %s: %v", c.Service, ctx, err)}}, ""
		}
		b, f = svc.BlockHeaders, svc.RegFilterHeaders
		c.Stats.addService()
	} else {
		db, b, f, err = OpenDir(dir, p)
		if err != nil {
			return []Finding{{sig("reopen-fails"), fmt.Sprintf("stores do not open after a %s: %v", ctx, err)}}, ""
		}
	}
	// stopBM, once set, stops the block manager started by the filter-sync
	// resume step. Stopping takes the client up to 50 ms of sleeping (its stop
	// ticker wakes the parked handler), so that and the closing of the stores
	// happen in the background; the parked handler touches nothing until woken,
	// and exits when woken.
	var stopBM func()
	defer func() {
		if stopBM == nil {
			CloseAll(db, b, f)
			return
		}
		pendingClose.Add(1)
		go func() {
			defer pendingClose.Done()
			stopBM()
			CloseAll(db, b, f)
		}()
	}()
	// Block store: equal to the state before or after the primitive.
	readB := func() ([]wire.BlockHeader, error) {
		_, tip, err := b.ChainTip()
		if err != nil {
			return nil, fmt.Errorf("ChainTip: %v", err)
		}
		hs := make([]wire.BlockHeader, tip+1)
		for i := uint32(0); i <= tip; i++ {
			h, err := b.FetchHeaderByHeight(i)
			if err != nil {
				return nil, fmt.Errorf("FetchHeaderByHeight(%d/%d): %v", i, tip, err)
			}
			hs[i] = *h
		}
		return hs, nil
	}
	readF := func() ([]chainhash.Hash, error) {
		_, tip, err := f.ChainTip()
		if err != nil {
			return nil, fmt.Errorf("filter ChainTip: %v", err)
		}
		hs := make([]chainhash.Hash, tip+1)
		for i := uint32(0); i <= tip; i++ {
			h, err := f.FetchHeaderByHeight(i)
			if err != nil {
				return nil, fmt.Errorf("filter FetchHeaderByHeight(%d/%d): %v", i, tip, err)
			}
			hs[i] = *h
		}
		return hs, nil
	}
	gotB, err := readB()
	if err != nil {
		return []Finding{{sig("block-store-unreadable"), fmt.Sprintf("after a %s: %v", ctx, err)}}, ""
	}
	gotF, err := readF()
	if err != nil {
		return []Finding{{sig("filter-store-unreadable"), fmt.Sprintf("after a %s: %v", ctx, err)}}, ""
	}
	eqB := func(m *Model) bool {
		if len(m.Blocks) != len(gotB) {
			return false
		}
		for i := range gotB {
			if gotB[i] != m.Blocks[i] {
				return false
			}
		}
		return true
	}
	eqF := func(m *Model) bool {
		if len(m.Filters) != len(gotF) {
			return false
		}
		for i := range gotF {
			if gotF[i] != m.Filters[i] {
				return false
			}
		}
		return true
	}
	if !eqB(before) && !eqB(after) {
		out = append(out, Finding{sig("block-store-neither-before-nor-after"),
			fmt.Sprintf("%s: block store holds %d headers, before=%d after=%d, and matches neither", ctx, len(gotB), len(before.Blocks), len(after.Blocks))})
	}
	if !eqF(before) && !eqF(after) {
		out = append(out, Finding{sig("filter-store-neither-before-nor-after"),
			fmt.Sprintf("%s: filter store holds %d headers, before=%d after=%d, and matches neither", ctx, len(gotF), len(before.Filters), len(after.Filters))})
	}
	if len(gotF) > len(gotB) {
		out = append(out, Finding{sig("filter-ahead-of-blocks"), fmt.Sprintf("%s: filter tip %d above block tip %d", ctx, len(gotF)-1, len(gotB)-1)})
	}
	// Flat files hold whole records only.
	for _, ff := range []struct {
		name string
		rec  int64
		n    int
	}{{blockFile, 80, len(gotB)}, {filtFile, 32, len(gotF)}} {
		st, err := os.Stat(filepath.Join(dir, ff.name))
		if err == nil && st.Size()%ff.rec != 0 {
			out = append(out, Finding{sig("torn-tail-kept/" + ff.name),
				fmt.Sprintf("after reopening, %s is %d bytes: not a multiple of the %d-byte record (%s)", ff.name, st.Size(), ff.rec, ctx)})
		} else if err == nil && st.Size() != int64(ff.n)*ff.rec {
			out = append(out, Finding{sig("file-length-disagrees-with-tip/" + ff.name),
				fmt.Sprintf("after reopening, %s holds %d records but the tip says %d (%s)", ff.name, st.Size()/ff.rec, ff.n, ctx)})
		}
	}
	// By-hash lookups of what is stored, and of what the other candidate
	// state held beyond it (must not be found).
	for i := range gotB {
		h := gotB[i].BlockHash()
		if ht, err := b.HeightFromHash(&h); err != nil || ht != uint32(i) {
			out = append(out, Finding{sig("index-disagrees"), fmt.Sprintf("%s: stored header %d not found by hash (err=%v height=%d)", ctx, i, err, ht)})
			break
		}
	}
	for _, m := range []*Model{before, after} {
		for i := len(gotB); i < len(m.Blocks); i++ {
			h := m.Blocks[i].BlockHash()
			if _, err := b.HeightFromHash(&h); err == nil && (i >= len(gotB) || gotB[i] != m.Blocks[i]) {
				out = append(out, Finding{sig("stale-index-entry"), fmt.Sprintf("%s: header %d of the interrupted operation is not stored but is still found by hash", ctx, i)})
				break
			}
		}
	}
	if len(out) > 0 {
		return out, ""
	}
	// The public API of the restarted client agrees with its stores: the best
	// block is the highest block both chains reach.
	if svc != nil {
		want := min(len(gotB), len(gotF)) - 1
		bs, err := svc.BestBlock()
		switch {
		case err != nil:
			return []Finding{{sig("best-block-unreadable"), fmt.Sprintf("%s: BestBlock of the restarted client: %v", ctx, err)}}, ""
		case int(bs.Height) != want || bs.Hash != gotB[want].BlockHash():
			return []Finding{{sig("best-block-disagrees"), fmt.Sprintf("%s: the restarted client reports best block %d (%v); its stores hold block tip %d, filter tip %d, block %d is %v",
				ctx, bs.Height, bs.Hash, len(gotB)-1, len(gotF)-1, want, gotB[want].BlockHash())}}, ""
		}
		if h, err := svc.GetBlockHash(0); err != nil || *h != *p.GenesisHash {
			return []Finding{{sig("genesis-missing"), fmt.Sprintf("%s: GetBlockHash(0) of the restarted client: %v (err=%v), the chain's genesis is %v", ctx, h, err, p.GenesisHash)}}, ""
		}
	}
	if c.Extra != nil {
		if out = c.Extra(gotB, gotF); len(out) > 0 {
			return out, ""
		}
	}
	if c.Resume != nil {
		if c.BM != nil {
			now := c.BM.Now
			if now.IsZero() {
				now = gotB[len(gotB)-1].Timestamp.Add(time.Hour)
			}
			_, rule, what := ConstructBM(p, b, f, now)
			switch {
			case rule == bmInconclusive:
				return nil, what
			case rule != "":
				return []Finding{{sig(rule), fmt.Sprintf("%s: %s", ctx, what)}}, ""
			}
			c.Stats.add(1, 0, 0)
		}
		m, fs, inc := c.Resume(b, f)
		if len(fs) > 0 || inc != "" {
			return fs, inc
		}
		gotB, gotF = m.Blocks, m.Filters
	}
	// Syncing resumes (0): the real block manager is STARTED on these stores
	// with one honest peer that announces no block; the filter-header chain
	// must catch up with the block-header chain (see resume.go).
	if c.BM != nil {
		newF, stop, rule, what := ResumeFilterSync(p, b, f, gotB, gotF, c.Stats)
		stopBM = stop
		switch {
		case rule == bmInconclusive:
			return nil, what
		case strings.HasPrefix(rule, "resume/"):
			return []Finding{{"c08/" + rule, fmt.Sprintf("%s: %s", ctx, what)}}, ""
		case rule != "":
			return []Finding{{sig(rule), fmt.Sprintf("%s: %s", ctx, what)}}, ""
		}
		gotF = newF
	}
	// Syncing resumes (1): the real block manager starts on these stores and
	// commits one valid next header.
	if c.BM != nil {
		next, rule, what := RestartBM(p, b, f, gotB, c.BM, c.Stats)
		switch {
		case rule == bmInconclusive:
			return nil, what
		case rule != "":
			return []Finding{{sig(rule), fmt.Sprintf("%s: %s", ctx, what)}}, ""
		case next != nil:
			gotB = append(append([]wire.BlockHeader(nil), gotB...), *next)
		}
	}
	// Syncing resumes (2): an append lands at the right height and reads back.
	prev := gotB[len(gotB)-1]
	var batch []headerfs.BlockHeader
	var want []wire.BlockHeader
	for k := 0; k < 2; k++ {
		h := wire.BlockHeader{Version: 4, PrevBlock: prev.BlockHash(), Timestamp: time.Unix(prev.Timestamp.Unix()+7, 0), Bits: 0x207fffff, Nonce: rng.Uint32()}
		hc := h
		batch = append(batch, headerfs.BlockHeader{BlockHeader: &hc, Height: uint32(len(gotB) + k)})
		want = append(want, h)
		prev = h
	}
	if err := b.WriteHeaders(batch...); err != nil {
		return []Finding{{sig("append-after-recovery-fails"), fmt.Sprintf("%s: block append after recovery: %v", ctx, err)}}, ""
	}
	again, err := readB()
	if err != nil || len(again) != len(gotB)+2 || again[len(gotB)] != want[0] || again[len(gotB)+1] != want[1] {
		return []Finding{{sig("append-after-recovery-misplaced/block"), fmt.Sprintf("%s: headers appended after recovery do not read back at heights %d,%d (err=%v, n=%d)", ctx, len(gotB), len(gotB)+1, err, len(again))}}, ""
	}
	for k := range gotB {
		if again[k] != gotB[k] {
			return []Finding{{sig("append-after-recovery-shifted/block"), fmt.Sprintf("%s: stored header %d changed after appending", ctx, k)}}, ""
		}
	}
	var fh chainhash.Hash
	rng.Read(fh[:])
	nh := len(gotF)
	if err := f.WriteHeaders(headerfs.FilterHeader{FilterHash: fh, HeaderHash: again[nh].BlockHash(), Height: uint32(nh)}); err != nil {
		return []Finding{{sig("append-after-recovery-fails/filter"), fmt.Sprintf("%s: filter append after recovery: %v", ctx, err)}}, ""
	}
	againF, err := readF()
	if err != nil || len(againF) != nh+1 || againF[nh] != fh {
		return []Finding{{sig("append-after-recovery-misplaced/filter"), fmt.Sprintf("%s: filter header appended after recovery does not read back at height %d (err=%v n=%d)", ctx, nh, err, len(againF))}}, ""
	}
	for k := range gotF {
		if againF[k] != gotF[k] {
			return []Finding{{sig("append-after-recovery-shifted/filter"), fmt.Sprintf("%s: stored filter header %d changed after appending", ctx, k)}}, ""
		}
	}
	return nil, ""
}

func tagOf(op Op) string {
	if op.Tag == "" {
		return ""
	}
	return "@" + op.Tag
}
