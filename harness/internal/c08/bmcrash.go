package c08

import (
	"errors"
	"fmt"
	"math/rand"
	"sync"
	"time"

	"github.com/btcsuite/btcd/blockchain"
	"github.com/btcsuite/btcd/btcutil/v2"
	"github.com/btcsuite/btcd/chaincfg/v2"
	"github.com/btcsuite/btcd/chainhash/v2"
	"github.com/btcsuite/btcd/wire/v2"
	"github.com/lightninglabs/neutrino"
	"github.com/lightninglabs/neutrino/banman"
	"github.com/lightninglabs/neutrino/headerfs"
)

// Block-manager family: the multi-store operations of the property are
// performed by the REAL block manager, not scripted by the harness.
//
// The real blockManager is constructed (neutrino.VerifNewBlockManager ->
// newBlockManager) on the REAL stores opened with this package's crash hooks
// (crashDB around the walletdb, crashFile around both flat files) and is then
// handed, synchronously, the messages a peer would send:
//
//	headers              k valid headers extending the tip      -> handleHeadersMsg (batch write)
//	cfheaders            one at-tip filter-header round         -> getUncheckpointedCFHeaders -> writeCFHeadersMsg
//	reorg                a heavier branch forking Depth below   -> handleHeadersMsg -> rollBackToHeight,
//	                     the tip (optionally preceded by           first new header alone, rest as batch
//	                     headers the client already has)
//	checkpoint-mismatch  headers extending the tip up to the    -> handleHeadersMsg -> rollBackToHeight(previous
//	                     next checkpoint height with another       checkpoint), nothing written
//	                     block there
//
// Which store is touched when, and in which order, is whatever the client
// does. The stores the block manager sees are thin recorders: each mutating
// store call it makes is one durable step; the recorder notes the model state
// before and after it (contents taken from the call, boundaries from the
// model) and forwards the call. Crash points are every point the hooks
// announce inside such a step (index commits, file appends with the torn
// classes, truncates) plus the client's own pause points between the steps
// (verifPoint: rb.betweenStores, rb.afterBlock, hdr.reorg.afterRollback,
// hdr.beforeBatchWrite, cf.beforeWrite, cf.afterWrite), attributed to a run by
// the goroutine that reaches them. Every point yields a crash image (copy of
// the three data files at that instant; child mode: SIGKILL there), judged by
// the same ImageCheck as every other family.

// Kinds of block-manager level operations.
const (
	BMHeaders = "headers"
	BMCF      = "cfheaders"
	BMReorg   = "reorg"
	BMCkpt    = "checkpoint-mismatch"
)

// BMOp is one message-level operation handed to the real block manager.
type BMOp struct {
	Kind  string
	N     int // headers: how many; reorg: length of the new branch (> Depth)
	Depth int // reorg: blocks to disconnect (fork point = tip - Depth)
	Known int // reorg: headers below the fork point, already stored, that precede the branch in the message
}

func (o BMOp) String() string {
	switch o.Kind {
	case BMReorg:
		return fmt.Sprintf("reorg(depth %d, branch %d, known prefix %d)", o.Depth, o.N, o.Known)
	case BMHeaders:
		return fmt.Sprintf("headers(%d)", o.N)
	}
	return o.Kind
}

// BMScenario is one case of the family: stores pre-filled (store level, no
// crash points) to PreBlocks / PreFilters, then Ops through the real block
// manager with every crash point taken. A pure function of (seed, idx), see
// GenBMScenario.
type BMScenario struct {
	Idx         int
	Label       string
	Class       string // "fixed", "reorg", "checkpoint", "sync"
	Seed        int64  // drives the header contents
	PreBlocks   int
	PreFilters  int
	Checkpoints []int // heights; their hashes are the honest chain's
	Ops         []BMOp

	// Honest is the chain the scenario starts on: heights 0..max(PreBlocks,
	// last checkpoint). A headers op continues along it while it lasts.
	Honest []wire.BlockHeader
	P      *chaincfg.Params
}

func (s *BMScenario) String() string {
	return fmt.Sprintf("%s: stores pre-filled to block tip %d / filter tip %d, checkpoints %v, then %v", s.Label, s.PreBlocks, s.PreFilters, s.Checkpoints, s.Ops)
}

// mineHeader returns a PoW-valid child of prev for parameters without
// retargeting.
func mineHeader(p *chaincfg.Params, prev *wire.BlockHeader, rng *rand.Rand) wire.BlockHeader {
	h := wire.BlockHeader{Version: 4, PrevBlock: prev.BlockHash(),
		Timestamp: time.Unix(prev.Timestamp.Unix()+1+int64(rng.Intn(600)), 0), Bits: p.PowLimitBits}
	rng.Read(h.MerkleRoot[:])
	tgt := blockchain.CompactToBig(h.Bits)
	for n := rng.Uint32(); ; n++ {
		h.Nonce = n
		hash := h.BlockHash()
		if blockchain.HashToBig(&hash).Cmp(tgt) <= 0 {
			return h
		}
	}
}

const bmFixedSeed0 = int64(9_100_000_000_001)

// fixedBMScenarios are run by every run, whatever its seed.
//
//	0: block tip 6, filter tip 6; a 2-header branch from height 5: depth-1
//	   reorganisation with the filter tip level with the block tip.
//	1: block tip 9, filter tip 7; a 4-header branch from height 6: depth-3
//	   reorganisation with the filter tip one above the fork point; then the
//	   filter-header round for the new branch.
//	2: checkpoints at 4 and 10, block tip 8, filter tip 8; headers 9..10 with
//	   another block at 10: rollback to 4 through both stores; then 3 honest
//	   headers again.
//	3: from genesis: headers 1..5, filter-header round (batch of 5), 1 more,
//	   round (1).
var fixedBMScenarios = []BMScenario{
	{Class: "fixed", PreBlocks: 6, PreFilters: 6, Ops: []BMOp{{Kind: BMReorg, Depth: 1, N: 2}}},
	{Class: "fixed", PreBlocks: 9, PreFilters: 7, Ops: []BMOp{{Kind: BMReorg, Depth: 3, N: 4}, {Kind: BMCF}}},
	{Class: "fixed", PreBlocks: 8, PreFilters: 8, Checkpoints: []int{4, 10}, Ops: []BMOp{{Kind: BMCkpt}, {Kind: BMHeaders, N: 3}}},
	{Class: "fixed", Ops: []BMOp{{Kind: BMHeaders, N: 5}, {Kind: BMCF}, {Kind: BMHeaders, N: 1}, {Kind: BMCF}}},
}

// NumFixedBMScenarios is how many scenarios at the start of the list are fixed.
func NumFixedBMScenarios() int { return len(fixedBMScenarios) }

// bmCycle is the class of seeded scenario j (j counts from the end of the
// fixed ones): 9 reorganisations, 2 checkpoint mismatches, 2 sync histories.
const bmCycle = 13

var bmRels = []string{"above", "at", "below"}

// GenBMScenario derives scenario idx (pure function of seed and idx).
//
// Seeded reorganisations walk depth 1..6 and the position of the filter tip
// relative to the fork point (above / at / below) so that the 9 of one cycle
// cover every depth and every position three times; fork point 0..8, branch
// depth+1..depth+3 headers, 0-2 already-known headers in front of the branch,
// "above" = level with the block tip half of the time; half of the time the
// filter-header round for the new branch follows, sometimes with a second
// reorganisation (of the new branch, filter tip level) after it.
// Checkpoint mismatches: previous checkpoint genesis or height 1..5, tip 1..6
// above it, next checkpoint 1..4 above the tip, filter tip anywhere; afterwards
// honest headers and a filter-header round. Sync histories: 2-3 rounds of
// headers (1..8, sometimes 20..60) and filter-header rounds, some skipped so
// that the filter store lags.
func GenBMScenario(seed int64, idx int) *BMScenario {
	var sc BMScenario
	if idx < len(fixedBMScenarios) {
		sc = fixedBMScenarios[idx]
		sc.Ops = append([]BMOp(nil), sc.Ops...)
		sc.Seed = bmFixedSeed0 + int64(idx)
		sc.Label = fmt.Sprintf("fixed-%d", idx)
	} else {
		j := idx - len(fixedBMScenarios)
		r := rand.New(rand.NewSource(seed*1_000_003 + int64(j)*7919 + 0x626d))
		sc.Seed = seed*100_003 + int64(j) + 0x626d0000
		s := int(uint64(seed) % 6)
		switch pos := j % bmCycle; {
		case pos < 9:
			q := j/bmCycle*9 + pos
			d := 1 + (q+s)%6
			rel := bmRels[(q+q/3+s)%3]
			f := r.Intn(9)
			if rel == "below" && f == 0 {
				f = 1 + r.Intn(8)
			}
			n := f + d
			var m int
			switch rel {
			case "above":
				m = n
				if r.Intn(2) == 0 {
					m = f + 1 + r.Intn(d)
				}
			case "at":
				m = f
			default:
				m = r.Intn(f)
			}
			sc.Class, sc.PreBlocks, sc.PreFilters = "reorg", n, m
			sc.Ops = []BMOp{{Kind: BMReorg, Depth: d, N: d + 1 + r.Intn(3), Known: r.Intn(min(f, 2) + 1)}}
			if r.Intn(2) == 0 {
				sc.Ops = append(sc.Ops, BMOp{Kind: BMCF})
				if r.Intn(2) == 0 {
					sc.Ops = append(sc.Ops, BMOp{Kind: BMReorg, Depth: 1 + r.Intn(2), N: 3 + r.Intn(2)})
				}
			}
		case pos < 11:
			c1 := 0
			if r.Intn(3) > 0 {
				c1 = 1 + r.Intn(5)
			}
			n := c1 + 1 + r.Intn(6)
			c2 := n + 1 + r.Intn(4)
			var m int
			switch r.Intn(4) {
			case 0:
				m = n
			case 1:
				m = c1
			case 2:
				m = c1 + 1 + r.Intn(n-c1)
			default:
				m = r.Intn(c1 + 1)
			}
			sc.Class, sc.PreBlocks, sc.PreFilters = "checkpoint", n, m
			if c1 > 0 {
				sc.Checkpoints = []int{c1, c2}
			} else {
				sc.Checkpoints = []int{c2}
			}
			if c2-n > 1 && r.Intn(2) == 0 {
				sc.Ops = append(sc.Ops, BMOp{Kind: BMHeaders, N: 1 + r.Intn(min(2, c2-n-1))})
			}
			sc.Ops = append(sc.Ops, BMOp{Kind: BMCkpt}, BMOp{Kind: BMHeaders, N: 1 + r.Intn(c2-c1)}, BMOp{Kind: BMCF})
		default:
			n := r.Intn(11)
			m := n
			if n > 0 && r.Intn(2) == 0 {
				m = r.Intn(n + 1)
			}
			sc.Class, sc.PreBlocks, sc.PreFilters = "sync", n, m
			for k, rounds := 0, 2+r.Intn(2); k < rounds; k++ {
				cnt := 1 + r.Intn(8)
				if r.Intn(4) == 0 {
					cnt = 20 + r.Intn(41)
				}
				sc.Ops = append(sc.Ops, BMOp{Kind: BMHeaders, N: cnt})
				if r.Intn(4) > 0 || k == rounds-1 {
					sc.Ops = append(sc.Ops, BMOp{Kind: BMCF})
				}
			}
		}
		sc.Label = fmt.Sprintf("%s-%d", sc.Class, idx)
	}
	sc.Idx = idx
	p := chaincfg.RegressionNetParams
	p.Checkpoints = nil
	top := sc.PreBlocks
	if k := len(sc.Checkpoints); k > 0 && sc.Checkpoints[k-1] > top {
		top = sc.Checkpoints[k-1]
	}
	hr := rand.New(rand.NewSource(sc.Seed))
	sc.Honest = []wire.BlockHeader{p.GenesisBlock.Header}
	for h := 1; h <= top; h++ {
		sc.Honest = append(sc.Honest, mineHeader(&p, &sc.Honest[h-1], hr))
	}
	for _, h := range sc.Checkpoints {
		hash := sc.Honest[h].BlockHash()
		p.Checkpoints = append(p.Checkpoints, chaincfg.Checkpoint{Height: int32(h), Hash: &hash})
	}
	sc.P = &p
	return &sc
}

// Opts returns how the block-manager restart check gets its next header on an
// image of this scenario: along the honest chain while the recovered chain is
// a prefix of it (so that a checkpoint height gets the checkpointed block),
// mined otherwise.
func (s *BMScenario) Opts() *BMOpts {
	if len(s.Checkpoints) == 0 {
		return &BMOpts{}
	}
	return &BMOpts{Next: func(chain []wire.BlockHeader) *wire.BlockHeader {
		if n := len(chain); n < len(s.Honest) && chain[n-1] == s.Honest[n-1] {
			h := s.Honest[n]
			return &h
		}
		return MineNext(s.P, chain)
	}}
}

// BMStep is one durable step of a block-manager operation (a mutating store
// call the block manager made) or one of the client's pause points between two
// such steps (Op.Kind "pause", Before == After), with the crash points passed.
type BMStep struct {
	OpIdx         int    // index of the block-manager level operation
	BMOp          BMOp   // that operation
	Rel           string // shape of the operation's start state (see bmRel)
	Op            Op     // store call: Kind appB/appF/rollB/rollF/pause, N headers, Tag = BMOp.Kind
	Before, After *Model
	Points        []Point
	Images        []string
}

// bmRel is the normalised start state of an operation: for operations that
// roll back, where the filter tip is relative to the height rolled back to;
// otherwise whether the filter tip is level with the block tip.
func bmRel(op BMOp, blockTip, filterTip, backTo int) string {
	switch op.Kind {
	case BMReorg, BMCkpt:
		switch {
		case filterTip > backTo && filterTip == blockTip:
			return "ftip-level-with-block-tip"
		case filterTip > backTo:
			return "ftip-above-fork"
		case filterTip == backTo:
			return "ftip-at-fork"
		}
		return "ftip-below-fork"
	}
	if filterTip == blockTip {
		return "ftip-level"
	}
	return "ftip-behind"
}

// BMSig builds the signatures of this family:
// c08/<rule>/bm:<operation>[<start shape>]/<store call or pause>/<point class>.
func BMSig(st *BMStep, pt Point) func(rule string) string {
	shape := fmt.Sprintf("bm:%s[%s]/%s/%s", st.BMOp.Kind, st.Rel, st.Op.Kind, pt.Class)
	return func(rule string) string { return "c08/" + rule + "/" + shape }
}

// BMFingerprint is the evidence shape of one image of this family.
func BMFingerprint(st *BMStep, pt Point) string {
	return fmt.Sprintf("bm|%s|%s|%s|%s", st.BMOp.Kind, st.Rel, st.Op.Kind, pt.Class)
}

// BMCtx describes a crash point of this family.
func BMCtx(sc *BMScenario, st *BMStep, pt Point) string {
	what := fmt.Sprintf("the block manager's store call #%d %s(%d)", pt.Op, st.Op.Kind, st.Op.N)
	if st.Op.Kind == "pause" {
		what = "the block manager, between its store calls"
	}
	return fmt.Sprintf("crash at %s in %s, during its operation #%d %v [%s; stores at block tip %d / filter tip %d before this step; scenario %s]",
		pt.Name, what, st.OpIdx, st.BMOp, st.Rel, len(st.Before.Blocks)-1, len(st.Before.Filters)-1, sc.Label)
}

// bmRun is one scenario being executed.
type bmRun struct {
	r      *Runner
	sc     *BMScenario
	model  *Model
	nstep  int
	opIdx  int
	op     BMOp
	rel    string
	cur    *BMStep
	onStep func(*BMStep)
	sp     *neutrino.ServerPeer
	mu     sync.Mutex
	bans   []string
	copyEr error
}

// bmByGID routes the client's pause points to the run whose operation is
// executing on the goroutine that reached the point.
var bmByGID sync.Map

func bmPauseHook(name string) {
	if v, ok := bmByGID.Load(curGID()); ok {
		v.(*bmRun).pause(name)
	}
}

func (b *bmRun) emit(st *BMStep) {
	if b.onStep != nil {
		b.onStep(st)
	}
}

func (b *bmRun) pause(name string) {
	if b.cur != nil {
		return // never: pause points sit between store calls
	}
	st := &BMStep{OpIdx: b.opIdx, BMOp: b.op, Rel: b.rel, Op: Op{Kind: "pause", Tag: b.op.Kind}, Before: b.model, After: b.model}
	b.cur = st
	b.r.curOp = b.nstep
	b.r.point("client-pause/"+name, "pause/"+name)
	b.r.curOp = -1
	b.cur = nil
	b.emit(st)
}

func (b *bmRun) step(kind string, n int, after *Model, call func() error) error {
	st := &BMStep{OpIdx: b.opIdx, BMOp: b.op, Rel: b.rel, Op: Op{Kind: kind, N: n, Tag: b.op.Kind}, Before: b.model, After: after}
	b.cur = st
	b.r.curOp, b.r.curOpK = b.nstep, st.Op
	b.nstep++
	err := call()
	b.r.curOp = -1
	b.cur = nil
	if err == nil {
		b.model = after
	} else {
		// A store call that failed without any fault: whatever it left is the
		// step's "after" as far as the images are concerned; the operation's
		// outcome check reports it.
		st.After = st.Before
	}
	b.emit(st)
	return err
}

type bmBlockStore struct {
	headerfs.BlockHeaderStore
	b *bmRun
}

func (s *bmBlockStore) WriteHeaders(hdrs ...headerfs.BlockHeader) error {
	m := s.b.model
	next := &Model{Blocks: append([]wire.BlockHeader(nil), m.Blocks...), Filters: m.Filters}
	for _, h := range hdrs {
		next.Blocks = append(next.Blocks, *h.BlockHeader)
	}
	return s.b.step("appB", len(hdrs), next, func() error { return s.BlockHeaderStore.WriteHeaders(hdrs...) })
}

func (s *bmBlockStore) RollbackBlockHeaders(n uint32) (bs *headerfs.BlockStamp, err error) {
	m := s.b.model
	next := m
	if int(n) < len(m.Blocks) {
		next = &Model{Blocks: append([]wire.BlockHeader(nil), m.Blocks[:len(m.Blocks)-int(n)]...), Filters: m.Filters}
	}
	err = s.b.step("rollB", int(n), next, func() error {
		var e error
		bs, e = s.BlockHeaderStore.RollbackBlockHeaders(n)
		return e
	})
	return bs, err
}

func (s *bmBlockStore) RollbackLastBlock() (bs *headerfs.BlockStamp, err error) {
	m := s.b.model
	next := m
	if len(m.Blocks) > 1 {
		next = &Model{Blocks: append([]wire.BlockHeader(nil), m.Blocks[:len(m.Blocks)-1]...), Filters: m.Filters}
	}
	err = s.b.step("rollB", 1, next, func() error {
		var e error
		bs, e = s.BlockHeaderStore.RollbackLastBlock()
		return e
	})
	return bs, err
}

type bmFilterStore struct {
	headerfs.FilterHeaderStore
	b *bmRun
}

func (s *bmFilterStore) WriteHeaders(hdrs ...headerfs.FilterHeader) error {
	m := s.b.model
	next := &Model{Blocks: m.Blocks, Filters: append([]chainhash.Hash(nil), m.Filters...)}
	for _, h := range hdrs {
		next.Filters = append(next.Filters, h.FilterHash)
	}
	return s.b.step("appF", len(hdrs), next, func() error { return s.FilterHeaderStore.WriteHeaders(hdrs...) })
}

func (s *bmFilterStore) RollbackLastBlock(newTip *chainhash.Hash) (bs *headerfs.BlockStamp, err error) {
	m := s.b.model
	next := m
	if len(m.Filters) > 1 {
		next = &Model{Blocks: m.Blocks, Filters: append([]chainhash.Hash(nil), m.Filters[:len(m.Filters)-1]...)}
	}
	err = s.b.step("rollF", 1, next, func() error {
		var e error
		bs, e = s.FilterHeaderStore.RollbackLastBlock(newTip)
		return e
	})
	return bs, err
}

// queryAll is the scripted all-peers query of a run: one honest peer answers
// getcfheaders for the block chain the client holds right now from the ground
// truth (FilterHashOf / NextFilterHeader).
func (b *bmRun) queryAll(msg wire.Message,
	check func(sp *neutrino.ServerPeer, resp wire.Message, quit chan<- struct{}, peerQuit chan<- struct{}),
	_ ...neutrino.QueryOption) {

	req, ok := msg.(*wire.MsgGetCFHeaders)
	if !ok || req.FilterType != wire.GCSFilterRegular {
		return
	}
	m := b.model
	stop := -1
	for h := len(m.Blocks) - 1; h >= 0; h-- {
		if m.Blocks[h].BlockHash() == req.StopHash {
			stop = h
			break
		}
	}
	start := int(req.StartHeight)
	if stop < 0 || start < 1 || start > stop || stop-start+1 > wire.MaxCFHeadersPerMsg {
		return
	}
	prev := m.Filters[0]
	for h := 1; h < start; h++ {
		prev = NextFilterHeader(prev, m.Blocks[h].BlockHash())
	}
	resp := wire.NewMsgCFHeaders()
	resp.FilterType, resp.StopHash, resp.PrevFilterHeader = req.FilterType, req.StopHash, prev
	for h := start; h <= stop; h++ {
		fh := FilterHashOf(m.Blocks[h].BlockHash())
		_ = resp.AddCFHash(&fh)
	}
	check(b.sp, resp, make(chan struct{}), make(chan struct{}))
}

// bmClock is the settable clock of a run (never the wall clock).
type bmClock struct {
	mu sync.Mutex
	t  time.Time
}

func (c *bmClock) AdjustedTime() time.Time         { c.mu.Lock(); defer c.mu.Unlock(); return c.t }
func (c *bmClock) AddTimeSample(string, time.Time) {}
func (c *bmClock) Offset() time.Duration           { return 0 }
func (c *bmClock) set(t time.Time)                 { c.mu.Lock(); c.t = t; c.mu.Unlock() }

// BMOutcome is what an uninterrupted run of a scenario did.
type BMOutcome struct {
	Steps, Points int
	// Err: the harness could not run the scenario (inconclusive).
	Err error
	// Failed: an operation panicked, or ended in another state than the one an
	// uninterrupted operation of that kind ends in, without any fault.
	FailedOp   int
	FailedKind string // "" / "panics" / "unexpected-end-state"
	Failed     string
	Shapes     []string // one per rolling-back operation: kind, depth, start shape
}

// RunBMScenario opens dir (a copy of a template holding the regtest genesis)
// with the crash hooks installed, pre-fills the stores, constructs the real
// block manager on them and performs the scenario's operations. killAt >= 0
// (child mode): the process SIGKILLs itself at that crash point. Otherwise a
// crash image (named imgPrefix-<n>) is captured at every crash point and onStep
// is called when the interrupted store call has returned (pause points: at
// once).
func RunBMScenario(dir string, sc *BMScenario, killAt int, imgPrefix string, onStep func(*BMStep)) (out BMOutcome) {
	run, err := NewRunner(dir, sc.P, sc.Seed)
	if err != nil {
		return BMOutcome{Err: fmt.Errorf("open with hooks: %w", err)}
	}
	defer run.Close()
	run.KillAt = killAt
	rng := rand.New(rand.NewSource(sc.Seed ^ 0x6f7073))

	// Pre-fill (no crash points: curOp is -1).
	model := run.Model.clone()
	if model.Blocks[0] != sc.Honest[0] {
		return BMOutcome{Err: errors.New("template genesis differs from the scenario's")}
	}
	if sc.PreBlocks > 0 {
		hs := make([]headerfs.BlockHeader, 0, sc.PreBlocks)
		for h := 1; h <= sc.PreBlocks; h++ {
			model.Blocks = append(model.Blocks, sc.Honest[h])
			hs = append(hs, headerfs.BlockHeader{BlockHeader: &model.Blocks[h], Height: uint32(h)})
		}
		if err := run.Block.WriteHeaders(hs...); err != nil {
			return BMOutcome{Err: fmt.Errorf("prefill blocks: %w", err)}
		}
	}
	if sc.PreFilters > 0 {
		fhs := make([]headerfs.FilterHeader, 0, sc.PreFilters)
		for h := 1; h <= sc.PreFilters; h++ {
			fh := NextFilterHeader(model.Filters[h-1], model.Blocks[h].BlockHash())
			model.Filters = append(model.Filters, fh)
			fhs = append(fhs, headerfs.FilterHeader{FilterHash: fh})
		}
		fhs[len(fhs)-1].HeaderHash = model.Blocks[sc.PreFilters].BlockHash()
		fhs[len(fhs)-1].Height = uint32(sc.PreFilters)
		if err := run.Filt.WriteHeaders(fhs...); err != nil {
			return BMOutcome{Err: fmt.Errorf("prefill filters: %w", err)}
		}
	}

	b := &bmRun{r: run, sc: sc, model: model, onStep: onStep}
	nimg := 0
	if killAt < 0 {
		run.OnPoint = func(p Point) {
			if b.cur == nil {
				return
			}
			d := fmt.Sprintf("%s-%d", imgPrefix, nimg)
			nimg++
			if e := CopyDir(dir, d); e != nil {
				b.copyEr = e
				return
			}
			b.cur.Points = append(b.cur.Points, p)
			b.cur.Images = append(b.cur.Images, d)
		}
	}
	resumeHookOnce.Do(func() { neutrino.VerifSetPointHook(resumeHook) })

	clock := &bmClock{t: model.Blocks[len(model.Blocks)-1].Timestamp.Add(time.Hour)}
	var bm *neutrino.VerifBlockManager
	pan, to := guarded(func() {
		bm, err = neutrino.VerifNewBlockManager(&neutrino.VerifBlockManagerConfig{
			ChainParams:      *sc.P,
			BlockHeaders:     &bmBlockStore{run.Block, b},
			RegFilterHeaders: &bmFilterStore{run.Filt, b},
			TimeSource:       clock,
			BanPeer: func(addr string, why banman.Reason) error {
				b.mu.Lock()
				b.bans = append(b.bans, fmt.Sprintf("%s (%v)", addr, why))
				b.mu.Unlock()
				return nil
			},
			GetBlock: func(chainhash.Hash, ...neutrino.QueryOption) (*btcutil.Block, error) {
				return nil, errors.New("scripted peer: headers only")
			},
			QueryAllPeers: b.queryAll,
		})
	})
	switch {
	case to:
		return BMOutcome{Err: errors.New("watchdog: block manager construction did not return in 90 s")}
	case pan != "":
		return BMOutcome{Err: errors.New("block manager construction on freshly written stores panicked: " + pan)}
	case err != nil:
		return BMOutcome{Err: fmt.Errorf("block manager construction on freshly written stores: %w", err)}
	}
	// Nobody subscribes: drain the (unbuffered) notification channel.
	drainQuit, drainDone := make(chan struct{}), make(chan struct{})
	go func() {
		defer close(drainDone)
		for {
			select {
			case <-bm.Notifications():
			case <-drainQuit:
				return
			}
		}
	}()
	defer func() { close(drainQuit); <-drainDone }()

	out.FailedOp = -1
	for i, op := range sc.Ops {
		m := b.model
		n, ft := len(m.Blocks)-1, len(m.Filters)-1
		clock.set(m.Blocks[n].Timestamp.Add(time.Hour))
		want := &Model{}
		var do func()
		backTo := -1
		switch op.Kind {
		case BMHeaders:
			msg := wire.NewMsgHeaders()
			want.Blocks, want.Filters = append([]wire.BlockHeader(nil), m.Blocks...), m.Filters
			for k := 0; k < op.N; k++ {
				prev := want.Blocks[len(want.Blocks)-1]
				var h wire.BlockHeader
				if at := len(want.Blocks); at < len(sc.Honest) && prev == sc.Honest[at-1] {
					h = sc.Honest[at]
				} else {
					h = mineHeader(sc.P, &prev, rng)
				}
				want.Blocks = append(want.Blocks, h)
				hc := h
				msg.Headers = append(msg.Headers, &hc)
			}
			do = func() { bm.HandleHeaders(b.sp, msg) }
		case BMCF:
			want.Blocks = m.Blocks
			want.Filters = append([]chainhash.Hash(nil), m.Filters...)
			for h := ft + 1; h <= n && h-ft <= wire.MaxCFHeadersPerMsg; h++ {
				want.Filters = append(want.Filters, NextFilterHeader(want.Filters[h-1], m.Blocks[h].BlockHash()))
			}
			do = func() { _ = bm.GetUncheckpointedCFHeaders() }
		case BMReorg:
			if op.Depth < 1 || op.Depth > n || op.N <= op.Depth || op.Known > n-op.Depth {
				return BMOutcome{Err: fmt.Errorf("scenario %s: op %d %v does not fit block tip %d", sc.Label, i, op, n)}
			}
			backTo = n - op.Depth
			msg := wire.NewMsgHeaders()
			for h := backTo - op.Known + 1; h <= backTo; h++ {
				hc := m.Blocks[h]
				msg.Headers = append(msg.Headers, &hc)
			}
			want.Blocks = append([]wire.BlockHeader(nil), m.Blocks[:backTo+1]...)
			for k := 0; k < op.N; k++ {
				h := mineHeader(sc.P, &want.Blocks[len(want.Blocks)-1], rng)
				want.Blocks = append(want.Blocks, h)
				hc := h
				msg.Headers = append(msg.Headers, &hc)
			}
			want.Filters = m.Filters[:min(ft, backTo)+1]
			do = func() { bm.HandleHeaders(b.sp, msg) }
		case BMCkpt:
			// The next checkpoint above the tip and the one the client falls
			// back to.
			next := -1
			backTo = 0
			for _, c := range sc.Checkpoints {
				if c > n {
					next = c
					break
				}
				backTo = c
			}
			if next < 0 {
				return BMOutcome{Err: fmt.Errorf("scenario %s: op %d: no checkpoint above block tip %d", sc.Label, i, n)}
			}
			msg := wire.NewMsgHeaders()
			prev := m.Blocks[n]
			for h := n + 1; h <= next; h++ {
				// Another continuation than the honest one: the block at the
				// checkpoint height is not the checkpointed one.
				nh := mineHeader(sc.P, &prev, rng)
				hc := nh
				msg.Headers = append(msg.Headers, &hc)
				prev = nh
			}
			want.Blocks = m.Blocks[:backTo+1]
			want.Filters = m.Filters[:min(ft, backTo)+1]
			do = func() { bm.HandleHeaders(b.sp, msg) }
		default:
			return BMOutcome{Err: fmt.Errorf("unknown operation %q", op.Kind)}
		}
		// A fresh (never connected) peer per operation: the client disconnects
		// the sender of a checkpoint mismatch.
		if b.sp, err = standInPeer(sc.P, run.Block); err != nil {
			out.Err = fmt.Errorf("stand-in peer: %w", err)
			return out
		}
		// The clock: one hour after the newest header involved (the stored tip
		// or the last header of the message), so that no header is "too new".
		if len(want.Blocks) > 0 {
			if t := want.Blocks[len(want.Blocks)-1].Timestamp.Add(time.Hour); t.After(clock.AdjustedTime()) {
				clock.set(t)
			}
		}
		b.opIdx, b.op, b.rel = i, op, bmRel(op, n, ft, backTo)
		if backTo >= 0 {
			out.Shapes = append(out.Shapes, fmt.Sprintf("%s|depth:%d|%s", op.Kind, n-backTo, b.rel))
		}
		pan, to := guarded(func() {
			g := curGID()
			bmByGID.Store(g, b)
			defer bmByGID.Delete(g)
			do()
		})
		out.Steps, out.Points = b.nstep, run.Points()
		switch {
		case to:
			out.Err = fmt.Errorf("watchdog: operation %d %v did not return in 90 s", i, op)
			return out
		case pan != "":
			out.FailedOp, out.FailedKind, out.Failed = i, "panics", fmt.Sprintf("operation %d %v panicked: %s", i, op, pan)
			return out
		case b.copyEr != nil:
			out.Err = fmt.Errorf("image copy: %w", b.copyEr)
			return out
		}
		got, err := ReadModel(run.Block, run.Filt)
		if err != nil {
			out.FailedOp, out.FailedKind, out.Failed = i, "unexpected-end-state", fmt.Sprintf("after operation %d %v the stores are unreadable: %v", i, op, err)
			return out
		}
		if d := sameModel(got, want); d != "" {
			out.FailedOp, out.FailedKind, out.Failed = i, "unexpected-end-state", fmt.Sprintf("operation %d %v (block tip %d, filter tip %d before it): %s", i, op, n, ft, d)
			return out
		}
		if d := sameModel(b.model, want); d != "" {
			out.Err = fmt.Errorf("recorder out of step with the stores after operation %d %v: %s", i, op, d)
			return out
		}
	}
	return out
}
