package c08

// Start-up family: the crash points of a start are enumerated over the REAL
// start-up path of the complete client, neutrino.NewChainService (filter
// database, block header store, filter header store, block manager, ban
// store — in the client's own order), not over store constructors the harness
// calls itself. The database handed to NewChainService announces a crash point
// before and after every write transaction; flat-file appends that happen
// between two such points (the store constructors open their flat file
// themselves, so it cannot be wrapped) are observed as a growth of the file
// between two consecutive points and yield the torn-length images. The
// "restart" is NewChainService again, with the plain database, on what a
// process dying at that point leaves behind.

import (
	"fmt"
	"math/rand"
	"os"
	"path/filepath"
	"runtime"
	"strings"
	"sync"
	"syscall"
	"time"

	"github.com/btcsuite/btcd/btcutil/v2/gcs/builder"
	"github.com/btcsuite/btcd/chaincfg/v2"
	"github.com/btcsuite/btcd/chainhash/v2"
	"github.com/btcsuite/btcd/wire/v2"
	"github.com/btcsuite/btcwallet/walletdb"
	"github.com/lightninglabs/neutrino"
	"github.com/lightninglabs/neutrino/headerfs"
)

// StartSpec is the configuration of one start through NewChainService. No
// peers are configured and Start is never called: the constructor alone opens
// (and on a first start creates) everything on disk.
type StartSpec struct {
	Net           string
	Params        *chaincfg.Params
	PersistToDisk bool
	// Assert selects Config.AssertFilterHeader: "none"; "genesis" (height 0,
	// agreeing with what every store of this chain holds: no reset);
	// "above-tip" (a height no generated state reaches: not found, no reset).
	Assert string
}

func (s *StartSpec) String() string {
	return fmt.Sprintf("net=%s persist=%v assert=%s", s.Net, s.PersistToDisk, s.Assert)
}

// startNets are the chains a start-up scenario may run on (different genesis
// blocks and genesis filters).
var startNets = []struct {
	name string
	p    func() *chaincfg.Params
}{
	{"regtest", func() *chaincfg.Params { p := chaincfg.RegressionNetParams; return &p }},
	{"simnet", func() *chaincfg.Params { p := chaincfg.SimNetParams; return &p }},
	{"testnet3", func() *chaincfg.Params { p := chaincfg.TestNet3Params; return &p }},
	{"mainnet", func() *chaincfg.Params { p := chaincfg.MainNetParams; return &p }},
	{"signet", func() *chaincfg.Params { p := chaincfg.SigNetParams; return &p }},
	{"testnet4", func() *chaincfg.Params { p := chaincfg.TestNet4Params; return &p }},
}

var startAsserts = []string{"none", "genesis", "above-tip"}

// GenStartSpec is start-up scenario idx of a run (a pure function of its
// arguments). Scenario 0 is FIXED: regtest, defaults.
func GenStartSpec(seed int64, idx int) *StartSpec {
	if idx == 0 {
		return &StartSpec{Net: startNets[0].name, Params: startNets[0].p(), Assert: "none"}
	}
	r := rand.New(rand.NewSource(seed*1_000_003 + int64(idx)*7919 + 0x73746172))
	// Walk the nets and assertion kinds so that few scenarios already cover
	// them all; the rest is drawn.
	off := int(uint64(seed) % uint64(len(startNets)))
	n := startNets[(off+idx)%len(startNets)]
	return &StartSpec{Net: n.name, Params: n.p(), PersistToDisk: r.Intn(2) == 0,
		Assert: startAsserts[(idx+r.Intn(2))%len(startAsserts)]}
}

// PlainStartSpec is the default start configuration for params.
func PlainStartSpec(p *chaincfg.Params) *StartSpec {
	return &StartSpec{Net: p.Name, Params: p, Assert: "none"}
}

// GenesisModel is what both stores hold after a first start and nothing else:
// the chain's genesis header and the filter header of its genesis block.
func GenesisModel(p *chaincfg.Params) (*Model, error) {
	flt, err := builder.BuildBasicFilter(p.GenesisBlock, nil)
	if err != nil {
		return nil, err
	}
	fh, err := builder.MakeHeaderForFilter(flt, p.GenesisBlock.Header.PrevBlock)
	if err != nil {
		return nil, err
	}
	return &Model{Blocks: []wire.BlockHeader{p.GenesisBlock.Header}, Filters: []chainhash.Hash{fh}}, nil
}

func (s *StartSpec) config(dir string, db walletdb.DB) (neutrino.Config, error) {
	cfg := neutrino.Config{DataDir: dir, Database: db, ChainParams: *s.Params, PersistToDisk: s.PersistToDisk}
	switch s.Assert {
	case "", "none":
	case "genesis":
		g, err := GenesisModel(s.Params)
		if err != nil {
			return cfg, err
		}
		cfg.AssertFilterHeader = &headerfs.FilterHeader{Height: 0, FilterHash: g.Filters[0], HeaderHash: *s.Params.GenesisHash}
	case "above-tip":
		var h chainhash.Hash
		copy(h[:], "c08: asserted above every tip...")
		cfg.AssertFilterHeader = &headerfs.FilterHeader{Height: 50_000_000, FilterHash: h}
	default:
		return cfg, fmt.Errorf("unknown assertion kind %q", s.Assert)
	}
	return cfg, nil
}

// newService runs NewChainService (never Start) under a panic guard and a
// generous watchdog.
func newService(dir string, db walletdb.DB, s *StartSpec) (svc *neutrino.ChainService, err error, pan string, timedOut bool) {
	cfg, err := s.config(dir, db)
	if err != nil {
		return nil, err, "", false
	}
	pan, timedOut = guarded(func() { svc, err = neutrino.NewChainService(cfg) })
	if timedOut || pan != "" {
		return nil, nil, pan, timedOut
	}
	return svc, err, "", false
}

// closeService releases the flat files of a never-started service.
func closeService(svc *neutrino.ChainService) {
	if svc == nil {
		return
	}
	if svc.BlockHeaders != nil {
		closeStoreFile(svc.BlockHeaders)
	}
	if svc.RegFilterHeaders != nil {
		closeStoreFile(svc.RegFilterHeaders)
	}
}

// OpenService opens the data directory the way a (re)starting client does:
// the database, then NewChainService. The stores are the service's own.
func OpenService(dir string, s *StartSpec) (db walletdb.DB, svc *neutrino.ChainService, err error, pan string, timedOut bool) {
	db, err = walletdb.Create("bdb", filepath.Join(dir, dbName), true, 10*time.Second, false)
	if err != nil {
		return nil, nil, fmt.Errorf("open db: %w", err), "", false
	}
	svc, err, pan, timedOut = newService(dir, db, s)
	if err != nil || pan != "" || timedOut {
		if !timedOut {
			db.Close()
		}
		return nil, nil, err, pan, timedOut
	}
	return db, svc, nil, "", false
}

// ---------------------------------------------------------------------------
// The recording / crashing database.

// bootDB announces a crash point before and after every write transaction
// made through it, whichever way it is made (Update, Batch, or an explicit
// read-write transaction's Commit).
type bootDB struct {
	walletdb.DB
	mu    sync.Mutex
	ntx   int
	seen  map[string]int
	point func(tx int, who, phase string)
}

// txCaller names the client function that makes the write transaction.
func txCaller() string {
	pcs := make([]uintptr, 24)
	n := runtime.Callers(3, pcs)
	frames := runtime.CallersFrames(pcs[:n])
	for {
		fr, more := frames.Next()
		fn := fr.Function
		if fn != "" && !strings.Contains(fn, "/walletdb.") && !strings.Contains(fn, "verif/internal/c08.") {
			fn = strings.TrimPrefix(fn, "github.com/lightninglabs/neutrino/")
			fn = strings.TrimPrefix(fn, "github.com/lightninglabs/")
			// Closures: name the enclosing function.
			if i := strings.Index(fn, ".func"); i > 0 {
				fn = fn[:i]
			}
			return fn
		}
		if !more {
			return "unknown"
		}
	}
}

func (d *bootDB) begin() (int, string) {
	who := txCaller()
	d.mu.Lock()
	defer d.mu.Unlock()
	d.ntx++
	if d.seen == nil {
		d.seen = map[string]int{}
	}
	d.seen[who]++
	return d.ntx, fmt.Sprintf("%s#%d", who, d.seen[who])
}

func (d *bootDB) Update(f func(tx walletdb.ReadWriteTx) error, reset func()) error {
	k, who := d.begin()
	d.point(k, who, "before")
	err := d.DB.Update(f, reset)
	d.point(k, who, "after")
	return err
}

func (d *bootDB) Batch(f func(tx walletdb.ReadWriteTx) error) error {
	bdb, ok := d.DB.(walletdb.BatchDB)
	if !ok {
		return fmt.Errorf("need batch")
	}
	k, who := d.begin()
	d.point(k, who, "before")
	err := bdb.Batch(f)
	d.point(k, who, "after")
	return err
}

type bootTx struct {
	walletdb.ReadWriteTx
	d   *bootDB
	k   int
	who string
}

func (t *bootTx) Commit() error {
	t.d.point(t.k, t.who, "before")
	err := t.ReadWriteTx.Commit()
	t.d.point(t.k, t.who, "after")
	return err
}

func (d *bootDB) BeginReadWriteTx() (walletdb.ReadWriteTx, error) {
	tx, err := d.DB.BeginReadWriteTx()
	if err != nil {
		return nil, err
	}
	k, who := d.begin()
	return &bootTx{ReadWriteTx: tx, d: d, k: k, who: who}, nil
}

// ---------------------------------------------------------------------------
// One start under the recording database.

// StartPoint is one crash point of a start-up run. While the callback runs,
// the data directory is exactly what a process dying there leaves; for a torn
// point the image is that directory with Cut applied to its copy.
type StartPoint struct {
	Point
	// Real points are numbered 0.. in order (the SIGKILL realisation kills at
	// a real point); torn points are derived and carry -1.
	Real int
	// Cut, for a torn point: the flat file and the length it is cut to.
	CutFile string
	CutLen  int64
}

// ApplyCut turns a copy of the directory taken at the point into the image.
func (p *StartPoint) ApplyCut(img string) error {
	if p.CutFile == "" {
		return nil
	}
	return os.Truncate(filepath.Join(img, p.CutFile), p.CutLen)
}

// StartOutcome is what an uninterrupted start-up run did.
type StartOutcome struct {
	RealPoints int
	TornPoints int
	WriteTxs   []string // the write transactions in order, by maker
	Err        error    // NewChainService failed
	Panic      string
	TimedOut   bool
}

func flatSizes(dir string) [2]int64 {
	var s [2]int64
	for i, n := range []string{blockFile, filtFile} {
		if st, err := os.Stat(filepath.Join(dir, n)); err == nil {
			s[i] = st.Size()
		} else {
			s[i] = -1
		}
	}
	return s
}

// tornCuts are the torn lengths of an append of total bytes made of rec-byte
// records: 1 byte, record-1, exactly one record (of a longer batch), record+1,
// total-1 (the classes of the script family).
func tornCuts(rec, total int64) (at []int64, names []string) {
	add := func(a int64, name string) {
		if a > 0 && a < total && (len(at) == 0 || a > at[len(at)-1]) {
			at = append(at, a)
			names = append(names, name)
		}
	}
	add(1, "torn-1byte")
	add(rec-1, "torn-record-1")
	add(rec, "torn-one-record-of-batch")
	add(rec+1, "torn-record+1")
	add(total-1, "torn-total-1")
	return at, names
}

// RunStart runs one start-up (NewChainService, never Start) on dir with the
// recording database. onPoint is invoked at every crash point: before and
// after every write transaction, at every torn length of every flat-file
// append observed between two such points, and once the constructor has
// returned. killAt >= 0: the process SIGKILLs itself at real point killAt.
func RunStart(dir string, s *StartSpec, killAt int, onPoint func(p *StartPoint)) *StartOutcome {
	out := &StartOutcome{}
	raw, err := walletdb.Create("bdb", filepath.Join(dir, dbName), true, 10*time.Second, false)
	if err != nil {
		out.Err = fmt.Errorf("open db: %w", err)
		return out
	}
	last := flatSizes(dir)
	announce := func(tx int, name, class string) {
		// Flat-file appends since the previous point: torn images first (they
		// precede this point in time).
		now := flatSizes(dir)
		for i, fn := range []string{blockFile, filtFile} {
			from := max(last[i], 0)
			if now[i] <= from {
				continue // unchanged, or shrunk (a truncate is one step)
			}
			rec, label := int64(80), "block-file"
			if i == 1 {
				rec, label = 32, "filter-file"
			}
			at, names := tornCuts(rec, now[i]-from)
			for k := range at {
				out.TornPoints++
				if onPoint != nil {
					onPoint(&StartPoint{Point: Point{Op: tx, Name: fmt.Sprintf("%s/write/%s before %s", label, names[k], name),
						Class: "file-write/" + names[k] + "/" + label}, Real: -1, CutFile: fn, CutLen: from + at[k]})
				}
			}
		}
		last = now
		if killAt >= 0 && out.RealPoints == killAt {
			_ = syscall.Kill(os.Getpid(), syscall.SIGKILL)
			time.Sleep(time.Hour)
		}
		real := out.RealPoints
		out.RealPoints++
		if onPoint != nil {
			onPoint(&StartPoint{Point: Point{Op: tx, Name: name, Class: class}, Real: real})
		}
	}
	db := &bootDB{DB: raw}
	db.point = func(tx int, who, phase string) {
		if phase == "before" {
			out.WriteTxs = append(out.WriteTxs, who)
		}
		announce(tx, fmt.Sprintf("write tx %d (%s)/%s", tx, who, phase), "write-tx/"+phase+"/"+who)
	}
	svc, err, pan, to := newService(dir, db, s)
	out.Err, out.Panic, out.TimedOut = err, pan, to
	if to {
		return out // the start may still be running: leave everything open
	}
	if err == nil && pan == "" {
		announce(db.ntx+1, "start-up complete", "start-complete")
	}
	closeService(svc)
	raw.Close()
	return out
}

// StartSig builds the signatures of the start-up family:
// c08/<rule>/start@<state the start ran on>/<crash-point class>.
func StartSig(state string, pt Point) func(rule string) string {
	return ScriptSig(Op{Kind: "start", Tag: state}, pt)
}
