package c08

import (
	"context"
	"fmt"
	"math/rand"
	"os"
	"runtime/debug"
	"sync/atomic"
	"time"

	"github.com/btcsuite/btcd/chaincfg/v2"
	"github.com/btcsuite/btcd/chainhash/v2"
	"github.com/btcsuite/btcd/wire/v2"
	"github.com/lightninglabs/neutrino/chainimport"
	"github.com/lightninglabs/neutrino/headerfs"

	"verif/internal/c14"
)

// Header import under crashes. The REAL chainimport import runs against the
// REAL stores opened with this package's crash hooks (crashDB around the
// walletdb, crashFile around both flat files). The stores handed to the
// importer are thin step recorders: every mutating store call the importer
// makes is one durable step of the import; the recorder notes the model state
// before and after it (contents taken from the import FILE, boundaries from
// the call) and does nothing else but forward the call. Every crash point the
// hooks announce inside a step yields a crash image.

// FixedImportSpecs are the first import cases of every run, whatever the seed:
// fixed reproducing cases of the two defects this family found on the tree it
// was first run on (see /verif/proposed/C08-import-*.diff).
//
//	0: stores equal at height 6, file 7..12, batch 2. A crash between the block
//	   half and the filter half of a batch (or inside the filter half) leaves
//	   the block store one batch ahead; re-running the import must resume.
//	1: block store at 9, filter store at 4, file 0..13, batch 2: the filter
//	   store catches up over 3 batches; a crash between them must leave stores
//	   that open.
var FixedImportSpecs = []c14.Spec{
	{Family: "c08-crash-fixed", Preset: 0, BT: 6, FT: 6, StoreFork: -1, Start: 7, Len: 6, Batch: 2, BadIdx: -1},
	{Family: "c08-crash-fixed", Preset: 0, BT: 9, FT: 4, StoreFork: -1, Start: 0, Len: 14, Batch: 2, BadIdx: -1},
}

// GenImportSpec derives the idx-th import case (pure function of seed, idx
// and maxBatches): clean, well-formed imports only.
//
//	(idx counts from the end of FixedImportSpecs)
//	preset      idx%4        -> no-retarget, no-retarget, retarget, min-difficulty
//	batch class (idx/4)%5    -> 1, 2, 7, an exact divisor of the length, the length
//	stores      block tip 0 / 1..15 / 16..120, block store ahead of the filter store by 0,0,0,1,2,3,5
//	start       0 / effective tip + 1 / inside the existing content (which agrees)
//	length      5..400, ending above the block tip (or, sometimes, exactly at it when the block store is ahead)
//
// maxBatches bounds the write batches per store (and so the crash points) of
// one import.
func GenImportSpec(seed int64, idx int, maxBatches int) c14.Spec {
	if idx < len(FixedImportSpecs) {
		sp := FixedImportSpecs[idx]
		sp.Idx = idx
		return sp
	}
	idx0 := idx
	idx -= len(FixedImportSpecs)
	r := rand.New(rand.NewSource(seed*1000003 + int64(idx)*7919 + 17))
	preset := []int{0, 0, 1, 2}[idx%4]
	var bt int
	switch r.Intn(4) {
	case 0:
		bt = 0
	case 1:
		bt = 1 + r.Intn(15)
	default:
		bt = 16 + r.Intn(105)
	}
	k := []int{0, 0, 0, 1, 2, 3, 5}[r.Intn(7)]
	if k > bt {
		k = bt
	}
	ft := bt - k
	var s int
	switch r.Intn(3) {
	case 0:
		s = 0
	case 1:
		s = ft + 1
	default:
		s = ft - r.Intn(min(ft, 20)+1)
	}
	bclass := (idx / 4) % 5
	var newCnt int // heights above the block tip
	switch bclass {
	case 0:
		newCnt = 1 + r.Intn(maxBatches)
	case 1:
		newCnt = 1 + r.Intn(2*maxBatches)
	case 2:
		newCnt = 1 + r.Intn(7*maxBatches)
	default:
		newCnt = 1 + r.Intn(300)
	}
	if k > 0 && bt-s+1 >= 5 && r.Intn(10) == 0 {
		newCnt = 0 // the file ends exactly at the block tip: catch-up only
	}
	fix := func() int { // length for the current newCnt, kept within 5..400
		n := bt + newCnt - s + 1
		if n < 5 {
			newCnt += 5 - n
			n = 5
		}
		if n > 400 {
			newCnt -= n - 400
			n = 400
		}
		return n
	}
	n := fix()
	b := n
	switch bclass {
	case 0:
		b = 1
	case 1:
		b = 2
	case 2:
		b = 7
	case 3:
		// An exact divisor of the length that keeps the batch count bounded.
		found := false
		for try := 0; try < 12 && !found; try++ {
			var ds []int
			for d := 2; d < n; d++ {
				if n%d == 0 && (newCnt+d-1)/d <= maxBatches {
					ds = append(ds, d)
				}
			}
			if len(ds) > 0 {
				b = ds[r.Intn(len(ds))]
				found = true
				break
			}
			if newCnt == 0 {
				break
			}
			newCnt++
			n = fix()
		}
		if !found {
			b = n
		}
	}
	for (newCnt+b-1)/b > maxBatches && newCnt > 1 { // lengths raised to 5 etc.
		newCnt--
		n = fix()
	}
	return c14.Spec{Idx: idx0, Family: "c08-crash", Preset: preset, BT: bt, FT: ft, StoreFork: -1,
		Start: s, Len: n, Batch: b, BadIdx: -1}
}

// HugeImportIdx0 is the case index of the first huge import case (they are
// numbered apart from the ordinary cases, whose list they leave as it was).
const HugeImportIdx0 = 1000

// HugeImportMaxHeight is the chain length the huge import cases need.
func HugeImportMaxHeight() int { return HugeSizes[len(HugeSizes)-1] + 97 + 120 + 4 }

// GenHugeImportSpec derives the i-th HUGE import case (pure function of seed
// and i): a clean file of several thousand headers imported with the importer's
// default write batch size (65536, Batch 0) or another batch size of several
// thousand, so that the importer hands each store ONE WriteHeaders call with
// thousands of headers (or two). Case 0 is fixed whatever the seed: block
// store at 6, filter store at 4, file 5..6004, default batch size.
//
//	stores      block tip 0 / 1..15 / 16..120, block store ahead of the filter store by 0,0,1,2,5
//	start       0 / effective tip + 1 / inside the existing content (which agrees)
//	new heights a size of HugeSizes plus a drawn remainder
//	batch       default (0), default, 70000, the file length, half the new heights + 1 (two calls per store)
func GenHugeImportSpec(seed int64, i int) c14.Spec {
	idx := HugeImportIdx0 + i
	if i == 0 {
		return c14.Spec{Idx: idx, Family: "c08-crash-huge-fixed", Preset: 0, BT: 6, FT: 4, StoreFork: -1,
			Start: 5, Len: 6000, Batch: 0, BadIdx: -1}
	}
	r := rand.New(rand.NewSource(seed*1000003 + int64(idx)*7919 + 23))
	var bt int
	switch r.Intn(3) {
	case 0:
		bt = 0
	case 1:
		bt = 1 + r.Intn(15)
	default:
		bt = 16 + r.Intn(105)
	}
	k := []int{0, 0, 1, 2, 5}[r.Intn(5)]
	if k > bt {
		k = bt
	}
	ft := bt - k
	var s int
	switch r.Intn(3) {
	case 0:
		s = 0
	case 1:
		s = ft + 1
	default:
		s = ft - r.Intn(min(ft, 20)+1)
	}
	newCnt := HugeSizes[r.Intn(len(HugeSizes))] + r.Intn(97)
	n := bt + newCnt - s + 1
	b := []int{0, 0, 70000, n, newCnt/2 + 1}[r.Intn(5)]
	return c14.Spec{Idx: idx, Family: "c08-crash-huge", Preset: 0, BT: bt, FT: ft, StoreFork: -1,
		Start: s, Len: n, Batch: b, BadIdx: -1}
}

// ImportShape is the normalised shape of an import case (for evidence).
func ImportShape(sp *c14.Spec) string {
	start := "inside"
	switch {
	case sp.Start == 0:
		start = "0"
	case sp.Start == sp.FT+1:
		start = "tip+1"
	}
	store := "genesis"
	switch {
	case sp.BT > 0 && sp.BT == sp.FT:
		store = "equal"
	case sp.BT == sp.FT+1:
		store = "block+1"
	case sp.BT > sp.FT+1:
		store = "block+n"
	}
	batch := "other"
	switch {
	case sp.Batch == 0:
		batch = "default"
	case sp.Batch > sp.Len && sp.Len >= 2000:
		batch = "above-len"
	case sp.Batch == sp.Len:
		batch = "len"
	case sp.Batch == 1, sp.Batch == 2, sp.Batch == 7:
		batch = fmt.Sprint(sp.Batch)
	case sp.Len%sp.Batch == 0:
		batch = "divisor"
	}
	end := "above-block-tip"
	if sp.Start+sp.Len-1 == sp.BT {
		end = "at-block-tip"
	}
	size := ""
	if sp.Len >= 2000 {
		size = " file:thousands-of-headers"
	}
	return fmt.Sprintf("start:%s store:%s batch:%s end:%s preset:%d%s", start, store, batch, end, sp.Preset, size)
}

// ImportPrep is a prepared case: a data directory whose stores are pre-filled
// and the import files next to them.
type ImportPrep struct {
	Dir    string
	Params *chaincfg.Params
	World  *c14.World // nil in child mode
	Spec   c14.Spec
	Files  *c14.ImportFiles
	BPath  string
	FPath  string
	Batch  int
	Pre    *Model // stores before the import
	Final  *Model // stores after a complete import
}

// PrepareImport copies the world's template to dir, pre-fills both stores
// through their own WriteHeaders (no hooks), and writes the import files.
func PrepareImport(w *c14.World, sp c14.Spec, dir string) (*ImportPrep, error) {
	_ = os.RemoveAll(dir)
	if err := CopyDir(w.Template(), dir); err != nil {
		return nil, fmt.Errorf("copy template: %w", err)
	}
	p := w.Params()
	db, b, f, err := OpenDir(dir, p)
	if err != nil {
		return nil, err
	}
	closed := false
	defer func() {
		if !closed {
			CloseAll(db, b, f)
		}
	}()
	gf, err := f.FetchHeaderByHeight(0)
	if err != nil {
		return nil, err
	}
	files, err := w.WriteImportFiles(dir, sp, *gf)
	if err != nil {
		return nil, fmt.Errorf("write import files: %w", err)
	}
	sp = files.Spec
	pre := &Model{Blocks: append([]wire.BlockHeader(nil), files.StoreBlocks[:sp.BT+1]...), Filters: []chainhash.Hash{*gf}}
	if sp.BT > 0 {
		hs := make([]headerfs.BlockHeader, 0, sp.BT)
		for h := 1; h <= sp.BT; h++ {
			hs = append(hs, headerfs.BlockHeader{BlockHeader: &pre.Blocks[h], Height: uint32(h)})
		}
		if err := b.WriteHeaders(hs...); err != nil {
			return nil, fmt.Errorf("prefill blocks: %w", err)
		}
	}
	if sp.FT > 0 {
		fhs := make([]headerfs.FilterHeader, 0, sp.FT)
		for h := 1; h <= sp.FT; h++ {
			fh := w.FilterHash(h)
			fhs = append(fhs, headerfs.FilterHeader{FilterHash: fh, Height: uint32(h)})
			pre.Filters = append(pre.Filters, fh)
		}
		fhs[len(fhs)-1].HeaderHash = pre.Blocks[sp.FT].BlockHash()
		if err := f.WriteHeaders(fhs...); err != nil {
			return nil, fmt.Errorf("prefill filters: %w", err)
		}
	}
	closed = true
	CloseAll(db, b, f)

	// Expected final state: prior content extended by the file's headers
	// through the file's last height.
	end := files.Start + len(files.Blocks) - 1
	final := pre.clone()
	for h := len(final.Blocks); h <= end; h++ {
		final.Blocks = append(final.Blocks, files.Blocks[h-files.Start])
	}
	for h := len(final.Filters); h <= end; h++ {
		final.Filters = append(final.Filters, files.Filters[h-files.Start])
	}
	return &ImportPrep{Dir: dir, Params: p, World: w, Spec: sp, Files: files, BPath: files.BlockPath,
		FPath: files.FilterPath, Batch: sp.Batch, Pre: pre, Final: final}, nil
}

// DoImport calls the real entry point the way neutrino.ChainService.Start
// does and recovers a panic of the code under test.
func DoImport(p *chaincfg.Params, bs headerfs.BlockHeaderStore, fs headerfs.FilterHeaderStore,
	bPath, fPath string, batch int) (err error, panicked string) {

	defer func() {
		if r := recover(); r != nil {
			panicked = fmt.Sprintf("%v\n%s", r, debug.Stack())
		}
	}()
	importer, err := chainimport.NewHeadersImport(&chainimport.ImportOptions{
		BlockHeadersSource:      bPath,
		FilterHeadersSource:     fPath,
		TargetChainParams:       *p,
		TargetBlockHeaderStore:  bs,
		TargetFilterHeaderStore: fs,
		WriteBatchSizePerRegion: batch,
	})
	if err != nil {
		return err, ""
	}
	_, err = importer.Import(context.Background())
	return err, ""
}

// ImportStep is one mutating store call made by the importer, with the crash
// points passed inside it.
type ImportStep struct {
	Index         int
	Op            Op // Kind appB/appF/rollB/rollF, N headers, Tag "import" or "import-catchup"
	Before, After *Model
	Points        []Point
	Images        []string
	Note          string
}

type importRunner struct {
	r      *Runner
	prep   *ImportPrep
	model  *Model
	nstep  int
	lastB  [2]int // heights of the last block batch written
	cur    *ImportStep
	onStep func(*ImportStep)
}

func (ir *importRunner) step(kind, tag string, n int, after func(m *Model) (*Model, string), call func() error) error {
	st := &ImportStep{Index: ir.nstep, Op: Op{Kind: kind, N: n, Tag: tag}, Before: ir.model}
	ir.nstep++
	st.After, st.Note = after(ir.model)
	ir.cur = st
	ir.r.curOp, ir.r.curOpK = st.Index, st.Op
	ir.r.opSeq++
	err := call()
	ir.r.curOp = -1
	ir.cur = nil
	if err == nil {
		ir.model = st.After
	}
	if ir.onStep != nil {
		ir.onStep(st)
	}
	return err
}

type stepBlockStore struct {
	headerfs.BlockHeaderStore
	ir *importRunner
}

func (s *stepBlockStore) WriteHeaders(hdrs ...headerfs.BlockHeader) error {
	ir := s.ir
	tag := "import"
	if len(hdrs) == 0 {
		tag = "import-catchup" // the importer's empty block write that goes with a filter-only batch
	}
	return ir.step("appB", tag, len(hdrs), func(m *Model) (*Model, string) {
		next := &Model{Blocks: append([]wire.BlockHeader(nil), m.Blocks...), Filters: m.Filters}
		ir.lastB = [2]int{len(m.Blocks), len(m.Blocks) + len(hdrs) - 1}
		if ir.prep.Files == nil {
			return next, ""
		}
		for range hdrs {
			i := len(next.Blocks) - ir.prep.Files.Start
			if i < 0 || i >= len(ir.prep.Files.Blocks) {
				return next, fmt.Sprintf("block batch of %d at height %d leaves the file", len(hdrs), len(m.Blocks))
			}
			next.Blocks = append(next.Blocks, ir.prep.Files.Blocks[i])
		}
		return next, ""
	}, func() error { return s.BlockHeaderStore.WriteHeaders(hdrs...) })
}

func (s *stepBlockStore) RollbackBlockHeaders(n uint32) (bs *headerfs.BlockStamp, err error) {
	err = s.ir.step("rollB", "import", int(n), func(m *Model) (*Model, string) {
		if int(n) >= len(m.Blocks) {
			return m, "rollback below genesis"
		}
		return &Model{Blocks: append([]wire.BlockHeader(nil), m.Blocks[:len(m.Blocks)-int(n)]...), Filters: m.Filters}, ""
	}, func() error {
		var e error
		bs, e = s.BlockHeaderStore.RollbackBlockHeaders(n)
		return e
	})
	return bs, err
}

func (s *stepBlockStore) RollbackLastBlock() (*headerfs.BlockStamp, error) {
	return s.RollbackBlockHeaders(1)
}

type stepFilterStore struct {
	headerfs.FilterHeaderStore
	ir *importRunner
}

func (s *stepFilterStore) WriteHeaders(hdrs ...headerfs.FilterHeader) error {
	ir := s.ir
	tag := "import-catchup" // the lagging filter store catching up with stored blocks
	if first := len(ir.model.Filters); len(hdrs) > 0 && ir.lastB == [2]int{first, first + len(hdrs) - 1} {
		tag = "import" // the filter half of a block+filter batch
	}
	return ir.step("appF", tag, len(hdrs), func(m *Model) (*Model, string) {
		next := &Model{Blocks: m.Blocks, Filters: append([]chainhash.Hash(nil), m.Filters...)}
		if ir.prep.Files == nil {
			return next, ""
		}
		for range hdrs {
			i := len(next.Filters) - ir.prep.Files.Start
			if i < 0 || i >= len(ir.prep.Files.Filters) {
				return next, fmt.Sprintf("filter batch of %d at height %d leaves the file", len(hdrs), len(m.Filters))
			}
			next.Filters = append(next.Filters, ir.prep.Files.Filters[i])
		}
		return next, ""
	}, func() error { return s.FilterHeaderStore.WriteHeaders(hdrs...) })
}

func (s *stepFilterStore) RollbackLastBlock(newTip *chainhash.Hash) (bs *headerfs.BlockStamp, err error) {
	err = s.ir.step("rollF", "import", 1, func(m *Model) (*Model, string) {
		if len(m.Filters) < 2 {
			return m, "filter rollback below genesis"
		}
		return &Model{Blocks: m.Blocks, Filters: append([]chainhash.Hash(nil), m.Filters[:len(m.Filters)-1]...)}, ""
	}, func() error {
		var e error
		bs, e = s.FilterHeaderStore.RollbackLastBlock(newTip)
		return e
	})
	return bs, err
}

// RunImportCrashing opens prep.Dir with the crash hooks installed and runs
// the real import. killAt >= 0 (child mode): the process SIGKILLs itself at
// that crash point. Otherwise a crash image (copy of the three data files,
// named imgPrefix-<n>) is captured at every crash point and onStep is called
// when the interrupted store call has returned.
func RunImportCrashing(prep *ImportPrep, killAt int, imgPrefix string,
	onStep func(*ImportStep)) (steps, points int, err error, panicked string) {

	run, err := NewRunner(prep.Dir, prep.Params, 1)
	if err != nil {
		return 0, 0, fmt.Errorf("open with hooks: %w", err), ""
	}
	defer run.Close()
	run.KillAt = killAt
	pre := prep.Pre
	if pre == nil {
		pre = &Model{}
	}
	ir := &importRunner{r: run, prep: prep, model: pre, onStep: onStep, lastB: [2]int{-1, -1}}
	nimg := 0
	var copyErr error
	if killAt < 0 {
		run.OnPoint = func(p Point) {
			if ir.cur == nil {
				return
			}
			d := fmt.Sprintf("%s-%d", imgPrefix, nimg)
			nimg++
			if e := CopyDir(prep.Dir, d); e != nil {
				copyErr = e
				return
			}
			ir.cur.Points = append(ir.cur.Points, p)
			ir.cur.Images = append(ir.cur.Images, d)
		}
	}
	err, panicked = DoImport(prep.Params, &stepBlockStore{run.Block, ir}, &stepFilterStore{run.Filt, ir},
		prep.BPath, prep.FPath, prep.Batch)
	if err == nil && copyErr != nil {
		err = fmt.Errorf("image copy: %w", copyErr)
	}
	return ir.nstep, run.Points(), err, panicked
}

// ReadModel reads both stores completely through their public API.
func ReadModel(b headerfs.BlockHeaderStore, f headerfs.FilterHeaderStore) (*Model, error) {
	m := &Model{}
	_, bt, err := b.ChainTip()
	if err != nil {
		return nil, fmt.Errorf("block ChainTip: %v", err)
	}
	for h := uint32(0); h <= bt; h++ {
		hd, err := b.FetchHeaderByHeight(h)
		if err != nil {
			return nil, fmt.Errorf("block FetchHeaderByHeight(%d/%d): %v", h, bt, err)
		}
		m.Blocks = append(m.Blocks, *hd)
	}
	_, ft, err := f.ChainTip()
	if err != nil {
		return nil, fmt.Errorf("filter ChainTip: %v", err)
	}
	for h := uint32(0); h <= ft; h++ {
		fh, err := f.FetchHeaderByHeight(h)
		if err != nil {
			return nil, fmt.Errorf("filter FetchHeaderByHeight(%d/%d): %v", h, ft, err)
		}
		m.Filters = append(m.Filters, *fh)
	}
	return m, nil
}

func sameModel(a, b *Model) string {
	if len(a.Blocks) != len(b.Blocks) || len(a.Filters) != len(b.Filters) {
		return fmt.Sprintf("tips block/filter %d/%d, expected %d/%d", len(a.Blocks)-1, len(a.Filters)-1, len(b.Blocks)-1, len(b.Filters)-1)
	}
	for i := range a.Blocks {
		if a.Blocks[i] != b.Blocks[i] {
			return fmt.Sprintf("block header at height %d differs from the expected one", i)
		}
	}
	for i := range a.Filters {
		if a.Filters[i] != b.Filters[i] {
			return fmt.Sprintf("filter header at height %d differs from the expected one", i)
		}
	}
	return ""
}

// ImportSig builds the signatures of the import family:
// c08/import/<rule>/<store call kind[@catchup]>/<crash-point class>.
func ImportSig(op Op, pt Point) func(rule string) string {
	kind := op.Kind
	if op.Tag == "import-catchup" {
		kind += "@catchup"
	}
	return func(rule string) string { return "c08/import/" + rule + "/" + kind + "/" + pt.Class }
}

// ImportFingerprint is the evidence shape of one import crash image.
func ImportFingerprint(op Op, pt Point) string {
	kind := op.Kind
	if op.Tag == "import-catchup" {
		kind += "@catchup"
	}
	return "import|" + kind + "|" + pt.Class
}

// ImportStats counts what the import image checks did (updated atomically).
type ImportStats struct {
	Reimports, ReimportsOK, HeadersCompared, CrashStateBM int64
	// Accumulated durations (evidence only).
	TTotal, TReimport, TSecond int64
}

// CheckImportImage applies the recovery oracle to one crash image taken
// during an import, on ONE reopening of the image: everything ImageCheck
// asserts (with the states around the interrupted store call), every stored
// header above the prior content equals the file's header for its height, the
// block manager can be constructed on the recovered stores, RE-RUNNING the
// same import on them succeeds and yields exactly the complete final state,
// and from there the block manager restarts, commits the next header of the
// chain, and further appends land at the right heights.
//
// crashStateBM additionally takes a second copy of the image and runs the
// one-header block manager restart and the follow-up appends on the crash
// state itself (no re-import), as the script family does.
func CheckImportImage(prep *ImportPrep, op Op, before, after *Model, pt Point, img string, rng *rand.Rand,
	bms *BMStats, crashStateBM bool, ist *ImportStats) (out []Finding, inconclusive string) {

	t0 := time.Now()
	defer func() { atomic.AddInt64(&ist.TTotal, int64(time.Since(t0))) }()
	sig := ImportSig(op, pt)
	ctx := fmt.Sprintf("crash at %s during the importer's store call #%d %s(%d headers) [batch size %d, file heights %d..%d, stores before the import %d/%d]",
		pt.Name, pt.Op, op.Kind, op.N, prep.Batch, prep.Files.Start, prep.Files.Start+len(prep.Files.Blocks)-1,
		len(prep.Pre.Blocks)-1, len(prep.Pre.Filters)-1)
	bmo := &BMOpts{Now: c14.RefNow(), Next: func(chain []wire.BlockHeader) *wire.BlockHeader {
		if len(chain) > prep.World.MaxHeight() {
			return nil
		}
		h := prep.World.Header(len(chain))
		return &h
	}}
	second := img + "-bm"
	if crashStateBM {
		if err := CopyDir(img, second); err != nil {
			return nil, "image copy: " + err.Error()
		}
		defer os.RemoveAll(second)
	}

	files, pre := prep.Files, prep.Pre
	ic := &ImageCheck{Dir: img, Params: prep.Params, Before: before, After: after, Rng: rng, Sig: sig, Ctx: ctx, Stats: bms, BM: bmo}
	ic.Extra = func(gotB []wire.BlockHeader, gotF []chainhash.Hash) []Finding {
		for h := range gotB {
			atomic.AddInt64(&ist.HeadersCompared, 1)
			switch {
			case h < len(pre.Blocks):
				if gotB[h] != pre.Blocks[h] {
					return []Finding{{sig("prior-content-changed/block"), fmt.Sprintf("%s: block header at height %d, stored before the import, changed", ctx, h)}}
				}
			case h-files.Start < 0 || h-files.Start >= len(files.Blocks) || gotB[h] != files.Blocks[h-files.Start]:
				return []Finding{{sig("not-from-file/block"), fmt.Sprintf("%s: block header stored at height %d is not the file's header for that height", ctx, h)}}
			}
		}
		for h := range gotF {
			atomic.AddInt64(&ist.HeadersCompared, 1)
			switch {
			case h < len(pre.Filters):
				if gotF[h] != pre.Filters[h] {
					return []Finding{{sig("prior-content-changed/filter"), fmt.Sprintf("%s: filter header at height %d, stored before the import, changed", ctx, h)}}
				}
			case h-files.Start < 0 || h-files.Start >= len(files.Filters) || gotF[h] != files.Filters[h-files.Start]:
				return []Finding{{sig("not-from-file/filter"), fmt.Sprintf("%s: filter header stored at height %d is not the file's header for that height", ctx, h)}}
			}
		}
		return nil
	}
	// The import is restartable: re-running it on the recovered stores
	// succeeds and completes the job.
	ic.Resume = func(b headerfs.BlockHeaderStore, f headerfs.FilterHeaderStore) (*Model, []Finding, string) {
		t := time.Now()
		defer func() { atomic.AddInt64(&ist.TReimport, int64(time.Since(t))) }()
		atomic.AddInt64(&ist.Reimports, 1)
		ierr, pan := DoImport(prep.Params, b, f, prep.BPath, prep.FPath, prep.Batch)
		switch {
		case pan != "":
			return nil, []Finding{{sig("reimport-panics"), fmt.Sprintf("%s: re-running the same import on the recovered stores panicked: %s", ctx, pan)}}, ""
		case ierr != nil:
			return nil, []Finding{{sig("reimport-fails"), fmt.Sprintf("%s: re-running the same import on the recovered stores failed: %v", ctx, ierr)}}, ""
		}
		got, err := ReadModel(b, f)
		if err != nil {
			return nil, []Finding{{sig("reimport-leaves-stores-unreadable"), fmt.Sprintf("%s: after re-running the import: %v", ctx, err)}}, ""
		}
		if d := sameModel(got, prep.Final); d != "" {
			return nil, []Finding{{sig("reimport-final-state-wrong"), fmt.Sprintf("%s: after re-running the import the stores are not the complete expected state: %s", ctx, d)}}, ""
		}
		atomic.AddInt64(&ist.ReimportsOK, 1)
		return got, nil, ""
	}
	out, inconclusive = ic.Run()
	if len(out) > 0 || inconclusive != "" || !crashStateBM {
		return out, inconclusive
	}
	t := time.Now()
	defer func() { atomic.AddInt64(&ist.TSecond, int64(time.Since(t))) }()
	atomic.AddInt64(&ist.CrashStateBM, 1)
	return (&ImageCheck{Dir: second, Params: prep.Params, Before: before, After: after, Rng: rng,
		Sig: func(rule string) string { return sig(rule + "/crash-state") }, Ctx: ctx, Stats: bms, BM: bmo,
		// This second look at the crash state restarts the way the complete
		// client does (NewChainService), not through the store constructors.
		Service: PlainStartSpec(prep.Params)}).Run()
}
