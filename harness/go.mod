module verif

go 1.25.11

replace github.com/lightninglabs/neutrino => /repo

replace github.com/lightninglabs/neutrino/cache => /repo/cache
