#!/usr/bin/env python3
"""Regenerates MANIFEST.json from the table below (single source of truth)."""
import json, subprocess

HOOK_COMMITS = subprocess.run(
    ["git", "-C", "/repo", "log", "--format=%h %s", "--grep=^verif hook"],
    capture_output=True, text=True).stdout.strip().splitlines()

ALL = [f"C{i:02d}" for i in range(1, 20)]

# id -> (engine, category, level text, level note, technique, design_ref)
CHECKS = {
 "C17": ("L2 network simulation", "exploration",
   "The real client is brought into one of 23 states (idle, k-th headers / cfheaders message of the sync, parked at each of the 7 block-manager pause points incl. inside a real reorganisation, GetBlock/GetCFilter pending at silent peers, a query storm, rescan in catch-up / retry / current, a running UTXO batch, broadcast and rebroadcast in flight, blocked subscription readers, all peers unresponsive / never reading / gone) and Stop is called at a seed-chosen instant; Stop must return, every in-flight public call must return with an error or a correct result, calls made after Stop must fail promptly, and the data directory must reopen with a valid block chain, filter tip <= block tip, ground-truth filter headers, and a second client on it must sync.",
   "'Never returns' verdicts need identical goroutine dumps over 36 s with no network event, or (partial deadlock: Stop stuck in one subsystem while later ones still run) Stop and every goroutine of the subsystem it waits for parked in identical frames over a further 150 s with the Go runtime reporting each blocked for >= 2 minutes; else inconclusive. Stop latency is evidence only. Two fixed scenarios stop the client inside a multi-worker checkpointed filter-header round (old genesis forces that path).",
   "runtime monitoring: Stop/blocked-caller return oracle with goroutine-dump deadlock argument + reopen oracle, over pause-point-steered states", "5/C17"),

 "C05": ("L2 network simulation", "exploration",
   "The real client syncs a generated chain of 1100-2600 blocks from peers that are honest for headers/cfheaders, then GetCFilter is called (targets at block 1, tip, around 1000/2000 boundaries; no/forward/reverse/capped batching; sequential, repeated, concurrent, after a restart on the same directory; with and without PersistToDisk) while each peer rewrites its getcfilters answers with one of 24 mutation kinds (reorder, duplicate, omit, silence, wrong type, unsolicited extras, and corruption at target/first/last/middle by bit flip, truncation, garbage, another block's valid filter, right filter under a wrong hash ...); every returned filter, every FilterCache entry after every round and every FilterDB entry after Stop must hash with the committed previous filter header to the committed header of its block and equal the ground-truth bytes; a success without any verifiable delivery on the wire is a violation.",
   "Failure despite a verifiable delivery is only counted (the statement promises safety, not success). Forced worker timeouts are bounded with the public NumRetries option.",
   "runtime monitoring: committed-header verification of every returned/cached/persisted filter under scripted response mutation", "5/C05"),

 "C06": ("L2 network simulation", "exploration",
   "The real client syncs a generated chain and GetBlock is called (sequential, concurrent, repeated, both encodings) while peers answer getdata(block) from a 29-kind vocabulary (honest, other block, nothing, garbage, and the requested header with mutated / added / removed / duplicated (CVE-2012-2459) / reordered transactions, stripped / forged witnesses, altered commitment ...); every message sent is labelled from its own bytes; returned blocks and every BlockCache entry must be byte-identical to the generator's block, senders of invalid blocks with the requested header must carry an InvalidBlock ban in the reopened ban store and no innocent peer may, banned addresses end without an open connection, and calls succeed when the true block was delivered.",
   "Ban attribution only when the event log shows the response reached an active call; BaseEncoding requests for witness blocks are labelled ambiguous and only counted.",
   "runtime monitoring: byte-level comparison of returned/cached blocks + ban-store attribution oracle over scripted block responses", "5/C06"),
 "C18": ("race detector", "other",
   "The workloads of the other checks (network simulations with 9 extra goroutines hammering every public getter, and the concurrent component drivers) are rebuilt with `go build -race` and run with GORACE log files; report blocks with a client frame in either stack are violations, deduplicated by the pair of first client frames; a report entirely inside harness code fails the run as a broken harness.",
   "Happens-before race detection is sound for what it reports and silent about paths and interleavings the workloads did not execute; third-party-only reports are counted, not charged.",
   "Go race detector (-race) over race-instrumented simulation and component workloads, log parsing and dedup", "5/C18"),

 "C04": ("L2 network simulation", "exploration",
   "The complete real ChainService (connmgr, btcd peers, block manager, work manager, stores on disk) runs against scripted wire peers: one honest peer plus stale / lighter-fork / invalid-header / filter-liar / silent / garbage / flapping / no-CF / no-witness / slow peers in random or forced connection order; the honest chain keeps growing and reorganises. SAFETY is checked at every 3 ms sample (reported best block is on a fully valid generated chain), BOUNDED PROGRESS per phase (a miss is a violation only if the client's state was stable for the last third of a deadline derived from the protocol timers, else inconclusive), and the stores are re-validated at the end; every second scenario then restarts the client and lets the other peers push their chains at it while the honest chain rests (stability).",
   "Schedule-dependent (which peer becomes sync peer); deadlines are derived from btcd's stall timeout and the worker timeouts; one child process per scenario. Two listed findings, each recognised from observations and reproduced by a fixed scenario or named seeds: a lone filter-header liar is believed (c04/lone-liar-believed/*), a fork deeper than one headers message is never left (c04/fork-deeper-than-one-headers-message).",
   "runtime monitoring: sampled public-API safety oracle + bounded-progress oracle over a scripted hostile network", "5/C04"),
 "C08": ("crash runner", "fault_enumeration",
   "Seeded scripts of appends / filter batches / rollbacks / reorganisation composites run on the real stores; EVERY crash point of every primitive (before/after each flat-file write, five torn lengths inside each write, after each truncate, after each index commit) yields a crash image that is opened like a restarting client and must open, hold exactly the before- or after-state in each store, have whole-record files agreeing with the tips, consistent by-hash lookups, filter tip <= block tip, and accept appends at the right heights. A sample of the same points is re-done with a real SIGKILL of a child process; the thorough tier adds SIGKILLs at random instants. IMPORT family: the real chainimport.Import runs on pre-filled real stores (block store ahead of the filter store by 0-5) over generated PoW-valid files with every batch class; every crash point during Import yields an image that must open, hold prior content plus a file prefix ending at a durable step, and the SAME import re-run on it must succeed and give exactly the complete final state. On every image of both families the real block manager is constructed on the reopened stores and must take one valid next header to tip+1.",
   "Process-death model (completed syscalls persist; bbolt commit atomic); power-loss reordering out of reach; torn genesis records are covered through the torn-append points plus open-time trimming, the first start itself by crash points around every index commit of the two constructors on an empty directory; the one-header restart on the crash state itself is done on one import image in four.",
   "runtime monitoring: exhaustive crash-point enumeration with crash images / real SIGKILL + recovery oracle", "5/C08"),

 "C07": ("headerfs component driver", "fault_enumeration",
   "Both real header stores (one shared bbolt DB) are driven by seeded histories of appends / rollbacks / reopens against an independent slice model with EVERY read method compared after every call; for a subset of histories every single-fault position (4 short-write kinds, seek/stat/truncate/sync failures on either flat file, DB update not run / rolled back) of every append and rollback is enumerated; a failed append must leave every read equal to the pre-call model and the next append must work.",
   "Single transient faults only; caller contract of the real callers (filter store rolled back before block store, filter appends only for stored blocks); behaviour after a failed ROLLBACK is recorded, not asserted (the statement covers failed appends).",
   "runtime monitoring: reference-model comparison of every read after every operation + exhaustive single-fault injection at the File/DB boundary + linearizability checking (porcupine) of recorded concurrent reader/writer histories", "5/C07 and 10.6"),
 "C09": ("rescan component driver", "exploration",
   "The real NewRescan runs over a harness ChainSource backed by a generated block tree and a real blockntfns.SubscriptionManager; chain growth / reorganisations are injected at every phase (before start, mid catch-up via gated ChainSource calls, while blocks wait for retry, when current), with scripted filter/block fetch failures and Update/Rewind at random moments; one ordered callback log is checked by a walk oracle (each connect is the child of the current block, each disconnect names it) and a relevant-transaction oracle (delivered set == txs paying then-watched scripts / spending then-watched outpoints).",
   "Two parts: component level (ChainSource boundary) and a network part in which the real NewRescan runs on the complete client (RescanChainSource) against wire peers with growth, reorganisations of depth 1-6 revealed freely or while the rescan goroutine is parked inside a callback, dropped filter/block requests, Update/Rewind; same walk and relevant-transaction oracles. An update concurrent with a callback keeps both watch states acceptable; rescans that end with an error are judged only on callbacks already delivered.",
   "runtime monitoring: ordered callback log vs chain-walk and relevant-tx reference model, with gate-based schedule control", "5/C09"),
 "C10": ("utxo scanner component driver", "exploration",
   "The real UtxoScanner (wired like production through the verif export) runs over a gated ChainSource: requests and new blocks arrive at chosen points of a running batch, fetches fail at chosen calls, Stop at random points; every request is read by two goroutines; answers are compared with a literal scan of the served chain for some tip between enqueue and delivery; 'no caller left waiting' is decided in callback counts and goroutine dumps, not seconds.",
   "Two parts: component level and a network part in which ChainService.GetUtxo is called concurrently in waves on the complete client (hand-built tail/growth blocks with second spends, stalled batches joined by later requests during growth, blocks withheld by every peer, Stop mid-batch); each answer must be acceptable for some tip between the client's own BestBlock before the call and after its return. Double-spend material added to served blocks is not consensus-valid (needed to make 'earliest spend' observable); start above tip and out-of-range index mean 'empty report'.",
   "runtime monitoring: per-request result vs reference scan, exactly-once and no-lost-request monitors with gate-controlled schedules", "5/C10"),
 "C11": ("blockntfns component driver", "exploration",
   "A real SubscriptionManager over a harness NotificationSource with an unbuffered channel; events carry unique ids; the harness records one serialised order of hand-overs and backlog calls (the registration point); each subscriber's stream must be a prefix of backlog ++ later events (full when not cancelled), channels closed after Cancel/Stop, stalled subscribers do not delay others; general schedules plus a stop-storm family aimed at the shutdown race.",
   "Scheduler-dependent: a run observes the interleavings the Go scheduler produced (GOMAXPROCS varied per schedule).",
   "runtime monitoring: per-subscriber stream vs reference stream from a serialised hand-over log", "5/C11"),
 "C12": ("query component driver", "exploration",
   "The real WorkManager + Worker + peer ranking over scripted query.Peer implementations (answer, partial progress, silence, late answer, disconnect mid-job, reconnect under the same address), 1-4 batches in flight with every option; per batch exactly one verdict, nil only if every request finished, errors only with their cause present, re-issue and ranking rules, and after every scenario probe batches + Stop must complete (dispatcher not wedged; decided with goroutine samples).",
   "Real worker timeouts (2 s doubling) bound the number of forced timeouts per scenario; timer-caused verdicts are only excluded when elapsed time is clearly below the timer.",
   "runtime monitoring: verdict/handler/peer event log vs batch-outcome reference rules", "5/C12"),
 "C13": ("banman component driver", "exploration",
   "STORE half: the real banman store over a real bbolt DB under 500-op sequences of ban/unban/status/reopen over 25 addresses x 9 spellings x family-length masks x all reasons x clock-distant durations, against a model keyed by the canonical prefix; plus a small thorough-only set of real 2 s bans judged only clearly inside/outside the ban. ENFORCEMENT half (L2): the complete client against peers lacking witness/CF service bits, provable filter-header liars, consistent and checkpoint-only checkpoint liars, cfheaders-batch liars, invalid-block servers, and honest / stale / slow / merely disconnecting controls, as permanent ConnectPeers (redialled every 300 ms): every misbehaving peer whose misbehaviour the log shows was served must be in the reopened ban store with the right reason and IsBanned, no honest-class peer may be, connections handled after the ban must carry no request, none may stay open, and an honest peer stays connected.",
   "Mixed-length masks are out of scope (the client never produces them); sub-second expiry truncation not asserted. Listed finding: a lone liar is believed and honest peers are banned afterwards (fixed scenario 2).",
   "runtime monitoring: model comparison of Status over all spellings after every operation", "5/C13"),
 "C14": ("chainimport component driver", "fault_enumeration",
   "The real headers import runs on real stores (pre-filled to chosen heights) over generated PoW-valid files: every start-height relation, length, batch size, overlap agreement/disagreement position, invalid header position (incl. index 0), 20 container faults, and the k-th store write failing; both stores are read back in full after Import and after a second Import and compared with 'previous contents extended by the file' (success) or the consistency conditions (failure).",
   "Filter-header overlap comparison is sampled by design in the code (counted, not asserted).",
   "runtime monitoring: full store read-back vs file contents + reference header validator, with injected write failures", "5/C14"),
 "C15": ("pushtx component driver", "exploration",
   "The real Broadcaster with a gated Broadcast callback and an unbuffered block-event channel; real tx DAGs (chains, diamonds, fan-in/out) with scripted per-tx outcomes; one serialised history of calls, hand-overs and callback invocations; rounds identified per rebroadcast goroutine; rules: membership, parents before children, nothing after confirmation / rejection, completeness after provably idle triggers, one round at a time, and Broadcast/MarkAsConfirmed/Stop return in every schedule (incl. after Stop).",
   "Two parts: the component part (Broadcaster) and a network part in which ChainService.SendTransaction runs on the complete client against 2-6 wire peers whose reaction to the inv is scripted per (peer, tx) (request+accept, request+reject with 13 code/reason classes, reject without requesting, silence, double request, late reject, reject for another hash, disconnect): an error is allowed only if every replying peer rejected or the invalid share reaches the threshold; accepted and mempool-duplicate txs must be re-announced to every connected peer after later blocks, rejected ones never. Timestamps only classify a reject as clearly inside / clearly outside the reject window (in between: inconclusive).",
   "runtime monitoring: serialised call/callback history vs rebroadcast reference rules; blocked-forever decided by goroutine dumps", "5/C15"),
 "C16": ("lru component driver", "exploration",
   "(a) sequential random histories vs a reference LRU with values whose Size() errors; (b) EXHAUSTIVE enumeration of every release order of the verif yield points for every pair (and selected triples) of operations after random prefixes, each schedule checked for linearizability (own search cross-checked by porcupine) and quiescent invariants; (c) free-running stress windows checked by porcupine plus a walk hammer.",
   "Yield points sit outside the mutex only; exhaustive refers to schedules per (prefix, tuple) at yield-point granularity.",
   "runtime monitoring: linearizability checking of recorded histories (porcupine) + invariant checks under an enumerating yield-point scheduler", "5/C16"),
 "C01": ("L1 block-manager driver", "exploration",
   "Held on every handled message of the explored sessions: the real blockManager over real on-disk header stores is fed seeded hostile header/inv/peer-event sessions; after EVERY message the whole stored chain is re-read through the public store API and validated by an independent reference validator (linkage, PoW, exact retarget bits, MTP, future limit, checkpoints) and by-hash/by-height/tip/locator answers are cross-checked. Sessions include a database whose index entries sit in the legacy (pre-sub-bucket) location and batches that return to a previously abandoned branch. A second part runs the COMPLETE client against wire peers (first peer trickling a fork / an invalid chain below a checkpoint, then growth and reorganisations) while a monitor cross-checks the public lookups GetBlockHash -> GetBlockHeader -> GetBlockHeight inside quiescent brackets and reads the whole chain back through them at every quiescent point. Exploration is the right level: the quantifier is over unbounded message sequences; reach comes from generated trees, adversarial batches and many seeds.",
   "Reference validator cross-checked against btcd in the harness self-test; real network timing is covered by C04, not here; paths the sessions never drive are not covered.",
   "runtime monitoring: reference-model validation of real store contents after every handled message", "5/C01"),
 "C02": ("L1 block-manager driver", "exploration",
   "Per handled message the store contents before and after are compared against the property's safety rule (any change is an offered, valid, strictly heavier branch forking at/above the newest reached checkpoint, or a sanctioned failed-checkpoint rollback; otherwise byte-identical) and completeness rule (fully valid extension / admissible heavier branch from a listened-to peer is adopted in full). Held on the explored sessions.",
   "Completeness is asserted only when its premise is provable from generator labels re-derived by the reference validator; a batch crossing a not-yet-passed checkpoint is expected to be adopted up to that checkpoint (documented protocol behaviour).",
   "runtime monitoring: before/after store diff against work/validity oracle", "5/C02"),
 "C03": ("L1 block-manager driver", "exploration",
   "The real filter-header machinery (getCheckpts, resolveConflict, getCheckpointedCFHeaders, getUncheckpointedCFHeaders, writeCFHeadersMsg, rollBackToHeight) runs against scripted honest/lying/silent peers over generated chains with real BIP158 filters, with reorganisations between rounds and injected inside the write window through pause points; after every call the committed filter chain is re-read and compared with ground truth / served values / checkpoints, and bans are checked at the end.",
   "queryAllPeers and the query dispatcher are scripted in this engine (serial callback discipline mimicked); the real ones run in the network-simulation checks. Unprovable lies (extra filter elements, majority games) are only checked for safety conditions (a)-(d).",
   "runtime monitoring: ground-truth comparison of committed filter headers + ban log, with pause-point fault injection", "5/C03"),
 "C19": ("L1 block-manager driver", "exploration",
   "The block manager's own notification channel is drained while each handler call runs; per step the events are compared with the store diff (disconnects = removed headers highest-first with header/height/new tip; connects = newly committed filter headers in order, after commitment), a model subscriber replays them and must end with the committed chain, and NotificationsSinceHeight is probed at six heights after every step.",
   "Two parts: below the subscription manager (L1) and real subscriptions on the complete client (L2): subscribers from drawn heights, plus joiners subscribing from height 1 every few ms WHILE the client adopts a growth or reorganisation step, replay backlog + events and must hold exactly the committed chain at every quiescent point. Store reads happen right after an event's receipt; only facts the same handler cannot undo are asserted; a header of the handled message that was stored and rolled back within one step may be announced as disconnected.",
   "runtime monitoring: event-log vs store-diff oracle with replay model and backlog probes", "5/C19"),
}

REASON_PENDING = "check under construction in this round (not yet registered); see DESIGN.md section 5"


# Families added in round 2 (DESIGN 10.5): appended to the level text.
ADD = {
 "C02": "Sessions also return to a branch the client had abandoned (extended), run on a database with legacy-location index entries, and make the store's WriteHeaders fail (completeness is not promised for such a step).",
 "C03": "Further families: a legacy-location index with reorganisations inside the write window; 2-3 hard-coded filter checkpoints with lists false at an older one only (multicp); block downloads that fail during a conflict with a liar majority (blockfail, also on the complete client); batched cfheaders answers cut short (truncbatch); two-stage sessions in which an at-tip sync leaves a filter tip that is not a multiple of 1000 before the client falls a whole interval behind.",
 "C04": "Further phases: the honest chain returns to the branch the client left (reorg-return); a restart while peers had withheld filter headers, chain at rest afterwards; fixed scenarios with forks exactly at genesis / at the last passed checkpoint.",
 "C05": "Further families: reorganisations between calls with peers serving the replaced block's filter under the new hash; requests above the filter-header tip answered with the filter of a block L below (lag-shift), for unbatched / reverse / forward batches. Calls of the lag family reach the far end of the lag (unbatched / forward, 3-4 blocks above the filter-header tip); the runner's resource monitor (peak resident memory of the client process above 2500 MiB = violation) watches every scenario.",
 "C06": "Ban histories (ban, unban, re-offend, other port, restart) and IPv4 / IPv6 / mapped / expanded address spellings: after an invalid block from a host was handled it is banned under every spelling; a header lookup that answers a hash with another block's header (wrapped exported store) must never make GetBlock return that block.",
 "C07": "A third part injects double faults: an append torn to every left-over class whose clean-up truncate also fails, then reopen, append, reopen, rollback, re-add (reads beyond the tip are judged only after the reopen when a whole stray record remains, as the unchanged code needs the open-time trim). Block locators are compared exactly with the documented rule (ten single steps, then doubling). A fourth part runs readers CONCURRENTLY with the writer: one goroutine applies a seeded history while three call every read method of both stores; calls and returns are stamped at the client boundary and porcupine checks the recorded history for linearizability against the plain list (timeout = inconclusive); a history that stops making progress is decided by two identical goroutine dumps (lock cycle inside headerfs = violated).",
 "C08": "START-UP family: every write-transaction boundary of neutrino.NewChainService on an empty directory (recorded in a dry run), torn genesis appends, a second generation (crash during the recovery start) and real SIGKILL at the same points; the restart goes through NewChainService. After a restart on an image whose filter tip is below its block tip, filter-header syncing must resume without a new block.",
 "C09": "Further families: rescans served from the persisted filter store after a restart / cache eviction (PersistToDisk); Update with Rewind (with and without disconnect notifications) applied while the caller's block is off the best chain.",
 "C10": "Further families: a block download that fails for every peer and is then retried (same request, duplicates, direct GetBlock); one block spending several watched outpoints in separate transactions with duplicate requests (sweep).",
 "C11": "A client family registers subscribers through RescanChainSource.Subscribe on the complete client while filter headers lag, after reorganisations above the filter tip, mid-batch and idle: backlog + events must replay to the committed chain.",
 "C12": "Further families: real queries through the real ServerPeer adaptor while peers are disconnected locally mid-answer (complete client); progress-then-stall batches under ProgressTimeout held until the verdict; same-address reconnects during quiet periods after which the reconnected peer is the only responsive one.",
 "C13": "Further enforcement scenarios: a liar about an unparseable output script with a bounded-progress rule (N conflicts on the table and the proof served, liar still unbanned); conflicts in which every participant is a liar or mute.",
 "C15": "A co-subscriber family lets other subscribers (0..100+ unread notifications) and real rescans share the subscription manager with the broadcaster and cancel at seeded moments; rebroadcast must be observed within K committed blocks. Tick mode with a busy handler: while unrelated calls arrive closer together than the interval for N >= 20 intervals (counted by chained timers of the harness) at least one tick-started round containing the pending transaction must start.",
 "C17": "A peer-state API family calls ConnectedCount / Peers / ConnectNode / Disconnect* / BanPeer ... across Stop with a scripted NameResolver holding a lookup inside the peer handler; permanent peers given as host names that never resolve; Stop while a rebroadcast is in flight. A start-state family stops a client that was never started, or whose Start failed in the headers import (seven failure kinds), starts it again / opens a second client on the directory, stops twice. The scenario runner reads every client process's peak resident memory from its rusage: above 2500 MiB (scenarios need 100-300) is a violation (a process that is OOM-killed or thrashes returns from neither the call nor Stop).",
 "C14": "A filter-checkpoint family puts 1-3 hard-coded filter-header checkpoints in force (verif hook, private network magic per case) on parameter sets with and without block checkpoints: a file contradicting one must be refused, and nothing an import adds may contradict one.",
 "C19": "The filter sessions include two-stage sessions (partial first interval of a checkpointed sync) and truncated batches.",
 "C01": "",
}

def main():
    checks = []
    for cid, (engine, cat, text, note, tech, ref) in sorted(CHECKS.items()):
        checks.append({
            "property_id": cid,
            "quick_cmd": f"./check {cid} quick",
            "thorough_cmd": f"./check {cid} thorough",
            "evidence_file": f"/verif/evidence/{cid}.json",
            "replay_cmd_template": "cat {path}   # witness: seeds + step script; re-run with VERIF_SEED=<seed> ./check " + cid + " <tier>",
            "engine": engine,
            "level_claimed": {"category": cat, "text": (text + " " + ADD.get(cid, "")).strip(), "design_ref": "DESIGN.md section " + ref + " and 10.5"},
            "level_note": note,
            "technique": tech,
        })
    m = {
        "version": 1,
        "setup_cmd": "./check --build-all",
        "hooks": {
            "guard": "verif",
            "enable": "go build -tags verif (harness module /verif/harness replaces github.com/lightninglabs/neutrino => /repo and .../cache => /repo/cache)",
            "baseline_off_cmd": "for m in . ./cache; do (cd /repo/$m && go test -mod=mod -vet=off -count=1 -timeout 25m ./...) || exit 1; done",
            "source_commits": [l.split()[0] for l in HOOK_COMMITS],
            "add_only": True,
        },
        "engines": [
            {"name": "L1 block-manager driver", "path": "harness/internal/l1", "serves_properties": ["C01", "C02", "C03", "C19"],
             "kind_free_text": "real blockManager + real headerfs stores, scripted network, synchronous message-at-a-time driving, store read-back after every step"},
            {"name": "L2 network simulation", "path": "harness/internal/l2", "serves_properties": ["C01", "C03", "C04", "C05", "C06", "C09", "C10", "C11", "C12", "C13", "C15", "C17", "C18", "C19"],
             "kind_free_text": "the complete real ChainService through its public API against scripted wire peers reached through Config.Dialer; one child process per scenario"},
            {"name": "crash runner", "path": "harness/internal/c08", "serves_properties": ["C08"],
             "kind_free_text": "crash images at every File/DB boundary point and real SIGKILL of child processes, recovery oracle on reopen"},
            {"name": "chaingen + ref", "path": "harness/internal/chaingen", "serves_properties": ALL,
             "kind_free_text": "seeded block-tree generator (PoW, retargeting presets, txs, BIP158 filters) and independent reference validators"},
            {"name": "component drivers", "path": "harness/internal/c07 c09 c10 c11 c12 c13 c14 c15 c16", "serves_properties": ["C07","C09","C10","C11","C12","C13","C14","C15","C16"],
             "kind_free_text": "exported constructors of one package driven directly with fakes at its boundary and a reference model as oracle"},
            {"name": "netsim", "path": "harness/internal/netsim", "serves_properties": ["C01", "C02", "C03", "C04", "C19"],
             "kind_free_text": "buffered in-memory connections, wire-level scripted peers (honest / liar behaviours), event log"},
        ],
        "checks": checks,
        "notes": "Runtime monitoring only: the real code runs under generated / hostile / fault workloads and oracles decide over the observed executions. See DESIGN.md; fixed defects and findings in KNOWN_FINDINGS.json.",
        "not_applicable": [{"property_id": i, "reason": REASON_PENDING} for i in ALL if i not in CHECKS],
    }
    json.dump(m, open("/verif/MANIFEST.json", "w"), indent=1)

main()
