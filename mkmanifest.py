#!/usr/bin/env python3
"""Regenerates MANIFEST.json from the table below (single source of truth)."""
import json, subprocess

HOOK_COMMITS = subprocess.run(
    ["git", "-C", "/repo", "log", "--format=%h %s", "--grep=^verif hook"],
    capture_output=True, text=True).stdout.strip().splitlines()

ALL = [f"C{i:02d}" for i in range(1, 20)]

# id -> (engine, category, level text, level note, technique, design_ref)
CHECKS = {
 "C01": ("L1 block-manager driver", "exploration",
   "Held on every handled message of the explored sessions: the real blockManager over real on-disk header stores is fed seeded hostile header/inv/peer-event sessions; after EVERY message the whole stored chain is re-read through the public store API and validated by an independent reference validator (linkage, PoW, exact retarget bits, MTP, future limit, checkpoints) and by-hash/by-height/tip/locator answers are cross-checked. Exploration is the right level: the quantifier is over unbounded message sequences; reach comes from generated trees, adversarial batches and many seeds.",
   "Reference validator cross-checked against btcd in the harness self-test; real network timing is covered by C04, not here; paths the sessions never drive are not covered.",
   "runtime monitoring: reference-model validation of real store contents after every handled message", "5/C01"),
 "C02": ("L1 block-manager driver", "exploration",
   "Per handled message the store contents before and after are compared against the property's safety rule (any change is an offered, valid, strictly heavier branch forking at/above the newest reached checkpoint, or a sanctioned failed-checkpoint rollback; otherwise byte-identical) and completeness rule (fully valid extension / admissible heavier branch from a listened-to peer is adopted in full). Held on the explored sessions.",
   "Completeness is asserted only when its premise is provable from generator labels re-derived by the reference validator; a batch crossing a not-yet-passed checkpoint is expected to be adopted up to that checkpoint (documented protocol behaviour).",
   "runtime monitoring: before/after store diff against work/validity oracle", "5/C02"),
 "C03": ("L1 block-manager driver", "exploration",
   "The real filter-header machinery (getCheckpts, resolveConflict, getCheckpointedCFHeaders, getUncheckpointedCFHeaders, writeCFHeadersMsg, rollBackToHeight) runs against scripted honest/lying/silent peers over generated chains with real BIP158 filters, with reorganisations between rounds and injected inside the write window through pause points; after every call the committed filter chain is re-read and compared with ground truth / served values / checkpoints, and bans are checked at the end.",
   "queryAllPeers and the query dispatcher are scripted in this engine (serial callback discipline mimicked); the real ones run in the network-simulation checks. Unprovable lies (extra filter elements, majority games) are only checked for safety conditions (a)-(d).",
   "runtime monitoring: ground-truth comparison of committed filter headers + ban log, with pause-point fault injection", "5/C03"),
 "C19": ("L1 block-manager driver", "exploration",
   "The block manager's own notification channel is drained while each handler call runs; per step the events are compared with the store diff (disconnects = removed headers highest-first with header/height/new tip; connects = newly committed filter headers in order, after commitment), a model subscriber replays them and must end with the committed chain, and NotificationsSinceHeight is probed at six heights after every step.",
   "Events are observed below the subscription manager (C11 covers the manager). Store reads happen right after an event's receipt; only facts the same handler cannot undo are asserted.",
   "runtime monitoring: event-log vs store-diff oracle with replay model and backlog probes", "5/C19"),
}

REASON_PENDING = "check under construction in this round (not yet registered); see DESIGN.md section 5"

def main():
    checks = []
    for cid, (engine, cat, text, note, tech, ref) in sorted(CHECKS.items()):
        checks.append({
            "property_id": cid,
            "quick_cmd": f"./check {cid} quick",
            "thorough_cmd": f"./check {cid} thorough",
            "evidence_file": f"/verif/evidence/{cid}.json",
            "replay_cmd_template": "cat {path}   # witness: seeds + step script; re-run with VERIF_SEED=<seed> ./check " + cid + " <tier>",
            "engine": engine,
            "level_claimed": {"category": cat, "text": text, "design_ref": "DESIGN.md section " + ref},
            "level_note": note,
            "technique": tech,
        })
    m = {
        "version": 1,
        "setup_cmd": "./check --build-all",
        "hooks": {
            "guard": "verif",
            "enable": "go build -tags verif (harness module /verif/harness replaces github.com/lightninglabs/neutrino => /repo and .../cache => /repo/cache)",
            "baseline_off_cmd": "for m in . ./cache; do (cd /repo/$m && go test -mod=mod -vet=off -count=1 -timeout 25m ./...) || exit 1; done",
            "source_commits": [l.split()[0] for l in HOOK_COMMITS],
            "add_only": True,
        },
        "engines": [
            {"name": "L1 block-manager driver", "path": "harness/internal/l1", "serves_properties": ["C01", "C02", "C03", "C19"],
             "kind_free_text": "real blockManager + real headerfs stores, scripted network, synchronous message-at-a-time driving, store read-back after every step"},
            {"name": "chaingen + ref", "path": "harness/internal/chaingen", "serves_properties": ALL,
             "kind_free_text": "seeded block-tree generator (PoW, retargeting presets, txs, BIP158 filters) and independent reference validators"},
            {"name": "netsim", "path": "harness/internal/netsim", "serves_properties": ["C01", "C02", "C03", "C19"],
             "kind_free_text": "buffered in-memory connections, wire-level scripted peers (honest / liar behaviours), event log"},
        ],
        "checks": checks,
        "notes": "Runtime monitoring only: the real code runs under generated / hostile / fault workloads and oracles decide over the observed executions. See DESIGN.md; fixed defects and findings in KNOWN_FINDINGS.json.",
        "not_applicable": [{"property_id": i, "reason": REASON_PENDING} for i in ALL if i not in CHECKS],
    }
    json.dump(m, open("/verif/MANIFEST.json", "w"), indent=1)

main()
